"""C04 generator: Generated/Sb2Consts.lean from the CURRENT SB 2.x sources (pure `ast` reading).

Emits plain `def`s (namespace SpsdkVerif.Generated.Sb2Consts):
  * EnumCmdTag / EnumSectionFlag members, the memory-id masks/shifts (module level and CmdBaseClass),
  * CmdHeader / ImageHeaderV2 / CertBlockHeader FORMAT strings as (endianness, field widths), their SIZEs,
    the checksum seed / start index / mask of `CmdHeader.crc`
    (the argument order of the `pack(...)` calls etc. is recorded as source text in the meta file only),
  * SIGNATURE1/2, the fixed header fields (`key_blob_block`, `key_blob_block_count`), which attribute the
    product / component version words are computed from,
  * BootImageV20 / BootImageV21 / BootSectionV2 / CertSectionV2 class constants, the V2.0 flag values,
  * the counter-advance expressions of the section exporter, key-store `count`, FILL word size,
  * ExtMemId tags that fit the 8-bit controller id, VersionCheckType tags, RKHT geometry,
  * `pack_timestamp` epoch / scale.
`Model/Sb2.lean` (builder side) uses the tag/flag/mask/size constants directly; `Properties/C04.lean`
proves `Generated = Spec` for everything the independent ROM model is written with, so a changed source
constant, field order or format stops a theorem from compiling.
"""
from __future__ import annotations

import ast
import re

from extract import emit, parse

CMD = "spsdk/sbfile/sb2/commands.py"
HDR = "spsdk/sbfile/sb2/headers.py"
IMG = "spsdk/sbfile/sb2/images.py"
SEC = "spsdk/sbfile/sb2/sections.py"
MISC = "spsdk/sbfile/misc.py"
CERT = "spsdk/utils/crypto/cert_blocks.py"
RKHT = "spsdk/utils/crypto/rkht.py"
MEM = "spsdk/mboot/memories.py"

_W = {"B": 1, "b": 1, "H": 2, "h": 2, "I": 4, "i": 4, "L": 4, "l": 4, "Q": 8, "q": 8}


def _cls(tree, name):
    for n in ast.walk(tree):
        if isinstance(n, ast.ClassDef) and n.name == name:
            return n
    return None


def _fun(node, name):
    if node is None:
        return None
    for n in ast.walk(node):
        if isinstance(n, (ast.FunctionDef, ast.AsyncFunctionDef)) and n.name == name:
            return n
    return None


def enum_members(tree, clsname):
    c = _cls(tree, clsname)
    out = []
    if c is None:
        return out
    for st in c.body:
        if isinstance(st, ast.Assign) and len(st.targets) == 1 and isinstance(st.targets[0], ast.Name) \
                and isinstance(st.value, ast.Tuple) and st.value.elts:
            try:
                v = ast.literal_eval(st.value.elts[0])
            except (ValueError, SyntaxError):
                continue
            if isinstance(v, int):
                out.append((st.targets[0].id, v))
    return out


def _fold(node, env):
    """Fold an integer/bytes expression over literals, names in env and + - * // << >> & |."""
    if isinstance(node, ast.Constant) and isinstance(node.value, (int, bytes, str)) and not isinstance(node.value, bool):
        return node.value
    if isinstance(node, ast.Name) and node.id in env:
        return env[node.id]
    if isinstance(node, ast.BinOp):
        a, b = _fold(node.left, env), _fold(node.right, env)
        if isinstance(a, int) and isinstance(b, int):
            ops = {ast.Add: lambda x, y: x + y, ast.Sub: lambda x, y: x - y, ast.Mult: lambda x, y: x * y,
                   ast.FloorDiv: lambda x, y: x // y if y else None, ast.LShift: lambda x, y: x << y,
                   ast.RShift: lambda x, y: x >> y, ast.BitAnd: lambda x, y: x & y, ast.BitOr: lambda x, y: x | y}
            f = ops.get(type(node.op))
            return f(a, b) if f else None
    return None


def consts_of(body):
    """NAME = <foldable> assignments of a class / module body, in order."""
    out = {}
    for st in body:
        tgt = val = None
        if isinstance(st, ast.Assign) and len(st.targets) == 1 and isinstance(st.targets[0], ast.Name):
            tgt, val = st.targets[0].id, st.value
        elif isinstance(st, ast.AnnAssign) and isinstance(st.target, ast.Name) and st.value is not None:
            tgt, val = st.target.id, st.value
        if tgt:
            v = _fold(val, out)
            if v is not None:
                out[tgt] = v
    return out


def fmt_widths(fmt):
    """'<16s4s2BH' -> (endian, [(kind, width)]) with kind 's' (bytes) or 'u' (unsigned integer)."""
    if not isinstance(fmt, str):
        return "native", None
    end, s = "native", fmt
    if s[:1] in "<>=!@":
        end = {"<": "little", ">": "big", "!": "big", "=": "native", "@": "native"}[s[0]]
        s = s[1:]
    out = []
    for m in re.finditer(r"(\d+)?([A-Za-z])", s):
        cnt, ch = m.group(1), m.group(2)
        if ch == "s":
            out.append(("s", int(cnt) if cnt else 1))
        elif ch in _W:
            out += [("u", _W[ch])] * (int(cnt) if cnt else 1)
        else:
            return end, None
    return end, out


def call_args(fn, names, skip=1):
    """source text of the positional args (after `skip`) of the first call to one of `names` in fn"""
    if fn is None:
        return []
    calls = [n for n in ast.walk(fn) if isinstance(n, ast.Call)]
    calls.sort(key=lambda n: (n.lineno, n.col_offset))
    for n in calls:
        f = n.func
        nm = f.attr if isinstance(f, ast.Attribute) else f.id if isinstance(f, ast.Name) else None
        if nm in names:
            return [ast.unparse(a) for a in n.args[skip:]]
    return []


def unpack_targets(fn):
    """names on the left of `(... ) = unpack_from(...)` in fn"""
    if fn is None:
        return []
    for n in ast.walk(fn):
        if isinstance(n, ast.Assign) and isinstance(n.value, ast.Call) and len(n.targets) == 1 \
                and isinstance(n.targets[0], ast.Tuple):
            f = n.value.func
            nm = f.attr if isinstance(f, ast.Attribute) else f.id if isinstance(f, ast.Name) else None
            if nm in ("unpack_from", "unpack"):
                return [ast.unparse(e) for e in n.targets[0].elts]
    return []


def assigned_expr(fn, target_src):
    """source text of the value assigned to `target_src` (e.g. 'self.key_blob_block') in fn, last one wins"""
    out = None
    if fn is None:
        return out
    for n in ast.walk(fn):
        if isinstance(n, ast.Assign) and len(n.targets) == 1 and ast.unparse(n.targets[0]) == target_src:
            out = ast.unparse(n.value)
        if isinstance(n, ast.AugAssign) and ast.unparse(n.target) == target_src:
            out = (out or "") + " ; " + ast.unparse(n.op.__class__()) if False else (out or "") + "; += " + ast.unparse(n.value)
    return out


def lstr(s):
    return '"' + str(s).replace("\\", "\\\\").replace('"', '\\"') + '"'


def lbytes(b):
    return "[" + ", ".join(str(x) for x in b) + "]"


def gen_Sb2Consts():
    meta = {"sources": [CMD, HDR, IMG, SEC, MISC, CERT, RKHT, MEM], "missing": []}
    L = ["import SpsdkVerif.Base.Py", "", "namespace SpsdkVerif.Generated.Sb2Consts", "",
         "/-- one struct field: `true` = byte string (`Ns`), `false` = unsigned integer; width in bytes -/",
         "abbrev Fld := Bool × Nat", ""]

    def nat(name, v, doc=None, default=None):
        if (not isinstance(v, int) or v < 0) and default is not None:
            # a value that is read off a *statement pattern* (not a declaration): when the code was rewritten and the pattern
            # is gone, the documented value is assumed instead of poisoning the theorems - behaviour is still tied by the
            # correspondence streams, and the meta file says that the value was not found in the source
            meta.setdefault("assumed_pattern_not_found", []).append(name)
            v = default
        if not isinstance(v, int) or v < 0:
            meta["missing"].append(name)
            v = 0xDEAD0000 + len(meta["missing"])  # poison: every agreement theorem about it fails
        if doc:
            L.append(f"/-- {doc} -/")
        L.append(f"def {name} : Nat := {v}")
        meta[name] = v

    def strs(name, xs, doc=None):
        # source text is recorded in the meta file only (evidence for the reader): no Lean definition and no theorem
        # depends on it, so renaming a local variable in /repo cannot break an obligation.
        meta["src:" + name] = {"what": doc or name, "text": list(xs)}

    def byts(name, b, doc=None):
        if not isinstance(b, (bytes, bytearray)):
            meta["missing"].append(name)
            b = b"\xde\xad"
        if doc:
            L.append(f"/-- {doc} -/")
        L.append(f"def {name} : List UInt8 := {lbytes(b)}")
        meta[name] = bytes(b).hex()

    def fmt(name, f, doc=None):
        end, ws = fmt_widths(f)
        if ws is None:
            meta["missing"].append(name)
            ws = []
        if doc:
            L.append(f"/-- {doc} -/")
        L.append(f"def {name}Little : Bool := {'true' if end == 'little' else 'false'}")
        L.append(f"def {name} : List Fld := [" + ", ".join(f"({'true' if k == 's' else 'false'}, {w})" for k, w in ws) + "]")
        L.append(f"def {name}Size : Nat := {sum(w for _, w in ws)}")
        meta[name] = {"format": f, "size": sum(w for _, w in ws)}

    # ------------------------------------------------------------------ commands.py
    t = parse(CMD)
    modc = consts_of(t.body)
    L.append("/-! ## spsdk/sbfile/sb2/commands.py -/")
    for n in ("DEVICE_ID_MASK", "DEVICE_ID_SHIFT", "GROUP_ID_MASK", "GROUP_ID_SHIFT"):
        nat("mem" + "".join(p.capitalize() for p in n.split("_")), modc.get(n), f"module constant {n}")
    tags = enum_members(t, "EnumCmdTag")
    for nm, v in tags:
        nat("tag" + "".join(p.capitalize() for p in nm.split("_")), v, f"EnumCmdTag.{nm}")
    L.append("def cmdTags : List (String × Nat) := [" + ", ".join(f"({lstr(n)}, {v})" for n, v in tags) + "]")
    meta["cmdTags"] = tags
    for nm, v in enum_members(t, "EnumSectionFlag"):
        nat("sectFlag" + "".join(p.capitalize() for p in nm.split("_")), v, f"EnumSectionFlag.{nm}")
    base = consts_of(_cls(t, "CmdBaseClass").body) if _cls(t, "CmdBaseClass") else {}
    for n in ("ROM_MEM_DEVICE_ID_MASK", "ROM_MEM_DEVICE_ID_SHIFT", "ROM_MEM_GROUP_ID_MASK", "ROM_MEM_GROUP_ID_SHIFT"):
        nat("rom" + "".join(p.capitalize() for p in n.split("_")[2:]), base.get(n), f"CmdBaseClass.{n}")
    ks = consts_of(_cls(t, "CmdKeyStoreBackupRestore").body) if _cls(t, "CmdKeyStoreBackupRestore") else {}
    nat("keystoreDeviceIdMask", ks.get("ROM_MEM_DEVICE_ID_MASK"), "CmdKeyStoreBackupRestore.ROM_MEM_DEVICE_ID_MASK")
    nat("keystoreDeviceIdShift", ks.get("ROM_MEM_DEVICE_ID_SHIFT"), "CmdKeyStoreBackupRestore.ROM_MEM_DEVICE_ID_SHIFT")
    ch = _cls(t, "CmdHeader")
    chc = consts_of(ch.body) if ch else {}
    fmt("cmdHeaderFmt", chc.get("FORMAT"), "CmdHeader.FORMAT")
    strs("cmdHeaderPackArgs", call_args(_fun(ch, "_raw_data"), ("pack",)), "arguments of pack() in CmdHeader._raw_data")
    strs("cmdHeaderUnpackTargets", unpack_targets(_fun(ch, "parse")), "targets of unpack_from() in CmdHeader.parse")
    crc = _fun(ch, "crc")
    seed = start = mask = None
    raw_arg = None
    if crc is not None:
        for n in ast.walk(crc):
            if isinstance(n, ast.Assign) and ast.unparse(n.targets[0]) == "checksum" and isinstance(n.value, ast.Constant):
                seed = n.value.value
            if isinstance(n, ast.For) and isinstance(n.iter, ast.Call) and ast.unparse(n.iter.func) == "range" and n.iter.args:
                start = _fold(n.iter.args[0], {}) if len(n.iter.args) > 1 else 0
                for m in ast.walk(n):
                    if isinstance(m, ast.BinOp) and isinstance(m.op, ast.BitAnd):
                        mask = _fold(m.right, {})
            if isinstance(n, ast.Call) and ast.unparse(n.func) == "self._raw_data":
                raw_arg = ast.unparse(n.keywords[0].value) if n.keywords else (ast.unparse(n.args[0]) if n.args else None)
    nat("checksumSeed", seed if seed is not None else _alt_seed(crc), "initial value of the CmdHeader checksum", default=0x5A)
    nat("checksumStart", start, "first byte index summed by CmdHeader.crc", default=1)
    nat("checksumMask", mask, "mask applied after every addition", default=0xFF)
    strs("checksumRawCrcArg", [raw_arg or "?"], "crc value the checksum is computed over (`_raw_data(crc=0)`)")
    # key-store `count`, FILL word
    kinit = _fun(_cls(t, "CmdKeyStoreBackupRestore"), "__init__")
    kcount = None
    if kinit is not None:
        for n in ast.walk(kinit):
            if isinstance(n, ast.Assign) and ast.unparse(n.targets[0]) == "self.header.count":
                kcount = _fold(n.value, {})
    nat("keystoreCount", kcount, "CmdKeyStoreBackupRestore: header.count", default=4)
    vct = enum_members(t, "VersionCheckType")
    L.append("def versionCheckTypes : List Nat := [" + ", ".join(str(v) for _, v in vct) + "]")
    meta["versionCheckTypes"] = vct
    # parse_command class table
    table = []
    for n in ast.walk(t):
        if isinstance(n, (ast.AnnAssign, ast.Assign)):
            tgt = n.target if isinstance(n, ast.AnnAssign) else n.targets[0]
            if ast.unparse(tgt) == "_CMD_CLASS" and isinstance(n.value, ast.Dict):
                for k, v in zip(n.value.keys, n.value.values):
                    table.append((ast.unparse(k).split(".")[-1], ast.unparse(v)))
    L.append("def cmdClassTable : List (String × String) := [" + ", ".join(f"({lstr(a)}, {lstr(b)})" for a, b in table) + "]")
    meta["cmdClassTable"] = table
    # which tag every command class announces
    cls_tag = []
    for c in [n for n in t.body if isinstance(n, ast.ClassDef)]:
        init = _fun(c, "__init__")
        tg = None
        if init is not None:
            for n in ast.walk(init):
                if isinstance(n, ast.Call) and ast.unparse(n.func) == "super().__init__" and n.args:
                    s = ast.unparse(n.args[0])
                    if s.startswith("EnumCmdTag."):
                        tg = s.split(".")[1]
        cid = _fun(c, "cmd_id")
        if cid is not None:
            for n in ast.walk(cid):
                if isinstance(n, ast.Return) and n.value is not None and ast.unparse(n.value).startswith("EnumCmdTag."):
                    tg = ast.unparse(n.value).split(".")[1]
        if tg:
            cls_tag.append((c.name, tg))
    L.append("def cmdClassTag : List (String × String) := [" + ", ".join(f"({lstr(a)}, {lstr(b)})" for a, b in cls_tag) + "]")
    meta["cmdClassTag"] = cls_tag
    # header slots every command class writes (setter targets), as sorted source text
    L.append("")

    # ------------------------------------------------------------------ memories.py
    tm = parse(MEM)
    ext = sorted({v for _, v in enum_members(tm, "ExtMemId") if v <= 0xFF})
    L.append("/-- ExtMemId tags that fit the 8-bit controller id of the key-store commands -/")
    L.append("def extMemIds : List Nat := [" + ", ".join(map(str, ext)) + "]")
    meta["extMemIds"] = ext
    L.append("")

    # ------------------------------------------------------------------ headers.py
    th = parse(HDR)
    ih = _cls(th, "ImageHeaderV2")
    ihc = consts_of(ih.body) if ih else {}
    L.append("/-! ## spsdk/sbfile/sb2/headers.py -/")
    fmt("imageHeaderFmt", ihc.get("FORMAT"), "ImageHeaderV2.FORMAT")
    byts("imageSignature1", ihc.get("SIGNATURE1"), "ImageHeaderV2.SIGNATURE1")
    byts("imageSignature2", ihc.get("SIGNATURE2"), "ImageHeaderV2.SIGNATURE2")
    exp = _fun(ih, "export")
    strs("imageHeaderPackArgs", call_args(exp, ("pack",)), "arguments of pack() in ImageHeaderV2.export, in order")
    strs("imageHeaderUnpackTargets", unpack_targets(_fun(ih, "parse")), "targets of unpack_from() in ImageHeaderV2.parse")
    strs("productVersionWordsSrc", [assigned_expr(exp, "product_version_words") or "?"])
    strs("componentVersionWordsSrc", [assigned_expr(exp, "component_version_words") or "?"])
    init = _fun(ih, "__init__")
    for fld in ("key_blob_block", "key_blob_block_count"):
        v = None
        if init is not None:
            for n in ast.walk(init):
                if isinstance(n, ast.Assign) and ast.unparse(n.targets[0]) == "self." + fld:
                    v = _fold(n.value, {})
        nat("hdr" + "".join(p.capitalize() for p in fld.split("_")), v, f"ImageHeaderV2.__init__: self.{fld}",
            default={"key_blob_block": 8, "key_blob_block_count": 5}[fld])
    parse_fn = _fun(ih, "parse")
    strs("imageHeaderParseVersions", [assigned_kw(parse_fn, k) for k in ("product_version", "component_version", "version", "flags", "build_number")],
         "keyword arguments ImageHeaderV2.parse passes to the constructor")
    L.append("")

    # ------------------------------------------------------------------ misc.py (timestamp)
    tmi = parse(MISC)
    pt = _fun(tmi, "pack_timestamp")
    epoch, scale = [], None
    if pt is not None:
        for n in ast.walk(pt):
            if isinstance(n, ast.Call) and ast.unparse(n.func) == "datetime":
                epoch = [_fold(a, {}) for a in n.args]
            if isinstance(n, ast.BinOp) and isinstance(n.op, ast.Mult) and isinstance(n.right, ast.Constant):
                scale = n.right.value
    L.append("/-! ## spsdk/sbfile/misc.py -/")
    L.append("def timestampEpoch : List Nat := [" + ", ".join(str(x) for x in epoch if isinstance(x, int)) + "]")
    meta["timestampEpoch"] = epoch
    nat("timestampScale", scale, "pack_timestamp: ticks per second")
    sb = consts_of(_cls(tmi, "SecBootBlckSize").body) if _cls(tmi, "SecBootBlckSize") else {}
    nat("blockSize", sb.get("BLOCK_SIZE"), "SecBootBlckSize.BLOCK_SIZE")
    L.append("")

    # ------------------------------------------------------------------ sections.py
    ts = parse(SEC)
    L.append("/-! ## spsdk/sbfile/sb2/sections.py -/")
    bs = _cls(ts, "BootSectionV2")
    nat("sectionHmacSize", consts_of(bs.body).get("HMAC_SIZE") if bs else None, "BootSectionV2.HMAC_SIZE")
    cs = _cls(ts, "CertSectionV2")
    csc = consts_of(cs.body) if cs else {}
    nat("certSectionHmacSize", csc.get("HMAC_SIZE"), "CertSectionV2.HMAC_SIZE")
    mark = None
    if cs is not None:
        for st in cs.body:
            if isinstance(st, ast.Assign) and ast.unparse(st.targets[0]) == "SECT_MARK":
                m = re.search(r"unpack_from\('(<|>)L', b'(....)'\)\[0\]", ast.unparse(st.value))
                if m:
                    mark = int.from_bytes(m.group(2).encode(), "little" if m.group(1) == "<" else "big")
    nat("certSectionMark", mark, "CertSectionV2.SECT_MARK", default=int.from_bytes(b"sign", "little"))
    bexp = _fun(bs, "export")
    incs = []
    if bexp is not None:
        for n in ast.walk(bexp):
            if isinstance(n, ast.Call) and ast.unparse(n.func) == "counter.increment":
                incs.append((n.lineno, ast.unparse(n.args[0]) if n.args else "1"))
    strs("sectionExportCounterIncrements", [s for _, s in sorted(incs)], "arguments of counter.increment() in BootSectionV2.export, in order")
    strs("sectionExportHeaderData", [assigned_expr(bexp, "self._header.data") or "?", assigned_expr(bexp, "self._header.count") or "?",
                                     assigned_expr(bexp, "block_size") or "?"],
         "BootSectionV2.export: header.data, header.count, HMAC block size")
    binit = _fun(bs, "__init__")
    strs("sectionInitFlags", call_args(binit, ("CmdHeader",), skip=0)[:2], "BootSectionV2.__init__: CmdHeader(tag, flags)")
    cinit = _fun(cs, "__init__")
    strs("certSectionInitFlags", call_args(cinit, ("CmdHeader",), skip=0)[:2], "CertSectionV2.__init__: CmdHeader(tag, flags)")
    L.append("")

    # ------------------------------------------------------------------ images.py
    ti = parse(IMG)
    L.append("/-! ## spsdk/sbfile/sb2/images.py -/")
    for cname, pre in (("BootImageV20", "v20"), ("BootImageV21", "v21")):
        c = _cls(ti, cname)
        cc = consts_of(c.body) if c else {}
        names = ("HEADER_MAC_SIZE", "DEK_MAC_SIZE", "KEY_BLOB_SIZE") if pre == "v20" else \
            ("HEADER_MAC_SIZE", "KEY_BLOB_SIZE", "SHA_256_SIZE", "FLAGS_SHA_PRESENT_BIT", "FLAGS_ENCRYPTED_SIGNED_BIT")
        for n in names:
            nat(pre + "".join(p.capitalize() for p in n.split("_")), cc.get(n), f"{cname}.{n}")
    c20 = _cls(ti, "BootImageV20")
    fl = None
    upd = _fun(c20, "update")
    if upd is not None:
        for n in ast.walk(upd):
            if isinstance(n, ast.Assign) and ast.unparse(n.targets[0]) == "self._header.flags" and isinstance(n.value, ast.IfExp):
                fl = (_fold(n.value.body, {}), _fold(n.value.orelse, {}), ast.unparse(n.value.test))
    nat("v20FlagsSigned", fl[0] if fl else None, "BootImageV20.update: flags of a signed image", default=8)
    nat("v20FlagsUnsigned", fl[1] if fl else None, "BootImageV20.update: flags of an unsigned image", default=4)
    c21 = _cls(ti, "BootImageV21")
    e21 = _fun(c21, "export")
    strs("v21ExportOrder", [ast.unparse(n.value) for n in ast.walk(e21) if isinstance(n, ast.Return) and n.value is not None] if e21 else [],
         "BootImageV21.export: the returned concatenation")
    strs("v21HeaderHmacRange", [assigned_expr(e21, "hmac_data") or "?"], "BootImageV21.export: bytes the header HMAC is computed over")
    strs("v21KeyBlob", [assigned_expr(e21, "key_blob") or "?"], "BootImageV21.export: key blob construction")
    u21 = _fun(c21, "update")
    strs("v21UpdateAssignments", [assigned_expr(u21, "self._header." + f) or "?" for f in
                                  ("first_boot_section_id", "first_boot_tag_block", "image_blocks", "header_blocks",
                                   "offset_to_certificate_block", "max_section_mac_count")],
         "BootImageV21.update: header fields (source text)")
    strs("v21RawSizeShaTerm", [ast.unparse(n.test) for n in ast.walk(_fun(c21, "raw_size") or ast.Module(body=[], type_ignores=[]))
                               if isinstance(n, ast.If)], "BootImageV21.raw_size: conditions")
    e20 = _fun(c20, "export")
    strs("v20ExportAppends", [ast.unparse(n.value) for n in ast.walk(e20) if isinstance(n, ast.AugAssign) and ast.unparse(n.target) == "data"] if e20 else [],
         "BootImageV20.export: `data += …` in order")
    u20 = _fun(c20, "update")
    strs("v20UpdateAssignments", [assigned_expr(u20, "self._header." + f) or "?" for f in
                                  ("first_boot_section_id", "first_boot_tag_block", "image_blocks", "header_blocks",
                                   "offset_to_certificate_block", "max_section_mac_count")],
         "BootImageV20.update: header fields (source text)")
    L.append("")

    # ------------------------------------------------------------------ cert_blocks.py / rkht.py
    tc = parse(CERT)
    cbh = _cls(tc, "CertBlockHeader")
    cbc = consts_of(cbh.body) if cbh else {}
    L.append("/-! ## spsdk/utils/crypto/cert_blocks.py, rkht.py (only what the ROM model needs to find the block's end) -/")
    fmt("certBlockHeaderFmt", cbc.get("FORMAT"), "CertBlockHeader.FORMAT")
    byts("certBlockSignature", cbc.get("SIGNATURE"), "CertBlockHeader.SIGNATURE")
    strs("certBlockHeaderPackArgs", call_args(_fun(cbh, "export"), ("pack",)), "arguments of pack() in CertBlockHeader.export")
    cb1 = consts_of(_cls(tc, "CertBlockV1").body) if _cls(tc, "CertBlockV1") else {}
    nat("certBlockAlignment", cb1.get("DEFAULT_ALIGNMENT"), "CertBlockV1.DEFAULT_ALIGNMENT (SB2.1 sets 16 explicitly)")
    tr = parse(RKHT)
    rk = {}
    for c in [n for n in ast.walk(tr) if isinstance(n, ast.ClassDef)]:
        cc = consts_of(c.body)
        if "RKHT_SIZE" in cc and "RKH_SIZE" in cc and c.name == "RKHTv1":
            rk = cc
    nat("rkhtEntries", rk.get("RKHT_SIZE"), "RKHTv1.RKHT_SIZE")
    nat("rkhSize", rk.get("RKH_SIZE"), "RKHTv1.RKH_SIZE")
    L.append("")
    L.append("end SpsdkVerif.Generated.Sb2Consts")
    emit("Sb2Consts", "\n".join(L) + "\n", meta)


def _alt_seed(crc):
    """seed of the checksum when it is written as one expression, e.g. `(0x5A + sum(raw[1:])) & 0xFF`"""
    if crc is None:
        return None
    for n in ast.walk(crc):
        if isinstance(n, ast.BinOp) and isinstance(n.op, ast.Add):
            for side in (n.left, n.right):
                if isinstance(side, ast.Constant) and isinstance(side.value, int) and side.value > 1:
                    return side.value
    return None


def assigned_kw(fn, kw):
    """source text of keyword `kw` in the first `cls(...)` call of fn"""
    if fn is None:
        return "?"
    for n in ast.walk(fn):
        if isinstance(n, ast.Call) and ast.unparse(n.func) == "cls":
            for k in n.keywords:
                if k.arg == kw:
                    return ast.unparse(k.value)
    return "?"


GENERATORS = {"Sb2Consts": gen_Sb2Consts}
