"""C18 generator: Generated/CacheGuards.lean from the AST of spsdk/utils/database.py.

For every function that pickles/unpickles a database cache file it records what the code *lexically*
guarantees around the file operations: the exception classes caught around the cache load, which
operations are inside `with FileLock(...)`, type / fingerprint checks, what the except handler does,
whether the store is written in place or through a temporary file + rename.

The functions are found by structure (not by name):
  * loader  = function with a `pickle.load` that is NOT in the same `with FileLock` block as a `pickle.dump`;
      "quick"  loader: the same function also stores the cache (`pickle.dump` elsewhere in it),
      "config" loader: it does not (its store is the separate merge-and-rewrite function);
  * writer  = the `pickle.dump` of the quick loader function / the function whose `pickle.dump` shares the
      `with FileLock` block with a `pickle.load` (merge).
Pure static reading; never imports spsdk.
"""
from __future__ import annotations

import ast

from extract import emit, parse

SRC = "spsdk/utils/database.py"

KNOWN = """BaseException Exception KeyboardInterrupt SystemExit GeneratorExit ArithmeticError OverflowError
ZeroDivisionError FloatingPointError AssertionError AttributeError BufferError EOFError ImportError
ModuleNotFoundError LookupError IndexError KeyError MemoryError NameError UnboundLocalError OSError
FileNotFoundError FileExistsError PermissionError IsADirectoryError NotADirectoryError BlockingIOError
InterruptedError TimeoutError ReferenceError RuntimeError RecursionError NotImplementedError StopIteration
SyntaxError SystemError TypeError ValueError UnicodeError UnicodeDecodeError UnicodeEncodeError PickleError
UnpicklingError PicklingError SPSDKError""".split()
ALIASES = {"IOError": "OSError", "EnvironmentError": "OSError", "Timeout": "LockTimeout"}


def exc_lean(name: str) -> str:
    name = ALIASES.get(name, name)
    if name in KNOWN or name == "LockTimeout":
        return f"Exc.{name}"
    return f'(Exc.other "{name}")'


def exc_names(node) -> list:
    """class names of an `except` type expression (None = bare except)."""
    if node is None:
        return ["BaseException"]
    if isinstance(node, ast.Tuple):
        out = []
        for e in node.elts:
            out += exc_names(e)
        return out
    if isinstance(node, ast.Name):
        return [node.id]
    if isinstance(node, ast.Attribute):
        return [node.attr]
    return ["?" + ast.dump(node)[:20]]


def call_name(c: ast.Call) -> str:
    f = c.func
    parts = []
    while isinstance(f, ast.Attribute):
        parts.append(f.attr)
        f = f.value
    if isinstance(f, ast.Name):
        parts.append(f.id)
    return ".".join(reversed(parts))


def open_mode(c: ast.Call) -> str:
    mode = None
    if len(c.args) >= 2 and isinstance(c.args[1], ast.Constant):
        mode = c.args[1].value
    for kw in c.keywords:
        if kw.arg == "mode" and isinstance(kw.value, ast.Constant):
            mode = kw.value.value
    return mode or "r"


def classify_call(c: ast.Call):
    n = call_name(c)
    if n in ("os.path.exists", "os.path.isfile"):
        return "exists"
    if n == "open":
        m = open_mode(c)
        return "open_w" if any(ch in m for ch in "wax+") else "open_r"
    if n in ("pickle.load", "pickle.loads"):
        return "load"
    if n in ("pickle.dump",):
        return "dump"
    if n in ("os.remove", "os.unlink"):
        return "remove"
    if n == "os.makedirs":
        return "makedirs"
    if n in ("os.replace", "os.rename", "shutil.move"):
        return "replace"
    if n == "shutil.rmtree":
        return "rmtree"
    return None


def is_filelock_with(w) -> bool:
    return isinstance(w, (ast.With, ast.AsyncWith)) and any(
        isinstance(it.context_expr, ast.Call) and call_name(it.context_expr).split(".")[-1] in ("FileLock", "SoftFileLock", "UnixFileLock")
        for it in w.items)


def suppress_classes(w):
    if isinstance(w, ast.With):
        for it in w.items:
            if isinstance(it.context_expr, ast.Call) and call_name(it.context_expr).split(".")[-1] == "suppress":
                out = []
                for a in it.context_expr.args:
                    out += exc_names(a)
                return out
    return None


class Ctx:
    """Ancestor chain entry kinds: ('try', TryNode) body member, ('handler', TryNode, idx), ('with', WithNode), ('if', IfNode, branch)."""


def walk_sites(fn: ast.FunctionDef):
    """-> list of dict(call, op, chain) for every recognised call; chain = list of ancestor entries (outermost first)."""
    sites = []

    def visit(node, chain):
        if isinstance(node, (ast.FunctionDef, ast.AsyncFunctionDef, ast.ClassDef, ast.Lambda)) and node is not fn:
            return  # nested definitions are separate functions
        if isinstance(node, ast.Call):
            op = classify_call(node)
            if op:
                sites.append({"call": node, "op": op, "chain": list(chain)})
        if isinstance(node, ast.Try):
            for s in node.body:
                visit(s, chain + [("try", node)])
            for i, h in enumerate(node.handlers):
                for s in h.body:
                    visit(s, chain + [("handler", node, i)])
            for s in node.orelse:
                visit(s, chain + [("tryelse", node)])
            for s in node.finalbody:
                visit(s, chain + [("finally", node)])
            return
        if isinstance(node, (ast.With, ast.AsyncWith)):
            for it in node.items:
                visit(it.context_expr, chain)
            for s in node.body:
                visit(s, chain + [("with", node)])
            return
        if isinstance(node, ast.If):
            visit(node.test, chain)
            for s in node.body:
                visit(s, chain + [("if", node, True)])
            for s in node.orelse:
                visit(s, chain + [("if", node, False)])
            return
        for ch in ast.iter_child_nodes(node):
            visit(ch, chain)

    for s in fn.body:
        visit(s, [])
    return sites



# ------------------------------------------------------------------------------------------------ AST normalisation
# Behaviour-preserving rewrites must not change anything that is generated.  Before any analysis the functions are brought
# into a normal form:  (a) a statement that calls a helper method of the same class which itself performs cache actions is
# replaced by the helper's body (one level deep, parameters substituted);  (b) early exits become if/else: the statements
# following an `if` whose one branch ends in return/raise/continue/break move into the other branch;  (c) `if not C: A else: B`
# becomes `if C: B else: A`.  Locals are never emitted by name, comparisons are read by meaning (== / != / not).
import copy


def _terminates(stmts) -> bool:
    return bool(stmts) and isinstance(stmts[-1], (ast.Return, ast.Raise, ast.Continue, ast.Break))


def _is_pass_only(stmts) -> bool:
    return all(isinstance(x, ast.Pass) for x in stmts)


def _norm_block(stmts):
    out = []
    for i, s in enumerate(stmts):
        s = _norm_stmt(s)
        if isinstance(s, ast.If):
            rest = list(stmts[i + 1:])
            # `if <check fails>: raise E` is an assertion; the inverse spelling `if <ok>: <rest> else: raise E` is brought to it
            if len(s.orelse) == 1 and isinstance(s.orelse[0], ast.Raise) and not _terminates(s.body):
                chk = ast.If(test=ast.UnaryOp(op=ast.Not(), operand=s.test), body=s.orelse, orelse=[])
                ast.copy_location(chk, s)
                out.append(chk)
                out.extend(_norm_block(list(s.body) + rest))
                return out
            if len(s.body) == 1 and isinstance(s.body[0], ast.Raise) and not s.orelse:
                out.append(s)
                continue
            if rest and _terminates(s.body) and not _terminates(s.orelse):
                s.orelse = _norm_block(list(s.orelse) + rest)
                out.append(_flip(s))
                return out
            if rest and s.orelse and _terminates(s.orelse) and not _terminates(s.body):
                s.body = _norm_block(list(s.body) + rest)
                out.append(_flip(s))
                return out
            s = _flip(s)
        out.append(s)
    return out


def _flip(s: ast.If) -> ast.If:
    if isinstance(s.test, ast.UnaryOp) and isinstance(s.test.op, ast.Not) and s.orelse and not _is_pass_only(s.orelse):
        s.test, s.body, s.orelse = s.test.operand, s.orelse, s.body
    return s


def _norm_stmt(s):
    if isinstance(s, (ast.FunctionDef, ast.AsyncFunctionDef, ast.ClassDef)):
        return s
    for fld in ("body", "orelse", "finalbody"):
        sub = getattr(s, fld, None)
        if isinstance(sub, list) and sub and isinstance(sub[0], ast.stmt):
            setattr(s, fld, _norm_block(sub))
    if isinstance(s, ast.Try):
        for h in s.handlers:
            h.body = _norm_block(h.body)
    return s


def _has_cache_op(node) -> bool:
    return any(isinstance(c, ast.Call) and classify_call(c) not in (None, "exists", "rmtree") for c in ast.walk(node))


def _helper_call(stmt, methods, cls_names):
    """the statement is `self.h(...)`, `x = self.h(...)` or `return self.h(...)` for a method h of the same class"""
    val = stmt.value if isinstance(stmt, (ast.Expr, ast.Assign, ast.Return, ast.AnnAssign)) else None
    if not isinstance(val, ast.Call) or not isinstance(val.func, ast.Attribute) or val.func.attr not in methods:
        return None
    base = val.func.value
    ok = isinstance(base, ast.Name) and base.id in ({"self", "cls"} | cls_names)
    ok = ok or (isinstance(base, ast.Attribute) and base.attr in cls_names)
    return val if ok else None


def _inline_block(stmts, methods, cls_names, owner):
    out = []
    for s in stmts:
        call = _helper_call(s, methods, cls_names)
        h = methods.get(call.func.attr) if call is not None else None
        if h is not None and h.name != owner.name and _has_cache_op(h):
            body = [x for x in h.body if not (isinstance(x, ast.Expr) and isinstance(x.value, ast.Constant) and isinstance(x.value.value, str))]
            inner_returns = [n for x in body[:-1] for n in ast.walk(x) if isinstance(n, ast.Return)] if body else []
            if body and not inner_returns:
                params = [a.arg for a in h.args.args]
                if params and params[0] in ("self", "cls"):
                    params = params[1:]
                amap = {}
                for pn, a in zip(params, call.args):
                    amap[pn] = a
                for kw in call.keywords:
                    if kw.arg:
                        amap[kw.arg] = kw.value
                body = copy.deepcopy(body)

                class Sub(ast.NodeTransformer):
                    def visit_Name(self, n):
                        if isinstance(n.ctx, ast.Load) and n.id in amap:
                            return copy.deepcopy(amap[n.id])
                        return n
                body = [Sub().visit(x) for x in body]
                last = body[-1]
                if isinstance(last, ast.Return):
                    if isinstance(s, ast.Assign) and isinstance(last.value, ast.Name) and len(s.targets) == 1 and isinstance(s.targets[0], ast.Name):
                        # `x = self.h()` where h ends in `return r`: h's local r IS the caller's x
                        r, t = last.value.id, s.targets[0].id
                        body = body[:-1]
                        for x in body:
                            for n in ast.walk(x):
                                if isinstance(n, ast.Name) and n.id == r:
                                    n.id = t
                    elif isinstance(s, ast.Assign) and last.value is not None:
                        body[-1] = ast.Assign(targets=s.targets, value=last.value)
                    elif isinstance(s, ast.Return):
                        pass
                    elif last.value is not None:
                        body[-1] = ast.Expr(value=last.value)
                    else:
                        body = body[:-1]
                for x in body:
                    for n in ast.walk(x):
                        if hasattr(n, "lineno") or isinstance(n, (ast.stmt, ast.expr)):
                            n.lineno = getattr(s, "lineno", 0)
                            n.end_lineno = getattr(s, "end_lineno", n.lineno)
                            n.col_offset = getattr(n, "col_offset", 0)
                            n.end_col_offset = getattr(n, "end_col_offset", 0)
                out.extend(body)
                INLINED.add((_INLINE_CTX[0], h.name))
                continue
        for fld in ("body", "orelse", "finalbody"):
            sub = getattr(s, fld, None)
            if isinstance(sub, list) and sub and isinstance(sub[0], ast.stmt) and not isinstance(s, (ast.FunctionDef, ast.AsyncFunctionDef, ast.ClassDef)):
                setattr(s, fld, _inline_block(sub, methods, cls_names, owner))
        if isinstance(s, ast.Try):
            for hd in s.handlers:
                hd.body = _inline_block(hd.body, methods, cls_names, owner)
        out.append(s)
    return out


_INLINE_CTX = [""]
INLINED = set()   # ids (class name, method name) of helpers whose body now lives in their caller


def normalize_tree(tree):
    """-> a deep copy of the module in normal form (see above); never raises: a function that cannot be normalised is left as it is"""
    pristine = copy.deepcopy(tree)
    tree = copy.deepcopy(tree)
    INLINED.clear()
    pristine_classes = {}

    def index(node, chain):
        for ch in ast.iter_child_nodes(node):
            if isinstance(ch, ast.ClassDef):
                pristine_classes[".".join(c for c in chain + [ch.name])] = ch
                index(ch, chain + [ch.name])
    index(pristine, [])

    def rec(node, chain):
        for ch in ast.iter_child_nodes(node):
            if isinstance(ch, ast.ClassDef):
                rec(ch, chain + [ch])
            elif isinstance(ch, (ast.FunctionDef, ast.AsyncFunctionDef)):
                cls = pristine_classes.get(".".join(c.name for c in chain)) if chain else None
                methods = {m.name: m for m in (cls.body if cls else pristine.body) if isinstance(m, (ast.FunctionDef, ast.AsyncFunctionDef))}
                names = {c.name for c in chain}
                _INLINE_CTX[0] = ".".join(c.name for c in chain)
                saved = copy.deepcopy(ch.body)
                try:
                    ch.body = _inline_block(ch.body, methods, names, ch)
                    ch.body = _norm_block(ch.body)
                    ast.fix_missing_locations(ch)
                except Exception:  # noqa: BLE001
                    ch.body = saved
                rec(ch, chain)

    # helpers are inlined from the ORIGINAL bodies: first inline everywhere, then normalise (done per function above in that order;
    # a helper that was itself rewritten before being inlined only had early exits turned into if/else, which is harmless)
    rec(tree, [])
    return tree


def functions(tree):
    out = []

    def rec(node, prefix):
        for ch in ast.iter_child_nodes(node):
            if isinstance(ch, ast.ClassDef):
                rec(ch, prefix + [ch.name])
            elif isinstance(ch, (ast.FunctionDef, ast.AsyncFunctionDef)):
                out.append((".".join(prefix + [ch.name]), ch))
                rec(ch, prefix + [ch.name])

    rec(tree, [])
    return [(qn, fn) for qn, fn in out if (qn.rsplit(".", 1)[0] if "." in qn else "", fn.name) not in INLINED]


def in_lock(chain) -> bool:
    return any(e[0] == "with" and is_filelock_with(e[1]) for e in chain)


def lock_with(chain):
    for e in reversed(chain):
        if e[0] == "with" and is_filelock_with(e[1]):
            return e[1]
    return None


def enclosing_try(chain):
    """innermost Try in whose *body* the site sits (handlers/else/finally of inner tries stop the search upwards only for that try)."""
    for e in reversed(chain):
        if e[0] == "try":
            return e[1]
    return None


def caught_union(chain) -> list:
    out = []
    for e in chain:
        if e[0] == "try":
            for h in e[1].handlers:
                for n in exc_names(h.type):
                    if n not in out:
                        out.append(n)
        if e[0] == "with":
            sc = suppress_classes(e[1])
            if sc:
                for n in sc:
                    if n not in out:
                        out.append(n)
    return out


def handler_classes(t: ast.Try) -> list:
    out = []
    for h in t.handlers:
        for n in exc_names(h.type):
            if n not in out:
                out.append(n)
    return out


def has_exists_guard(chain, within=None) -> bool:
    """an enclosing `if os.path.exists(...)` (positive branch); `within`: only ancestors below this node."""
    seen_within = within is None
    for e in chain:
        if not seen_within:
            if len(e) > 1 and e[1] is within:
                seen_within = True
            continue
        if e[0] == "if" and e[2] is True:
            for c in ast.walk(e[1].test):
                if isinstance(c, ast.Call) and classify_call(c) == "exists":
                    # `if not os.path.exists(x)` is a negative guard
                    neg = isinstance(e[1].test, ast.UnaryOp) and isinstance(e[1].test.op, ast.Not)
                    if not neg:
                        return True
    return False


def assigned_name(fn, call):
    for n in ast.walk(fn):
        if isinstance(n, ast.Assign) and n.value is call and len(n.targets) == 1 and isinstance(n.targets[0], ast.Name):
            return n.targets[0].id
        if isinstance(n, ast.AnnAssign) and n.value is call and isinstance(n.target, ast.Name):
            return n.target.id
    return None


def resets(stmts, var) -> bool:
    for s in stmts:
        for n in ast.walk(s):
            if isinstance(n, ast.Assign) and any(isinstance(t, ast.Name) and t.id == var for t in n.targets) \
                    and isinstance(n.value, ast.Constant) and n.value.value is None:
                return True
    return False


def read_after(fn, node, var) -> bool:
    end = getattr(node, "end_lineno", node.lineno)
    return any(isinstance(n, ast.Name) and n.id == var and isinstance(n.ctx, ast.Load) and n.lineno > end for n in ast.walk(fn))


def find_type_check(stmts, var):
    """-> (exc class name, node) of the first isinstance check of `var` in stmts (recursively)."""
    for s in stmts:
        for n in ast.walk(s):
            if isinstance(n, ast.Assert):
                if any(isinstance(c, ast.Call) and call_name(c) == "isinstance" and c.args and isinstance(c.args[0], ast.Name) and c.args[0].id == var
                       for c in ast.walk(n.test)):
                    return "AssertionError", n
            if isinstance(n, ast.If) and isinstance(n.test, ast.UnaryOp) and isinstance(n.test.op, ast.Not):
                if any(isinstance(c, ast.Call) and call_name(c) == "isinstance" and c.args and isinstance(c.args[0], ast.Name) and c.args[0].id == var
                       for c in ast.walk(n.test)):
                    for r in n.body:
                        if isinstance(r, ast.Raise) and r.exc is not None:
                            e = r.exc.func if isinstance(r.exc, ast.Call) else r.exc
                            return exc_names(e)[0], n
    return None, None


def find_fp_check(stmts, var):
    """-> (If node, parent block, mismatch statements) for the comparison of `<var>.<…hash…>`."""

    def is_hash_cmp(test):
        if isinstance(test, ast.Compare) and len(test.ops) == 1 and isinstance(test.ops[0], (ast.Eq, ast.NotEq)):
            for side in [test.left] + test.comparators:
                if isinstance(side, ast.Attribute) and "hash" in side.attr and isinstance(side.value, ast.Name) and side.value.id == var:
                    return True
        return False

    def rec(block):
        for i, s in enumerate(block):
            if isinstance(s, ast.If) and is_hash_cmp(s.test):
                if isinstance(s.test.ops[0], ast.NotEq):
                    mismatch = list(s.body)
                else:
                    mismatch = list(s.orelse)
                    if s.body and isinstance(s.body[-1], (ast.Return, ast.Raise)):
                        mismatch += block[i + 1:]
                return s, mismatch
            for fld in ("body", "orelse", "finalbody"):
                sub = getattr(s, fld, None)
                if isinstance(sub, list) and sub and isinstance(sub[0], ast.stmt):
                    r = rec(sub)
                    if r:
                        return r
        return None

    return rec(stmts)


def contains_call(stmts, op):
    for s in stmts:
        for n in ast.walk(s):
            if isinstance(n, ast.Call) and classify_call(n) == op:
                return True
    return False


def b(x) -> str:
    return "true" if x else "false"


def lst(names) -> str:
    return "[" + ", ".join(exc_lean(n) for n in names) + "]"


def analyse_loader(qn, fn, sites, load_site):
    chain = load_site["chain"]
    t = enclosing_try(chain)
    var = assigned_name(fn, load_site["call"])
    g = {"function": qn, "line": load_site["call"].lineno, "loaded_var": var}
    if t is None or var is None:
        # no try around the load at all: nothing is caught
        g.update(caught=[], existsGuard=has_exists_guard(chain), lockRead=in_lock(chain), typeChecked=False, typeExc="AssertionError",
                 typeCheckInTry=False, fpChecked=False, removeStale=False, removeStaleInTry=False, staleClearsLoaded=False,
                 handlerRemoves=False, handlerExistsGuard=False, handlerRemoveTolerates=[], handlerClearsLoaded=False, note="no try around the load")
        return g
    g["caught"] = handler_classes(t)
    g["existsGuard"] = has_exists_guard(chain)
    open_sites = [s for s in sites if s["op"] == "open_r" and enclosing_try(s["chain"]) is t]
    g["lockRead"] = in_lock(chain) and all(in_lock(s["chain"]) for s in open_sites)
    te, tnode = find_type_check(t.body, var)
    in_try = te is not None
    if te is None:
        # after the try?
        after = [s for s in ast.walk(fn) if isinstance(s, ast.stmt) and s.lineno > t.end_lineno]
        te, tnode = find_type_check(after, var)
    g["typeChecked"] = te is not None
    g["typeExc"] = te or "AssertionError"
    g["typeCheckInTry"] = in_try
    fp = find_fp_check(t.body, var)
    g["fpChecked"] = fp is not None
    mismatch = fp[1] if fp else []
    g["removeStale"] = contains_call(mismatch, "remove")
    g["removeStaleInTry"] = g["removeStale"]
    used_after = read_after(fn, t, var)
    g["staleClearsLoaded"] = (not used_after) or resets(mismatch, var)
    # handler(s): all handlers must agree, otherwise nothing is claimed
    per = []
    for h in t.handlers:
        hr = contains_call(h.body, "remove")
        rem_sites = [s for s in sites if s["op"] == "remove" and any(e[0] == "handler" and e[1] is t for e in s["chain"])
                     and s["call"].lineno >= h.lineno and s["call"].lineno <= h.end_lineno]
        eg = bool(rem_sites) and all(has_exists_guard(s["chain"], within=t) for s in rem_sites)
        tol = None
        for s in rem_sites:
            # tolerance = handlers of try bodies / suppress blocks *inside* the handler
            inner = []
            seen = False
            for e in s["chain"]:
                if e[0] == "handler" and e[1] is t:
                    seen = True
                    continue
                if seen:
                    inner.append(e)
            cu = caught_union(inner)
            tol = cu if tol is None else [c for c in tol if c in cu]
        per.append((hr, eg, tuple(tol or []), (not used_after) or resets(h.body, var)))
    if len(set(per)) == 1:
        hr, eg, tol, clr = per[0]
    else:
        hr, eg, tol, clr = False, False, (), False
        g["caught"] = []
        g["note"] = "handlers differ; nothing claimed"
    g.update(handlerRemoves=hr, handlerExistsGuard=eg, handlerRemoveTolerates=list(tol), handlerClearsLoaded=clr)
    return g


def analyse_writer(qn, fn, sites, dump_site):
    chain = dump_site["chain"]
    t = enclosing_try(chain)
    lw = lock_with(chain)
    g = {"function": qn, "line": dump_site["call"].lineno}
    g["caught"] = handler_classes(t) if t else []
    same_lock = [s for s in sites if lw is not None and lock_with(s["chain"]) is lw]
    ow = [s for s in sites if s["op"] == "open_w" and (enclosing_try(s["chain"]) is t)]
    g["lockWrite"] = lw is not None and all(in_lock(s["chain"]) for s in ow)
    g["atomicWrite"] = any(s["op"] == "replace" and enclosing_try(s["chain"]) is t for s in sites)
    merge_loads = [s for s in same_lock if s["op"] == "load"]
    g["mergesExisting"] = bool(merge_loads)
    g["mergeExistsGuard"] = bool(merge_loads) and all(has_exists_guard(s["chain"], within=lw) for s in merge_loads)
    te = None
    if merge_loads:
        var = assigned_name(fn, merge_loads[0]["call"])
        if var:
            te, _ = find_type_check(lw.body, var)
    g["mergeTypeChecked"] = te is not None
    g["mergeTypeExc"] = te or "AssertionError"
    # every file operation belonging to the store is inside the try
    if t is None:
        g["allInTry"] = False
    else:
        mine = [s for s in sites if s["op"] in ("makedirs", "open_w", "dump", "replace") or s in same_lock]
        # for a function that is also a loader, only the operations after the loader's try belong to the store
        mine = [s for s in mine if s["call"].lineno >= min(x["call"].lineno for x in mine if x["op"] in ("makedirs", "dump"))]
        ok = all(any(e[0] == "try" and e[1] is t for e in s["chain"]) for s in mine)
        lock_in_try = lw is None or (t.lineno <= lw.lineno <= t.end_lineno)
        g["allInTry"] = ok and lock_in_try
    return g


def loader_lean(name, g) -> str:
    return (f"def {name} : LoaderGuards :=\n"
            f"  {{ caught := {lst(g['caught'])}\n"
            f"    existsGuard := {b(g['existsGuard'])}\n"
            f"    lockRead := {b(g['lockRead'])}\n"
            f"    typeChecked := {b(g['typeChecked'])}\n"
            f"    typeExc := {exc_lean(g['typeExc'])}\n"
            f"    typeCheckInTry := {b(g['typeCheckInTry'])}\n"
            f"    fpChecked := {b(g['fpChecked'])}\n"
            f"    removeStale := {b(g['removeStale'])}\n"
            f"    removeStaleInTry := {b(g['removeStaleInTry'])}\n"
            f"    staleClearsLoaded := {b(g['staleClearsLoaded'])}\n"
            f"    handlerRemoves := {b(g['handlerRemoves'])}\n"
            f"    handlerExistsGuard := {b(g['handlerExistsGuard'])}\n"
            f"    handlerRemoveTolerates := {lst(g['handlerRemoveTolerates'])}\n"
            f"    handlerClearsLoaded := {b(g['handlerClearsLoaded'])} }}\n")


def writer_lean(name, g) -> str:
    return (f"def {name} : WriterGuards :=\n"
            f"  {{ caught := {lst(g['caught'])}\n"
            f"    allInTry := {b(g['allInTry'])}\n"
            f"    lockWrite := {b(g['lockWrite'])}\n"
            f"    atomicWrite := {b(g['atomicWrite'])}\n"
            f"    mergesExisting := {b(g['mergesExisting'])}\n"
            f"    mergeExistsGuard := {b(g['mergeExistsGuard'])}\n"
            f"    mergeTypeChecked := {b(g['mergeTypeChecked'])}\n"
            f"    mergeTypeExc := {exc_lean(g['mergeTypeExc'])} }}\n")


EMPTY_LOADER = dict(function="<not found>", caught=[], existsGuard=False, lockRead=False, typeChecked=False, typeExc="AssertionError",
                    typeCheckInTry=False, fpChecked=False, removeStale=False, removeStaleInTry=False, staleClearsLoaded=False,
                    handlerRemoves=False, handlerExistsGuard=False, handlerRemoveTolerates=[], handlerClearsLoaded=False)
EMPTY_WRITER = dict(function="<not found>", caught=[], allInTry=False, lockWrite=False, atomicWrite=False, mergesExisting=False,
                    mergeExistsGuard=False, mergeTypeChecked=False, mergeTypeExc="AssertionError")


def gen_CacheGuards() -> None:
    meta = {"source": SRC}
    loaders, writers, table = {}, {}, []
    try:
        tree = normalize_tree(parse(SRC))
    except (OSError, SyntaxError) as exc:
        tree = None
        meta["error"] = str(exc)
    if tree is not None:
        for qn, fn in functions(tree):
            sites = walk_sites(fn)
            if not any(s["op"] in ("load", "dump") for s in sites):
                continue
            for s in sites:
                if s["op"] in ("rmtree",):
                    continue
                table.append({"func": qn, "op": s["op"], "line": s["call"].lineno, "inLock": in_lock(s["chain"]),
                              "caught": caught_union(s["chain"])})
            dumps = [s for s in sites if s["op"] == "dump"]
            loads = [s for s in sites if s["op"] == "load"]
            for ls in loads:
                lw = lock_with(ls["chain"])
                is_merge = lw is not None and any(lock_with(d["chain"]) is lw for d in dumps)
                if is_merge:
                    continue
                kind = "quick" if dumps else "config"
                if kind not in loaders:
                    loaders[kind] = analyse_loader(qn, fn, sites, ls)
                else:
                    meta.setdefault("extra_loaders", []).append(f"{qn}:{ls['call'].lineno}")
            for d in dumps:
                lw = lock_with(d["chain"])
                merges = lw is not None and any(lock_with(x["chain"]) is lw for x in loads)
                kind = "config" if merges or not loads else "quick"
                # a function that loads (not merging) and dumps is the quick loader; a function that only dumps or merges is the config writer
                if kind not in writers:
                    writers[kind] = analyse_writer(qn, fn, sites, d)
                else:
                    meta.setdefault("extra_writers", []).append(f"{qn}:{d['call'].lineno}")
    ql, cl = loaders.get("quick", EMPTY_LOADER), loaders.get("config", EMPTY_LOADER)
    qw, cw = writers.get("quick", EMPTY_WRITER), writers.get("config", EMPTY_WRITER)
    # more than one loader/writer of a kind: the model does not cover the extra one -> claim nothing for that kind
    for k in meta.get("extra_loaders", []):
        ql, cl = dict(ql, caught=[]), dict(cl, caught=[])
    for k in meta.get("extra_writers", []):
        qw, cw = dict(qw, caught=[]), dict(cw, caught=[])
    out = ["import SpsdkVerif.Base.CacheGuardTypes", "", "namespace SpsdkVerif.Generated.CacheGuards", "open SpsdkVerif", ""]
    out.append(f"/-- `{ql['function']}` (line {ql.get('line', 0)}): load of the quick-info cache -/")
    out.append(loader_lean("quickLoader", ql))
    out.append(f"/-- `{qw['function']}` (line {qw.get('line', 0)}): store of the quick-info cache -/")
    out.append(writer_lean("quickWriter", qw))
    out.append(f"/-- `{cl['function']}` (line {cl.get('line', 0)}): load of the per-data-folder config cache -/")
    out.append(loader_lean("configLoader", cl))
    out.append(f"/-- `{cw['function']}` (line {cw.get('line', 0)}): merge-and-rewrite of the config cache -/")
    out.append(writer_lean("configWriter", cw))
    out.append("/-- every lexical file operation inside the functions that (un)pickle a cache file -/")
    out.append("def sites : List CacheSite :=\n  [" + ",\n   ".join(
        f'{{ func := "{r["func"]}", op := "{r["op"]}", inLock := {b(r["inLock"])}, caught := {lst(r["caught"])} }}' for r in table) + "]\n")
    out.append("end SpsdkVerif.Generated.CacheGuards")
    meta.update(quickLoader=ql, quickWriter=qw, configLoader=cl, configWriter=cw, sites=table)
    emit("CacheGuards", "\n".join(out) + "\n", meta)


GENERATORS = {"CacheGuards": gen_CacheGuards}


# ================================================================================================ phase 2
# Ordered, context-annotated LISTING of the cache actions of each function (Generated/CachePrograms.lean):
# every item = (action, inside `with FileLock`?, enclosing branch conditions, handler class lists of the enclosing
# `try` bodies innermost first), in source order.  Properties/C18.lean decides that the listing equals the
# canonical program text of the model (`Spec` templates instantiated with the generated guards), so a reordered,
# added or dropped action breaks a decided obligation even when no flag of `CacheGuards` changes.
def _src(node) -> str:
    try:
        return ast.unparse(node)
    except Exception:  # noqa: BLE001
        return "?"


def _is_isinstance_of(test, var_set):
    for c in ast.walk(test):
        if isinstance(c, ast.Call) and call_name(c) == "isinstance" and c.args and isinstance(c.args[0], ast.Name) and c.args[0].id in var_set:
            return True
    return False


def _hash_attr_of(node, var_set):
    return isinstance(node, ast.Attribute) and "hash" in node.attr and isinstance(node.value, ast.Name) and node.value.id in var_set


def function_listing(fn):
    """-> (items, cache_var) for one function"""
    sites = walk_sites(fn)
    # the cache file variable = first argument of the open() calls / os.remove
    cache_var = None
    for s in sites:
        if s["op"] in ("open_r",) and s["call"].args:
            cache_var = _src(s["call"].args[0])
            break
    if cache_var is None:
        for s in sites:
            if s["op"] in ("open_w", "remove") and s["call"].args:
                cache_var = _src(s["call"].args[0])
                break
    loaded = set()
    for s in sites:
        if s["op"] == "load":
            v = assigned_name(fn, s["call"])
            if v:
                loaded.add(v)
    mkdir_vars = {_src(s["call"].args[0]) for s in sites if s["op"] == "makedirs" and s["call"].args}
    items = []
    after_try = set()   # loaded vars whose try statement is finished

    class C:
        def __init__(self, lock=False, path=(), caught=()):
            self.lock, self.path, self.caught = lock, tuple(path), tuple(caught)

        def w(self, **kw):
            d = dict(lock=self.lock, path=self.path, caught=self.caught)
            d.update(kw)
            return C(**d)

    def emit(act, c):
        exc = []
        if ":" in act:
            act, e = act.split(":", 1)
            exc = [e]
        items.append({"act": act, "inLock": c.lock, "path": list(c.path), "caught": [list(x) for x in c.caught], "exc": exc})

    def call_act(call):
        op = classify_call(call)
        if op is None:
            return None
        arg = _src(call.args[0]) if call.args else ""
        if op == "exists":
            if arg == cache_var:
                return "exists"
            # the cache directory (the variable handed to os.makedirs); any other path is not a cache action
            return "exists_dir" if arg in mkdir_vars else None
        if op == "open_w":
            return "open_w" if arg == cache_var else "open_tmp"
        if op == "open_r":
            return "open_r" if arg == cache_var else "open_other"
        if op == "remove":
            return "remove" if arg == cache_var else "remove_other"
        return op

    def calls_in(node, c, skip=()):
        """emit the action calls inside an expression / simple statement, in field order"""
        class V(ast.NodeVisitor):
            def visit_Call(self, n):
                self.generic_visit(n)
                if n in skip:
                    return
                a = call_act(n)
                if a:
                    emit(a, c)

            def visit_FunctionDef(self, n):
                return

            visit_Lambda = visit_AsyncFunctionDef = visit_FunctionDef
        V().visit(node)

    def reads(node, var_set):
        return any(isinstance(n, ast.Name) and n.id in var_set and isinstance(n.ctx, ast.Load) for n in ast.walk(node))

    def block(stmts, c):
        for s in stmts:
            stmt(s, c)

    def stmt(s, c):
        if isinstance(s, (ast.FunctionDef, ast.AsyncFunctionDef, ast.ClassDef)):
            return
        if isinstance(s, ast.If):
            t = s.test
            neg = isinstance(t, ast.UnaryOp) and isinstance(t.op, ast.Not)
            core = t.operand if neg else t
            if isinstance(core, ast.Call) and classify_call(core) == "exists" and call_act(core) is not None:
                a = call_act(core)
                emit(a, c)
                pos, ng = a, "!" + a
                # canonical order: the positive branch first, whatever the polarity of the test
                first, second = (s.orelse, s.body) if neg else (s.body, s.orelse)
                block(first, c.w(path=c.path + (pos,)))
                block(second, c.w(path=c.path + (ng,)))
                return
            if neg and _is_isinstance_of(t, loaded) and any(isinstance(r, ast.Raise) for r in s.body):
                r = next(r for r in s.body if isinstance(r, ast.Raise))
                e = r.exc.func if isinstance(r.exc, ast.Call) else r.exc
                emit("typecheck:" + (exc_names(e)[0] if e is not None else "?"), c)
                return
            if isinstance(core, ast.Compare) and len(core.ops) == 1 and isinstance(core.ops[0], (ast.Eq, ast.NotEq)):
                sides = [core.left] + core.comparators
                if any(_hash_attr_of(x, loaded) for x in sides):
                    selfside = any(isinstance(x, ast.Attribute) and isinstance(x.value, ast.Name) and x.value.id == "self" and "hash" in x.attr for x in sides)
                    ne = isinstance(core.ops[0], ast.NotEq) != neg
                    # canonical order: `differs` / `match` first, whatever the polarity of the test
                    if selfside:
                        emit("merge_compare", c)
                        first, second = (s.body, s.orelse) if ne else (s.orelse, s.body)
                        block(first, c.w(path=c.path + ("differs",)))
                        block(second, c.w(path=c.path + ("same",)))
                    else:
                        emit("fpcompare", c)
                        first, second = (s.orelse, s.body) if ne else (s.body, s.orelse)
                        block(first, c.w(path=c.path + ("match",)))
                        block(second, c.w(path=c.path + ("mismatch",)))
                    return
            # a condition that is not a cache condition: when one branch performs no cache action (a bail-out: log / return /
            # raise) the `if` is a mere guard of the other branch, which is listed at the level of the `if`
            calls_in(t, c)
            mark0 = len(items)
            block(s.body, c.w(path=c.path + ("if",)))
            mark1 = len(items)
            block(s.orelse, c.w(path=c.path + ("else",)))
            a_items, b_items = items[mark0:mark1], items[mark1:]
            passive = lambda its: all(i["act"] in ("return", "raise") for i in its)   # noqa: E731
            keep = None
            if passive(a_items) and not passive(b_items):
                keep, tag = b_items, "else"
            elif passive(b_items) and not passive(a_items):
                keep, tag = a_items, "if"
            elif passive(a_items) and passive(b_items):
                keep, tag = [], ""
            if keep is not None:
                depth = len(c.path)
                for it_ in keep:
                    if len(it_["path"]) > depth and it_["path"][depth] == tag:
                        it_["path"] = it_["path"][:depth] + it_["path"][depth + 1:]
                del items[mark0:]
                items.extend(keep)
            return
        if isinstance(s, ast.Try):
            classes = handler_classes(s)
            block(s.body, c.w(caught=(tuple(classes),) + c.caught))
            for i, h in enumerate(s.handlers):
                block(h.body, c.w(path=c.path + ("handler" if len(s.handlers) == 1 else f"handler{i}",)))
            block(s.orelse, c.w(path=c.path + ("try-else",)))
            block(s.finalbody, c.w(path=c.path + ("finally",)))
            for v in loaded:
                if any(isinstance(n, ast.Call) and classify_call(n) == "load" and assigned_name(fn, n) == v for n in ast.walk(s)):
                    after_try.add(v)
            return
        if isinstance(s, (ast.With, ast.AsyncWith)):
            if is_filelock_with(s):
                emit("acquire", c)
                block(s.body, c.w(lock=True))
                emit("release", c.w(lock=True))
                return
            sc = suppress_classes(s)
            if sc is not None:
                block(s.body, c.w(caught=(tuple(sc),) + c.caught))
                return
            for it in s.items:
                calls_in(it.context_expr, c)
            block(s.body, c)
            return
        if isinstance(s, ast.Assert):
            if _is_isinstance_of(s.test, loaded):
                emit("typecheck:AssertionError", c)
            return
        if isinstance(s, ast.For):
            if any(isinstance(n, ast.Subscript) and isinstance(n.ctx, ast.Store) for n in ast.walk(s)) and reads(s, loaded):
                emit("merge", c)
                return
            calls_in(s.iter, c)
            block(s.body, c.w(path=c.path + ("for",)))
            return
        if isinstance(s, ast.While):
            block(s.body, c.w(path=c.path + ("while",)))
            return
        if isinstance(s, ast.Return):
            if s.value is not None:
                calls_in(s.value, c)
            emit("return_loaded" if isinstance(s.value, ast.Name) and s.value.id in loaded else "return", c)
            return
        if isinstance(s, ast.Raise):
            e = s.exc.func if isinstance(s.exc, ast.Call) else s.exc
            emit("raise:" + (exc_names(e)[0] if e is not None else "reraise"), c)
            return
        if isinstance(s, (ast.Assign, ast.AnnAssign)):
            val = s.value
            targets = s.targets if isinstance(s, ast.Assign) else [s.target]
            if val is not None:
                calls_in(val, c)
            for t in targets:
                if isinstance(t, ast.Name) and t.id in loaded and isinstance(val, ast.Constant) and val.value is None:
                    emit("clear_loaded", c)
                if isinstance(t, ast.Attribute) and "hash" in t.attr and isinstance(t.value, ast.Name) and t.value.id not in loaded:
                    emit("clear_fp" if isinstance(val, ast.Constant) and val.value in (b"", None) else "set_fp", c)
            if val is not None and after_try and reads(val, after_try) and not (isinstance(val, ast.Call) and classify_call(val) == "load"):
                emit("use_loaded", c)
            return
        if isinstance(s, ast.Expr):
            calls_in(s.value, c)
            return
        # anything else: just the calls
        calls_in(s, c)

    block(fn.body, C())
    # a plain `return` as the very last action has no effect on what is listed
    while items and items[-1]["act"] == "return" and not items[-1]["path"]:
        items.pop()
    # adjacent assignments to different local variables commute: canonical order
    rank = {"clear_loaded": 0, "set_fp": 1, "clear_fp": 1}
    i = 0
    while i + 1 < len(items):
        x, y = items[i], items[i + 1]
        if x["act"] in rank and y["act"] in rank and rank[x["act"]] > rank[y["act"]] and \
                (x["inLock"], x["path"], x["caught"]) == (y["inLock"], y["path"], y["caught"]):
            items[i], items[i + 1] = y, x
            i = max(i - 1, 0)
        else:
            i += 1
    return items, cache_var


def item_lean(it) -> str:
    path = "[" + ", ".join(f'"{p}"' for p in it["path"]) + "]"
    caught = "[" + ", ".join(lst(x) for x in it["caught"]) + "]"
    exc = f', exc := {lst(it["exc"])}' if it.get("exc") else ""
    return f'{{ act := "{it["act"]}", inLock := {b(it["inLock"])}, path := {path}, caught := {caught}{exc} }}'


def gen_CachePrograms() -> None:
    meta = {"source": SRC}
    progs = {"quickProgram": [], "configLoaderProgram": [], "configWriterProgram": []}
    try:
        tree = normalize_tree(parse(SRC))
    except (OSError, SyntaxError) as exc:
        tree = None
        meta["error"] = str(exc)
    names = {}
    if tree is not None:
        for qn, fn in functions(tree):
            sites = walk_sites(fn)
            loads = [s for s in sites if s["op"] == "load"]
            dumps = [s for s in sites if s["op"] == "dump"]
            if not loads and not dumps:
                continue
            merges = any(lock_with(l["chain"]) is not None and any(lock_with(d["chain"]) is lock_with(l["chain"]) for d in dumps) for l in loads)
            kind = "configWriterProgram" if merges or (dumps and not loads) else ("quickProgram" if dumps else "configLoaderProgram")
            items, _ = function_listing(fn)
            if progs[kind]:
                # a second function of the same kind: append (the obligation then fails, as it should)
                meta.setdefault("extra", []).append(qn)
            progs[kind] = progs[kind] + items
            names.setdefault(kind, []).append(qn)
    out = ["import SpsdkVerif.Base.CacheGuardTypes", "", "namespace SpsdkVerif.Generated.CachePrograms", "open SpsdkVerif", ""]
    for k in ("quickProgram", "configLoaderProgram", "configWriterProgram"):
        out.append(f"/-- cache actions of `{', '.join(names.get(k, ['<not found>']))}` in source order -/")
        out.append(f"def {k} : List ProgItem :=\n  [" + ",\n   ".join(item_lean(i) for i in progs[k]) + "]\n")
    out.append("end SpsdkVerif.Generated.CachePrograms")
    meta.update({k: v for k, v in progs.items()}, functions=names)
    emit("CachePrograms", "\n".join(out) + "\n", meta)


GENERATORS["CachePrograms"] = gen_CachePrograms


# ================================================================================================ fingerprints
# Generated/CacheFingerprint.lean: the SHAPE of the two fingerprint functions (which configured data folders / parameters /
# file stamps go into the hash, and how an unconfigured folder is passed over) and the argument list at the call site.
def _find_fn(tree, pred):
    for qn, fn in functions(tree):
        if pred(qn, fn):
            return qn, fn
    return None, None


def gen_CacheFingerprint() -> None:
    meta = {"source": SRC}
    q = dict(function="<not found>", noneAction="none", otherExit=True, hashesDefaults=False, hashesDeviceNames=False,
             hashesDeviceFiles=False, stampFields=[], callArgs=[])
    cfgd = dict(function="<not found>", hashedParams=[], hashesCachedFiles=False, stampFields=[], earlyExit=True)
    try:
        tree = parse(SRC)
    except (OSError, SyntaxError) as exc:
        tree = None
        meta["error"] = str(exc)
    if tree is not None:
        def stamp_fields(fn):
            out = []
            for n in ast.walk(fn):
                if isinstance(n, ast.Attribute) and n.attr.startswith("st_") and n.attr not in out:
                    # only stamps that reach the hash: inside a call of an `update…` method
                    out.append(n.attr)
            hashed = []
            for c in ast.walk(fn):
                if isinstance(c, ast.Call) and isinstance(c.func, ast.Attribute) and c.func.attr.startswith("update"):
                    for n in ast.walk(c):
                        if isinstance(n, ast.Attribute) and n.attr.startswith("st_") and n.attr not in hashed:
                            hashed.append(n.attr)
            return sorted(hashed)

        # ---- quick-info fingerprint: a function with a loop over one of its parameters that lists a `devices` folder
        def is_quick_hash(qn, fn):
            params = {a.arg for a in fn.args.args}
            for n in ast.walk(fn):
                if isinstance(n, ast.For) and isinstance(n.iter, ast.Name) and n.iter.id in params:
                    if any(isinstance(c, ast.Call) and call_name(c) == "os.listdir" for c in ast.walk(n)):
                        return True
            return False

        qn, fn = _find_fn(tree, is_quick_hash)
        if fn is not None:
            params = {a.arg for a in fn.args.args}
            loop = next(n for n in ast.walk(fn) if isinstance(n, ast.For) and isinstance(n.iter, ast.Name) and n.iter.id in params)
            var = loop.target.id if isinstance(loop.target, ast.Name) else "?"
            none_action, skip_nodes = "none", []

            def none_test(t):
                """-> 'none' if the test holds for an unconfigured folder, 'some' if it holds for a configured one, else None"""
                if isinstance(t, ast.Compare) and isinstance(t.left, ast.Name) and t.left.id == var and len(t.ops) == 1 \
                        and isinstance(t.comparators[0], ast.Constant) and t.comparators[0].value is None:
                    if isinstance(t.ops[0], (ast.Is, ast.Eq)):
                        return "none"
                    if isinstance(t.ops[0], (ast.IsNot, ast.NotEq)):
                        return "some"
                if isinstance(t, ast.UnaryOp) and isinstance(t.op, ast.Not):
                    inner = none_test(t.operand)
                    if inner:
                        return "some" if inner == "none" else "none"
                    if isinstance(t.operand, ast.Name) and t.operand.id == var:
                        return "none"
                if isinstance(t, ast.Name) and t.id == var:
                    return "some"
                return None

            for s_ in loop.body:
                if isinstance(s_, ast.If):
                    kind = none_test(s_.test)
                    bail = s_.body if kind == "none" else s_.orelse if kind == "some" else None
                    if bail is None:
                        continue
                    if len(bail) == 1 and isinstance(bail[0], (ast.Continue, ast.Break)):
                        none_action = "continue" if isinstance(bail[0], ast.Continue) else "break"
                        skip_nodes.append(bail[0])
                    elif not bail and kind == "some" and s_ is loop.body[-1]:
                        none_action = "continue"      # `if path is not None: <everything>`: nothing happens for an unconfigured folder
            other_exit = any(isinstance(n, (ast.Break, ast.Return, ast.Continue)) and n not in skip_nodes for n in ast.walk(loop))
            upd_in_inner = False
            hash_file_args = []
            for n in ast.walk(loop):
                if isinstance(n, ast.For) and n is not loop:
                    for c in ast.walk(n):
                        if isinstance(c, ast.Call) and isinstance(c.func, ast.Attribute) and c.func.attr == "update" and \
                                isinstance(n.target, ast.Name) and any(isinstance(x, ast.Name) and x.id == n.target.id for x in ast.walk(c)):
                            upd_in_inner = True
                if isinstance(n, ast.Call) and call_name(n) == "hash_file" and n.args:
                    hash_file_args.append(_src(n.args[0]))
            # what the variables handed to hash_file are
            assigns = {t.id: _src(s.value) for s in ast.walk(loop) if isinstance(s, ast.Assign) for t in s.targets if isinstance(t, ast.Name)}
            srcs = [assigns.get(a, a) for a in hash_file_args]
            call_args = []
            for c in ast.walk(tree):
                if isinstance(c, ast.Call) and call_name(c).split(".")[-1] == fn.name and c.args and isinstance(c.args[0], (ast.List, ast.Tuple)):
                    call_args = [_src(e) for e in c.args[0].elts]
            q = dict(function=qn, noneAction=none_action, otherExit=other_exit,
                     hashesDefaults=any("database_defaults" in x for x in srcs),
                     hashesDeviceNames=upd_in_inner,
                     hashesDeviceFiles=any("database.yaml" in x and "devices" in x for x in srcs),
                     stampFields=stamp_fields(fn), callArgs=call_args)

        # ---- config-cache fingerprint: a function with a loop over a parameter whose items are hashed as files, plus parameters hashed as strings
        def is_cfg_hash(qn2, fn2):
            return fn2 is not fn and any(a.arg == "cached_configs" for a in fn2.args.args) and \
                any(isinstance(c, ast.Call) and call_name(c) == "hash_file" for c in ast.walk(fn2))

        cqn, cfn = _find_fn(tree, is_cfg_hash)
        if cfn is not None:
            params = [a.arg for a in cfn.args.args]
            hashed = []
            for c in ast.walk(cfn):
                if isinstance(c, ast.Call) and isinstance(c.func, ast.Attribute) and c.func.attr == "update" and c.args:
                    a = c.args[0]
                    if isinstance(a, ast.Call) and isinstance(a.func, ast.Attribute) and a.func.attr == "encode" and isinstance(a.func.value, ast.Name) \
                            and a.func.value.id in params and a.func.value.id not in hashed:
                        hashed.append(a.func.value.id)
            files = False
            for n in ast.walk(cfn):
                if isinstance(n, ast.For) and isinstance(n.iter, ast.Name) and n.iter.id in params and isinstance(n.target, ast.Name):
                    files = any(isinstance(c, ast.Call) and call_name(c) == "hash_file" and c.args and _src(c.args[0]) == n.target.id for c in ast.walk(n))
            early = any(isinstance(n, (ast.Break, ast.Continue)) for n in ast.walk(cfn)) or \
                sum(1 for n in ast.walk(cfn) if isinstance(n, ast.Return) ) > 1
            cfgd = dict(function=cqn, hashedParams=hashed, hashesCachedFiles=files, stampFields=stamp_fields(cfn), earlyExit=early)

    def sl(xs):
        return "[" + ", ".join(f'"{x}"' for x in xs) + "]"

    out = ["import SpsdkVerif.Base.CacheGuardTypes", "", "namespace SpsdkVerif.Generated.CacheFingerprint", "open SpsdkVerif", ""]
    out.append(f"/-- `{q['function']}`: the loop over the configured data folders -/")
    out.append("def quickHash : QuickHashShape :=\n"
               f"  {{ noneAction := \"{q['noneAction']}\"\n    otherExit := {b(q['otherExit'])}\n    hashesDefaults := {b(q['hashesDefaults'])}\n"
               f"    hashesDeviceNames := {b(q['hashesDeviceNames'])}\n    hashesDeviceFiles := {b(q['hashesDeviceFiles'])}\n"
               f"    stampFields := {sl(q['stampFields'])}\n    callArgs := {sl(q['callArgs'])} }}\n")
    out.append(f"/-- `{cfgd['function']}`: fingerprint of the config cache -/")
    out.append("def configHash : ConfigHashShape :=\n"
               f"  {{ hashedParams := {sl(cfgd['hashedParams'])}\n    hashesCachedFiles := {b(cfgd['hashesCachedFiles'])}\n"
               f"    stampFields := {sl(cfgd['stampFields'])}\n    earlyExit := {b(cfgd['earlyExit'])} }}\n")
    out.append("end SpsdkVerif.Generated.CacheFingerprint")
    meta.update(quickHash=q, configHash=cfgd)
    emit("CacheFingerprint", "\n".join(out) + "\n", meta)


GENERATORS["CacheFingerprint"] = gen_CacheFingerprint
