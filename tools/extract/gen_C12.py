"""C12 generator: Generated/RegLayouts.lean - compact register layouts of every register-backed configuration area.

Pure static reading (`yaml.safe_load`, `json`, `ast`); never imports spsdk.  Replicates, for the features
pfr (cmpa, cfpa), ifr (romcfg, cmactable), bca, fcf, fcb (per memory type), xmcd (header + per memory / configuration
type block), fuses, memcfg (per peripheral) and tz:

  * the alias / revision / defaults resolution of `spsdk/utils/database.py::Device.load/_load_alias`,
  * the file lookup of `Device.create_file_path` (device directory, then the alias chain),
  * the register loading of `spsdk/utils/registers.py` (`_load_from_spec`, `Register.create_from_spec`,
    `RegsBitField.create_from_spec`: bit-field offsets are running sums of the widths, `add_register` (same non-zero
    offset = alias: bit-fields are merged), `_add_group_reg` (contiguous groups / groups of explicit width), and the
    fact that the first SPSDKError stops the loading silently (`Registers.__init__` only logs it)).

Emitted (namespace SpsdkVerif.Generated.RegLayouts):
  * `layouts : List Layout`  - the DISTINCT layouts (registers with byte offset, bit width, hidden flag, bits covered by
    sub-registers, bit-fields (offset, width)); binary size / prefill byte / documented size from the class constants of
    pfr.py, bca.py, fcf.py, fcb.py (read with `ast`); computed-field rules and seal words from the database,
  * `tzWords : List Nat`     - number of 32-bit words of every distinct TrustZone preset file,
  * constants `sealMark`, `bcaTag`, `fcbTag`, `xmcdTag`.
meta/RegLayouts.json maps every (area kind, family, revision, sub-feature...) to the index of its layout; the harness
compares each layout with the live `Registers` object (a mismatch is an infrastructure error).
"""
from __future__ import annotations

import ast
import copy
import json
import os

import yaml

from extract import REPO, emit, parse

DATA = REPO / "spsdk" / "data"
KEEP = ("pfr", "ifr", "bca", "fcf", "fcb", "xmcd", "fuses", "memcfg", "tz")
RULES = {"pfr_reg_inverse_high_half": 0, "pfr_reg_inverse_lower_8_bits": 1}


# ------------------------------------------------------------------------------------------------ database replica
def deep_update(d, u):
    for k, v in u.items():
        if isinstance(v, dict):
            d[k] = deep_update(d.get(k, {}) if isinstance(d.get(k), dict) else {}, v)
        else:
            d[k] = v
    return d


class Db:
    def __init__(self):
        self.defaults = yaml.safe_load((DATA / "common" / "database_defaults.yaml").read_text(encoding="utf-8"))
        self.cache = {}

    def names(self):
        return sorted(p.name for p in (DATA / "devices").iterdir() if (p / "database.yaml").exists())

    @staticmethod
    def _restrict(feats):
        return {k: v for k, v in (feats or {}).items() if k in KEEP}

    def load(self, name):
        if name in self.cache:
            return self.cache[name]
        cfg = yaml.safe_load((DATA / "devices" / name / "database.yaml").read_text(encoding="utf-8"))
        if cfg.get("alias"):
            base = self.load(cfg["alias"])
            dev = {"name": name, "alias": cfg["alias"], "latest": cfg.get("latest", base["latest"]),
                   "revs": [{"name": r["name"], "is_latest": r["is_latest"], "features": copy.deepcopy(r["features"])} for r in base["revs"]]}
            feats = self._restrict(cfg.get("features", {}))
            if feats:
                for r in dev["revs"]:
                    deep_update(r["features"], copy.deepcopy(feats))
            for rev_name, upd in (cfg.get("revisions") or {}).items():
                upd = upd or {}
                rev = self.get_rev(dev, rev_name)
                if rev is None:
                    src = self.get_rev(dev, upd["alias"])
                    rev = {"name": rev_name, "is_latest": dev["latest"] == rev_name, "features": copy.deepcopy(src["features"])}
                    dev["revs"].append(rev)
                rf = self._restrict(upd.get("features"))
                if rf:
                    deep_update(rev["features"], copy.deepcopy(rf))
        else:
            dev_features = self._restrict(cfg["features"])
            defaults = copy.deepcopy(self._restrict(self.defaults["features"]))
            for fname in dev_features:
                deep_update(defaults[fname], dev_features[fname])
                dev_features[fname] = defaults[fname]
            latest = cfg["latest"]
            dev = {"name": name, "alias": None, "latest": latest, "revs": []}
            for rev_name, upd in cfg["revisions"].items():
                feats = copy.deepcopy(dev_features)
                rf = self._restrict((upd or {}).get("features"))
                if rf:
                    deep_update(feats, copy.deepcopy(rf))
                dev["revs"].append({"name": rev_name, "is_latest": rev_name == latest, "features": feats})
        self.cache[name] = dev
        return dev

    @staticmethod
    def get_rev(dev, name):
        if name is None or name == "latest":
            return next((r for r in dev["revs"] if r["is_latest"]), None)
        return next((r for r in dev["revs"] if r["name"] == name), None)

    def file_path(self, dev, file_name):
        """Device.create_file_path: the device's own directory, then the alias chain."""
        d = dev
        while d is not None:
            p = DATA / "devices" / d["name"] / file_name
            if p.exists():
                return p.resolve()
            d = self.load(d["alias"]) if d["alias"] else None
        return None


def dget(d, path, default=None):
    for k in path:
        if not isinstance(d, dict) or k not in d:
            return default
        d = d[k]
    return d if d is not None else default


# ------------------------------------------------------------------------------------------------ register loading replica
class Stop(Exception):
    """an SPSDKError inside the loader: loading stops, what is loaded so far stays"""


def vti(x, default=None):
    """spsdk.utils.misc.value_to_int for int / str"""
    if isinstance(x, bool):
        return int(x)
    if isinstance(x, int):
        return x
    if isinstance(x, str):
        s = x.strip().lower()
        while s and s[-1] in "ul":
            s = s[:-1]
        base = 10
        if s[:2] in ("0x", "0b", "0o"):
            base = {"0x": 16, "0b": 2, "0o": 8}[s[:2]]
            s = s[2:]
        try:
            return int(s, base)
        except ValueError as exc:
            raise Stop(f"bad number {x!r}") from exc
    raise Stop(f"bad number {x!r}")


def vtb(x):
    """spsdk.utils.misc.value_to_bool"""
    if isinstance(x, str):
        return x in ("True", "true", "T", "1")
    return bool(x)


class R:
    def __init__(self, name, offset, width, uid, hidden=False, access="RW"):
        if width % 8 != 0:
            raise Stop("width not a multiple of 8")
        self.name, self.offset, self.width, self.uid, self.hidden, self.access = name, offset, width, uid, hidden, access
        self.fields = []   # (offset, width, uid, name)
        self.fdet = []     # per field: dict(reset, hidden, access, shift, name, uid, enums=[(value, name)])
        self.value = 0     # simulated `_value` (plain register)
        self.rev_subs = False
        self.subs = []
        self.width_init = False
        self.subs_width = 0
        self.alias_names = []
        self.reverse = False
        self.alts = []     # `alt_widths` of a group (grouped_registers: alternative_widths)

    def add_group_reg(self, reg):
        first = not self.subs
        if first:
            if self.offset == 0:
                self.offset = reg.offset
            if self.width == 0:
                self.width = reg.width
            else:
                self.width_init = True
                self.subs_width = reg.width
            if self.access == "RW":
                self.access = reg.access
        else:
            if not self.width_init:
                if self.offset + self.width // 8 != reg.offset:
                    raise Stop("group member does not follow the previous one")
                self.width += reg.width
            else:
                self.subs_width += reg.width
                if self.subs_width > self.width:
                    raise Stop("group member exceeds the defined width")
            if self.subs[0].width != reg.width:
                raise Stop("group member of different width")
            if self.access != reg.access:
                raise Stop("group member of different access")
        self.subs.append(reg)


def access_label(x):
    """Access.from_label: '/' is dropped, labels are matched case-insensitively (SpsdkEnum.from_label); unknown label = error"""
    lab = str(x).replace("/", "").upper()
    if lab not in ("NONE", "RO", "RW", "WO"):
        raise Stop(f"unknown access {x!r}")
    return lab


def reg_from_spec(spec, fuse=False):
    uid = spec.get("id", "")
    name = spec.get("name", "N/A")
    offset = vti(spec.get("offset_int", 0))
    width = vti(spec.get("reg_width", 32))
    hidden = vtb(spec.get("is_reserved", False))
    reg = R(name, offset, width, uid, hidden, access_label(spec.get("access", "RW")))
    reset = vti(spec.get("reset_value_int", 0))
    if reset and reset >= 1 << width:
        raise Stop("reset value does not fit")
    if reset:
        reg.value = reset
    off = 0
    for b in spec.get("bitfields", []):
        hidden_name = f"HIDDEN_BITFIELD_{off:03X}"
        w = vti(b.get("width", 0))
        name = b.get("name", hidden_name)
        hidden = name == hidden_name
        acc = access_label(b.get("access", "RW"))
        rv = vti(b.get("reset_value_int", 0))
        cnt = 0
        pre = b.get("config_preprocess")
        if isinstance(pre, str) and pre.split(":")[0] == "SHIFT_RIGHT":
            # ConfigProcessor.get_params: "NAME:k=v,k=v;DESC=..."
            parts = pre.split(";", 1)[0].split(":")
            params = {}
            if len(parts) > 1:
                for prm in parts[1].split(","):
                    kv = prm.split("=")
                    if len(kv) != 2:
                        raise Stop("bad config processor parameter")
                    params[kv[0].lower()] = vti(kv[1])
            if "count" not in params:
                raise Stop("SHIFT_RIGHT without COUNT")
            cnt = params["count"]
        mask = ((1 << w) - 1) << off
        if rv:
            new = rv >> cnt
            if not 0 <= new < 1 << w:
                raise Stop("bit-field reset value does not fit")
            reg.value = (reg.value & ~mask) | ((new << off) & mask)
            breset = rv
        else:
            breset = ((reg.value >> off) & ((1 << w) - 1)) << cnt
        enums = []
        for e in b.get("values", []):
            if "value" not in e:
                raise Stop("enum without value")
            enums.append((vti(e["value"]), e.get("name", "N/A") or "N/A"))
        reg.fields.append((off, w, b.get("id", ""), b.get("name")))
        reg.fdet.append({"reset": breset, "hidden": hidden, "access": acc, "shift": cnt, "name": name or "N/A", "uid": b.get("id", ""), "enums": enums})
        off += w
    if fuse and "index_int" not in spec:
        raise Stop("fuse without index_int")
    return reg


def load_registers(spec, grouped, fuse=False):
    regs = []
    err = None

    def find_uid(uid):
        for r in regs:
            if r.uid == uid:
                return r
            for s in r.subs:
                if s.uid == uid:
                    return s
        return None

    def add_register(reg):
        if reg.name in [r.name for r in regs if not r.hidden]:
            raise Stop(f"register name {reg.name} twice")
        for r in regs:
            if r.offset == reg.offset != 0:
                if reg.name not in r.alias_names:
                    r.alias_names.append(reg.name)
                r.fields.extend(reg.fields)
                r.fdet.extend(reg.fdet)
                return
        regs.append(reg)

    try:
        for grp in spec.get("groups", []):
            for rs in grp.get("registers", []):
                reg = reg_from_spec(rs, fuse)
                g = next((g for g in (grouped or []) if reg.uid in g["sub_regs"]), None)
                if g:
                    gr = find_uid(g["uid"])
                    if gr is None:
                        gr = R(g["name"], vti(g.get("offset", 0)), vti(g.get("width", 0)), g["uid"], False, access_label(g.get("access", "RW")))
                        gr.reverse = vtb(g.get("reversed", False))
                        gr.rev_subs = bool(g.get("reverse_subregs_order", False))
                        aw = g.get("alternative_widths")
                        gr.alts = [vti(a) for a in aw] if isinstance(aw, (list, tuple)) else []
                        add_register(gr)
                    gr.add_group_reg(reg)
                else:
                    add_register(reg)
    except Stop as exc:
        err = str(exc)
    return regs, err


def compact(regs):
    out = []
    for r in regs:
        cov = r.width if not r.subs else len(r.subs) * r.subs[0].width
        out.append([r.offset, r.width, 1 if r.hidden else 0, cov, [[o, w] for (o, w, _u, _n) in r.fields]])
    return out


def init_value(r):
    """`Register.get_value(raw=True)` of the freshly loaded register"""
    if not r.subs:
        return r.value
    sw = r.subs[0].width
    v = 0
    for i, sub in enumerate(r.subs, start=1):
        pos = r.width - i * sw if r.rev_subs else (i - 1) * sw
        if pos < 0:
            raise Stop("negative sub-register position")
        v |= sub.value << pos
    return v


ACC = {"NONE": 0, "RO": 1, "RW": 2, "WO": 3}


def details(regs, hide=()):
    """per register: [init, name, uid, access, reverse, fields=[[reset, hidden, access, shift, name, uid, [[value, name]..]]..]]; `hide` = (reg uid, field uid) made hidden by
    BaseConfigArea._load_registers (computed fields)"""
    out = []
    for r in regs:
        fs = []
        for f in r.fdet:
            hidden = f["hidden"] or (r.uid, f["uid"]) in hide
            fs.append([f["reset"], 1 if hidden else 0, ACC[f["access"]], f["shift"], f["name"], f["uid"], [[v, n] for v, n in f["enums"]]])
        # group structure: [width of one sub-register (0 = plain register), number of sub-registers, reverse_subregs_order,
        #                   alt_widths, names and uids of the sub-registers (what find_reg(include_group_regs=True) also matches)]
        grp = [r.subs[0].width if r.subs else 0, len(r.subs), 1 if (r.subs and r.rev_subs) else 0, sorted(r.alts) if r.subs else [],
               [k for sub in r.subs for k in (sub.name, sub.uid)]]
        out.append([init_value(r), r.name, r.uid, ACC[r.access], 1 if r.reverse else 0, fs, grp])
    return out


# ------------------------------------------------------------------------------------------------ class constants
def class_consts(rel, wanted):
    """{class: {NAME: value}} of class-level constants read BY VALUE (tools/extract/consteval.py: hex / arithmetic / named
    constants / inherited ones all give the same value).  A constant that cannot be evaluated is left out (the caller emits a
    stand-in that makes the dependent theorem fail, never a default)."""
    from consteval import ModuleEnv, NotConst
    tree = parse(rel)
    env = ModuleEnv(tree)
    out = {}
    for node in tree.body:
        if isinstance(node, ast.ClassDef):
            ce = env.cls(node.name)
            vals = {}
            for name in wanted:
                try:
                    if ce.has(name):
                        vals[name] = ce.value(name)
                except (NotConst, Exception):  # noqa: BLE001
                    pass
            out[node.name] = vals
    return out


# ------------------------------------------------------------------------------------------------ bit functions -> BExpr
class NoBits(Exception):
    pass


def bitfun_to_bexpr(rel, qualname):
    """Translate a straight-line bit function of one integer (`&`, `|`, `^`, shifts by constants, `~e & CONST`, local and
    augmented assignments, one `return`) into the text of a `SpsdkVerif.BitExpr.BExpr`.  Constants are read by value.
    The tree mirrors the source; the THEOREM about it is semantic (verified equivalence check), so the shape does not matter."""
    from consteval import ModuleEnv, NotConst
    tree = parse(rel)
    env = ModuleEnv(tree)
    cname, fname = qualname.split(".")
    cls = next(n for n in tree.body if isinstance(n, ast.ClassDef) and n.name == cname)
    fn = next(n for n in cls.body if isinstance(n, ast.FunctionDef) and n.name == fname)
    params = [a.arg for a in fn.args.args if a.arg not in ("self", "cls")]
    if len(params) != 1:
        raise NoBits("not a function of one value")
    local = {params[0]: "var"}

    def const(node):
        try:
            v = env.eval(node, cls=cname)
        except (NotConst, Exception):  # noqa: BLE001
            return None
        return v if isinstance(v, int) and not isinstance(v, bool) and v >= 0 else None

    def tr(node):
        c = const(node)
        if c is not None:
            return f"(lit {c})"
        if isinstance(node, ast.Name):
            if node.id in local:
                return local[node.id]
            raise NoBits(f"unknown name {node.id}")
        if isinstance(node, ast.BinOp):
            op = type(node.op)
            if op is ast.BitAnd:
                for a, b in ((node.left, node.right), (node.right, node.left)):
                    if isinstance(a, ast.UnaryOp) and isinstance(a.op, ast.Invert):
                        m = const(b)
                        if m is None:
                            raise NoBits("~e & non-constant")
                        return f"(notMask {tr(a.operand)} {m})"
                return f"(.and {tr(node.left)} {tr(node.right)})"
            if op is ast.BitOr:
                return f"(.or {tr(node.left)} {tr(node.right)})"
            if op is ast.BitXor:
                return f"(.xor {tr(node.left)} {tr(node.right)})"
            if op in (ast.LShift, ast.RShift):
                k = const(node.right)
                if k is None:
                    raise NoBits("shift by a non-constant")
                return f"({'shl' if op is ast.LShift else 'shr'} {tr(node.left)} {k})"
            raise NoBits(f"operator {op.__name__}")
        raise NoBits(f"expression {type(node).__name__}")

    for st in fn.body:
        if isinstance(st, ast.Expr) and isinstance(st.value, ast.Constant) and isinstance(st.value.value, str):
            continue  # docstring
        if isinstance(st, ast.Assign) and len(st.targets) == 1 and isinstance(st.targets[0], ast.Name):
            local[st.targets[0].id] = tr(st.value)
        elif isinstance(st, ast.AnnAssign) and isinstance(st.target, ast.Name) and st.value is not None:
            local[st.target.id] = tr(st.value)
        elif isinstance(st, ast.AugAssign) and isinstance(st.target, ast.Name):
            local[st.target.id] = tr(ast.BinOp(left=ast.Name(id=st.target.id, ctx=ast.Load()), op=st.op, right=st.value))
        elif isinstance(st, ast.Return) and st.value is not None:
            return tr(st.value)
        else:
            raise NoBits(f"statement {type(st).__name__}")
    raise NoBits("no return")


def gen_PfrRules():
    """the computed-field rule functions of BaseConfigArea (spsdk/pfr/pfr.py) as bit expressions"""
    out = ["import SpsdkVerif.Base.BitExpr", "", "namespace SpsdkVerif.Generated.PfrRules", "open SpsdkVerif.BitExpr SpsdkVerif.BitExpr.BExpr", ""]
    meta = {"functions": {}}
    for method, rid in sorted(RULES.items(), key=lambda kv: kv[1]):
        try:
            txt = bitfun_to_bexpr("spsdk/pfr/pfr.py", "BaseConfigArea." + method)
            out.append(f"/-- `BaseConfigArea.{method}` (rule {rid}) -/")
            out.append(f"def rule{rid} : Option BExpr := some {txt}")
            meta["functions"][method] = {"rule": rid, "mode": "translated"}
        except (NoBits, StopIteration, OSError, SyntaxError) as exc:
            out.append(f"-- not translatable: BaseConfigArea.{method}: {exc}")
            out.append(f"def rule{rid} : Option BExpr := none")
            meta["functions"][method] = {"rule": rid, "mode": "untranslatable", "reason": str(exc)}
        out.append("")
    out.append("end SpsdkVerif.Generated.PfrRules")
    emit("PfrRules", "\n".join(out) + "\n", meta)


def lean_str(s):
    return '"' + s.replace("\\", "\\\\").replace('"', '\\"') + '"'


# ------------------------------------------------------------------------------------------------ main
def gen_RegLayouts():
    """never lets the extractor die: a database / source the static replica cannot read becomes an EMPTY table with the reason in
    `problems` (the table theorems and the live cross-check then fail = a broken obligation, decided by the sweep on the real code)"""
    _emitted["done"] = True
    try:
        _gen_RegLayouts()
    except Exception:  # noqa: BLE001
        import traceback
        why = traceback.format_exc()[-1500:]
        body = ["import SpsdkVerif.Model.ConfigArea", "", "namespace SpsdkVerif.Generated.RegLayouts", "open SpsdkVerif.CfgArea", "",
                "-- NOT GENERATED: the static replica of the database / register loader failed, see meta/RegLayouts.json",
                "def layouts : List Layout := []", "def tzWords : List Nat := []", "def sealMark : List UInt8 := []",
                "def bcaTag : List UInt8 := []", "def fcbTag : List UInt8 := []", "def xmcdTag : Nat := 0",
                'def tzPackFormat : String × String × Nat := ("?", "?", 0)', 'def tzUnpackFormat : String × String × Nat := ("?", "?", 0)',
                'def xmcdCrcAlg : String := "?"', "def fcbSize : Nat := 0", "def fcfSize : Nat := 0", "def bcaSize : Nat := 0", "",
                "end SpsdkVerif.Generated.RegLayouts"]
        emit("RegLayouts", "\n".join(body) + "\n", {"layouts": [], "rows": {}, "tz_rows": {}, "tz_files": {}, "problems": [why],
                                                     "counts": {"layouts": 0, "rows": 0, "registers": 0, "bitfields": 0, "tz_rows": 0}})
        for k in range(8):
            emit(f"RegDetails{k}", "import SpsdkVerif.Model.ConfigArea\n", {"layouts": []})
        emit("RegDetails", "import SpsdkVerif.Model.ConfigArea\n\nnamespace SpsdkVerif.Generated.RegDetails\nopen SpsdkVerif.CfgArea\n\n"
             "def details : List LayoutD := []\n\nend SpsdkVerif.Generated.RegDetails\n", {"details": [], "counts": {"enums": 0, "names": 0}})


def _gen_RegLayouts():
    db = Db()
    pfrc = class_consts("spsdk/pfr/pfr.py", {"BINARY_SIZE", "IMAGE_PREFILL_PATTERN", "DB_SUB_FEATURE", "MARK", "FEATURE_NAME"})
    bca = class_consts("spsdk/image/bca/bca.py", {"SIZE", "TAG"}).get("BCA", {})
    fcf = class_consts("spsdk/image/fcf/fcf.py", {"SIZE"}).get("FCF", {})
    fcb = class_consts("spsdk/image/fcb/fcb.py", {"SIZE", "TAG"}).get("FCB", {})
    xhd = class_consts("spsdk/image/xmcd/xmcd.py", {"TAG"}).get("XMCDHeader", {})
    pfr_cls = {v.get("DB_SUB_FEATURE"): (k, v) for k, v in pfrc.items() if v.get("DB_SUB_FEATURE")}

    spec_cache = {}

    def spec(path):
        if path not in spec_cache:
            spec_cache[path] = json.loads(path.read_text(encoding="utf-8"))
        return spec_cache[path]

    layouts, index, rows, problems = [], {}, {}, []
    tz_files, tz_rows = {}, {}

    def add_layout(row_key, kind, dev, feats, feature, key, size=0, fill=0, doc=0, binary=True, fuse=False, pfr=False, shift=None):
        fd = feats.get(feature)
        file_name = dget(fd, key + ["reg_spec"])
        if not isinstance(file_name, str):
            problems.append(f"{row_key}: no reg_spec")
            return
        path = db.file_path(dev, file_name)
        if path is None:
            problems.append(f"{row_key}: file {file_name} not found")
            return
        grouped = dget(fd, key + ["grouped_registers"], [])
        regs, err = load_registers(spec(path), grouped, fuse)
        if shift is not None:  # XMCD: header registers followed by the block registers shifted by the header size
            hregs, herr = shift
            hsize = max((r.offset + r.width // 8 for r in hregs), default=0)
            merged = list(hregs)
            for r in regs:
                if r.hidden:
                    continue
                r.offset += hsize
                merged.append(r)
            regs, err = merged, err or herr
        computed, seal_start, seal_count = [], 0, 0
        computed_d, hide = [], set()
        if pfr:
            uids = {r.uid: i for i, r in enumerate(regs)}
            for reg_uid, fields in (dget(fd, key + ["computed_fields"], {}) or {}).items():
                for bf_uid, method in fields.items():
                    if reg_uid in uids and method in RULES:
                        computed.append([uids[reg_uid], RULES[method]])
                        fidx = next((k for k, f in enumerate(regs[uids[reg_uid]].fdet) if f["uid"] == bf_uid), None)
                        if fidx is None:
                            problems.append(f"{row_key}: computed bit-field {reg_uid}/{bf_uid} not found")
                        else:
                            computed_d.append([uids[reg_uid], RULES[method], fidx])
                            hide.add((reg_uid, bf_uid))
                    else:
                        problems.append(f"{row_key}: computed field {reg_uid}/{bf_uid}/{method} not resolvable")
            ss = dget(fd, key + ["seal_start"])
            sc = dget(fd, key + ["seal_count"])
            if ss and sc:
                target = next((r for r in regs if r.uid == ss), None) or next((s for r in regs for s in r.subs if s.uid == ss), None)
                if target is not None:
                    seal_start, seal_count = target.offset, vti(sc)
        rel = os.path.relpath(path, DATA)
        content = {"kind": kind, "size": size, "fill": fill, "doc": doc, "binary": binary, "computed": sorted(computed),
                   "seal": [seal_start, seal_count], "regs": compact(regs)}
        aux = []
        if kind in ("fcb", "bca"):
            tag_name = "tag" if kind == "fcb" else "TAG"   # FCB.parse: find_reg("tag"), BCA.parse: find_reg("TAG")
            ti = next((i for i, r in enumerate(regs) if r.name == tag_name or tag_name in r.alias_names or r.uid == tag_name), None)
            aux = [ti if ti is not None else len(regs)]
        if kind == "memcfg":
            # MemoryConfig.option_words_count: rule 0 All, 1 OptionSize (1 + field of the first visible register),
            # 2 AcTimingMode (all words iff the field's enum reads "UserDefined"), 9 = not resolvable (the code raises)
            rule = dget(fd, key + ["ow_counts_rule"])
            vis = [i for i, r in enumerate(regs) if not r.hidden]
            if rule == "All":
                aux = [0, 0, 0, 0]
            elif rule in ("OptionSize", "AcTimingMode") and vis:
                r0 = regs[vis[0]]
                fi = next((k for k, f in enumerate(r0.fdet) if f["name"] == rule or f["uid"] == rule), None)
                if fi is None:
                    aux = [9, vis[0], 0, 0]
                elif rule == "OptionSize":
                    aux = [1, vis[0], fi, 0]
                else:
                    ud = next((v for v, n in r0.fdet[fi]["enums"] if n == "UserDefined"), None)
                    aux = [2, vis[0], fi, ud] if ud is not None else [9, vis[0], fi, 0]
            else:
                aux = [9, 0, 0, 0]
        det = {"regs": details(regs, hide), "computed": sorted(computed_d), "aux": aux}
        ck = json.dumps([content, det], sort_keys=True)
        if ck not in index:
            index[ck] = len(layouts)
            layouts.append(dict(content, file=rel, load_error=err, first_row=row_key, det=det))
        rows[row_key] = index[ck]
        return regs, err

    for name in db.names():
        dev = db.load(name)
        latest = db.get_rev(dev, "latest")
        if latest is None:
            continue
        lf = latest["features"]
        for rev in dev["revs"]:
            feats = rev["features"]
            rn = rev["name"]
            for feature in ("pfr", "ifr"):
                for sub in (("cmpa", "cfpa") if feature == "pfr" else ("romcfg", "cmactable")):
                    # get_families(feature, sub): the LATEST revision lists the sub-feature
                    if feature in lf and sub in (lf[feature].get("sub_features") or []) and dget(feats, [feature, sub, "reg_spec"]):
                        cname, cv = pfr_cls[sub]
                        add_layout(f"{sub}/{name}/{rn}/{sub}", sub, dev, feats, feature, [sub], size=cv.get("BINARY_SIZE", 1),
                                   fill=vti(cv.get("IMAGE_PREFILL_PATTERN", "0x00")), doc=cv.get("BINARY_SIZE", 1), pfr=True)
            if "bca" in lf and "bca" in feats:
                add_layout(f"bca/{name}/{rn}", "bca", dev, feats, "bca", [], doc=bca.get("SIZE", 1))
            if "fcf" in lf and "fcf" in feats:
                add_layout(f"fcf/{name}/{rn}", "fcf", dev, feats, "fcf", [], doc=fcf.get("SIZE", 1))
            if "fuses" in lf and "fuses" in feats:
                add_layout(f"fuses/{name}/{rn}", "fuses", dev, feats, "fuses", [], binary=False, fuse=True)
            if "fcb" in lf and "fcb" in feats:
                for mt in (feats["fcb"].get("mem_types") or {}):
                    add_layout(f"fcb/{name}/{rn}/{mt}", "fcb", dev, feats, "fcb", ["mem_types", mt])
            if "xmcd" in lf and "xmcd" in feats:
                hfile = dget(feats["xmcd"], ["header", "reg_spec"])
                hpath = db.file_path(dev, hfile) if isinstance(hfile, str) else None
                for mt, cts in (feats["xmcd"].get("mem_types") or {}).items():
                    for ct in (cts or {}):
                        if hpath is None:
                            problems.append(f"xmcd/{name}/{rn}: header spec missing")
                            continue
                        hdr = load_registers(spec(hpath), dget(feats["xmcd"], ["header", "grouped_registers"], []))
                        add_layout(f"xmcd/{name}/{rn}/{mt}/{ct}", "xmcd", dev, feats, "xmcd", ["mem_types", mt, ct], shift=hdr)
            if "memcfg" in lf and "memcfg" in feats:
                for per, v in (feats["memcfg"].get("peripherals") or {}).items():
                    if len((v or {}).get("instances") or []):
                        add_layout(f"memcfg/{name}/{rn}/{per}", "memcfg", dev, feats, "memcfg", ["peripherals", per])
            if "tz" in lf and "tz" in feats:
                fn = dget(feats["tz"], ["reg_spec"])
                p = db.file_path(dev, fn) if isinstance(fn, str) else None
                if p is None:
                    problems.append(f"tz/{name}/{rn}: preset file missing")
                else:
                    rel = os.path.relpath(p, DATA)
                    if rel not in tz_files:
                        tz_files[rel] = len(yaml.safe_load(p.read_text(encoding="utf-8")))
                    tz_rows[f"tz/{name}/{rn}"] = tz_files[rel]

    # ------------------------------------------------------------------ Lean text
    kinds = ["cmpa", "cfpa", "romcfg", "cmactable", "bca", "fcf", "fcb", "xmcd", "fuses", "memcfg"]
    out = ["import SpsdkVerif.Model.ConfigArea", "", "namespace SpsdkVerif.Generated.RegLayouts", "open SpsdkVerif.CfgArea", "",
           "set_option maxRecDepth 100000", ""]
    for i, l in enumerate(layouts):
        regs_txt = ",\n  ".join("[" + ", ".join(map(str, [r[0], r[1], r[2], r[3]] + [x for f in r[4] for x in f])) + "]" for r in l["regs"])
        comp = "[" + ", ".join(f"({a}, {b})" for a, b in l["computed"]) + "]"
        out.append(f"/-- {l['file']} (first used by {l['first_row']}" + (f"; loading stops early: {l['load_error']}" if l["load_error"] else "") + ") -/")
        out.append(f"def l{i} : Layout := Layout.ofRaw {lean_str(l['file'])} {kinds.index(l['kind'])} {l['size']} {l['fill']} {l['doc']} "
                   f"{'true' if l['binary'] else 'false'} {comp} {l['seal'][0]} {l['seal'][1]} [\n  {regs_txt}]")
        out.append("")
    out.append("def layouts : List Layout := [" + ", ".join(f"l{i}" for i in range(len(layouts))) + "]")
    out.append("")
    out.append("/-- number of 32-bit words of every distinct TrustZone preset file -/")
    out.append("def tzWords : List Nat := [" + ", ".join(str(v) for _k, v in sorted(tz_files.items())) + "]")
    out.append("")
    mark = pfrc.get("BaseConfigArea", {}).get("MARK", b"SEAL")
    out.append("def sealMark : List UInt8 := [" + ", ".join(str(b) for b in mark) + "]")
    out.append("def bcaTag : List UInt8 := [" + ", ".join(str(b) for b in bca.get("TAG", b"")) + "]")
    out.append("def fcbTag : List UInt8 := [" + ", ".join(str(b) for b in fcb.get("TAG", b"")) + "]")
    out.append(f"def xmcdTag : Nat := {xhd.get('TAG', 0)}")
    crc_alg = "?"
    for node in ast.walk(parse("spsdk/image/xmcd/xmcd.py")):
        if isinstance(node, ast.FunctionDef) and node.name == "calculate_crc":
            for sub in ast.walk(node):
                if isinstance(sub, ast.Attribute) and isinstance(sub.value, ast.Name) and sub.value.id == "CrcAlg":
                    crc_alg = sub.attr
    # TrustZone: struct formats f"<{n}I" / f"<{n}L" read BY VALUE: (byte order, normalised type code, size of one item)
    def struct_fmt(fn_name, call_name):
        import struct as _struct

        from consteval import struct_fields
        for node in ast.walk(parse("spsdk/image/trustzone.py")):
            if isinstance(node, ast.FunctionDef) and node.name == fn_name:
                for sub in ast.walk(node):
                    if (isinstance(sub, ast.Call) and isinstance(sub.func, ast.Attribute) and sub.func.attr == call_name and sub.args
                            and isinstance(sub.args[0], (ast.JoinedStr, ast.Constant))):
                        a0 = sub.args[0]
                        fmt = a0.value if isinstance(a0, ast.Constant) else "".join(
                            v.value if isinstance(v, ast.Constant) else "1" for v in a0.values)   # the item count is set to 1
                        try:
                            order, fields = struct_fields(fmt)
                            if len(fields) == 1:
                                return order, fields[0][0], _struct.calcsize(order + fields[0][0])
                        except Exception:  # noqa: BLE001
                            pass
        return "?", "?", 0
    pk, up = struct_fmt("_custom_export", "pack"), struct_fmt("_parse_raw_data", "unpack")
    out.append("/-- struct formats of TrustZone._custom_export / _parse_raw_data, normalised: (byte-order prefix, type code with L = I, item size) -/")
    out.append(f"def tzPackFormat : String × String × Nat := ({lean_str(pk[0])}, {lean_str(pk[1])}, {pk[2]})")
    out.append(f"def tzUnpackFormat : String × String × Nat := ({lean_str(up[0])}, {lean_str(up[1])}, {up[2]})")
    out.append(f"/-- the `CrcAlg` member `XMCD.calculate_crc` uses -/")
    out.append(f"def xmcdCrcAlg : String := {lean_str(crc_alg)}")
    out.append(f"/-- FCB.SIZE / FCF.SIZE / BCA.SIZE: the minimal length `parse` accepts (FCB, FCF) -/")
    out.append(f"def fcbSize : Nat := {fcb.get('SIZE', 0)}")
    out.append(f"def fcfSize : Nat := {fcf.get('SIZE', 0)}")
    out.append(f"def bcaSize : Nat := {bca.get('SIZE', 0)}")
    out.append("")
    out.append("end SpsdkVerif.Generated.RegLayouts")
    meta = {"layouts": [{"file": l["file"], "kind": l["kind"], "size": l["size"], "fill": l["fill"], "doc": l["doc"], "binary": l["binary"],
                         "computed": l["computed"], "seal": l["seal"], "nregs": len(l["regs"]), "load_error": l["load_error"],
                         "regs": [[r[0], r[1], r[2], r[4]] for r in l["regs"]], "cov": [r[3] for r in l["regs"]]} for l in layouts],
            "rows": rows, "tz_rows": tz_rows, "tz_files": tz_files, "problems": problems,
            "counts": {"layouts": len(layouts), "rows": len(rows), "registers": sum(len(l["regs"]) for l in layouts),
                       "bitfields": sum(len(r[4]) for l in layouts for r in l["regs"]), "tz_rows": len(tz_rows)}}
    emit("RegLayouts", "\n".join(out) + "\n", meta)

    # ------------------------------------------------------------------ second table: details aligned with `layouts`
    NSHARD = 8
    dmeta, defs = [], []
    for i, l in enumerate(layouts):
        det = l["det"]
        names = sorted({r[1] for r in det["regs"]} | {r[2] for r in det["regs"]} | {f[4] for r in det["regs"] for f in r[5]}
                       | {e[1] for r in det["regs"] for f in r[5] for e in f[6]} | {k for r in det["regs"] for k in r[6][4]})
        nid = {n: k for k, n in enumerate(names)}
        regs_txt = []
        for r in det["regs"]:
            hdr = [r[0], nid[r[1]], nid[r[2]], r[4] | (r[3] << 1)]
            if r[6][0]:   # a group: sub-register width, count, order, number of alternative widths, these, then the sub-register keys
                hdr += [r[6][0], r[6][1], r[6][2], len(r[6][3])] + list(r[6][3]) + [nid[k] for k in r[6][4]]
            fs = ", ".join("[" + ", ".join(map(str, [f[0], f[1] | (f[2] << 1), f[3], nid[f[4]]] + [x for e in f[6] for x in (e[0], nid[e[1]])])) + "]" for f in r[5])
            regs_txt.append("([" + ", ".join(map(str, hdr)) + "], [" + fs + "])")
        comp = "[" + ", ".join(f"({a}, {b}, {c})" for a, b, c in det["computed"]) + "]"
        txt = (f"/-- details of layout {i}: {l['file']} -/\n"
               f"def d{i} : LayoutD := LayoutD.ofRaw {nid.get('', len(names))} {comp} {det['aux']} [\n  " + ",\n  ".join(regs_txt) + "]\n")
        defs.append(txt)
        dmeta.append({"file": l["file"], "names": names, "regs": det["regs"], "computed": det["computed"], "aux": det["aux"]})
    # shards of similar size, built in parallel by lake (one 0.7 MB file takes minutes to elaborate)
    shards = [[] for _ in range(NSHARD)]
    load = [0] * NSHARD
    for i in sorted(range(len(defs)), key=lambda k: -len(defs[k])):
        k = load.index(min(load))
        shards[k].append(i)
        load[k] += len(defs[i])
    for k in range(NSHARD):
        body = ["import SpsdkVerif.Model.ConfigArea", "", "namespace SpsdkVerif.Generated.RegDetails", "open SpsdkVerif.CfgArea", "",
                "set_option maxRecDepth 100000", ""] + [defs[i] for i in sorted(shards[k])] + ["end SpsdkVerif.Generated.RegDetails"]
        emit(f"RegDetails{k}", "\n".join(body) + "\n", {"layouts": sorted(shards[k])})
    od = [f"import SpsdkVerif.Generated.RegDetails{k}" for k in range(NSHARD)] + ["", "namespace SpsdkVerif.Generated.RegDetails", "open SpsdkVerif.CfgArea", "",
          "def details : List LayoutD := [" + ", ".join(f"d{i}" for i in range(len(layouts))) + "]", "", "end SpsdkVerif.Generated.RegDetails"]
    emit("RegDetails", "\n".join(od) + "\n", {"details": dmeta, "counts": {
        "enums": sum(len(f[6]) for d in dmeta for r in d["regs"] for f in r[5]),
        "names": sum(len(d["names"]) for d in dmeta)}})


_emitted = {"done": False}


def gen_RegDetails():
    """emitted together with RegLayouts (same pass over the database)"""
    if not _emitted["done"]:
        gen_RegLayouts()


GENERATORS = {"RegLayouts": gen_RegLayouts, "RegDetails": gen_RegDetails}


GENERATORS["PfrRules"] = gen_PfrRules



# ------------------------------------------------------------------------------------------------ scalar decoding rule of _load_yml_config
def _scalar_steps(stmts, var):
    """the statements that compute `val` from the configuration value `var` as a list of steps (condition, parser, try_next):
    conditions: 'always' | 'hexStr' (register.config_as_hexstring and isinstance(var, str)) | 'hexReg' (register.config_as_hexstring);
    parsers: 'hex16' (int(var, 16)) | 'valueToInt' (value_to_int(var)).  Anything else -> None (the theorem then fails, never a default)."""
    def const_int(node):
        try:
            from consteval import ModuleEnv  # noqa: F401  (constants by value when the source names them)
        except Exception:  # noqa: BLE001
            pass
        try:
            return ast.literal_eval(node)
        except (ValueError, SyntaxError):
            return None

    def is_var(node):
        return isinstance(node, ast.Name) and node.id == var

    def parser(node):
        if isinstance(node, ast.Call) and isinstance(node.func, ast.Name) and not node.keywords:
            if node.func.id == "int" and len(node.args) == 2 and is_var(node.args[0]) and const_int(node.args[1]) == 16:
                return "hex16"
            if node.func.id == "value_to_int" and len(node.args) == 1 and is_var(node.args[0]):
                return "valueToInt"
        if isinstance(node, ast.Call) and isinstance(node.func, ast.Name) and node.func.id == "int" and len(node.args) == 1 and is_var(node.args[0]) \
                and len(node.keywords) == 1 and node.keywords[0].arg == "base" and const_int(node.keywords[0].value) == 16:
            return "hex16"
        return None

    def is_hexflag(node):
        return isinstance(node, ast.Attribute) and node.attr == "config_as_hexstring" and isinstance(node.value, ast.Name) and node.value.id == "register"

    def is_isstr(node):
        return (isinstance(node, ast.Call) and isinstance(node.func, ast.Name) and node.func.id == "isinstance" and len(node.args) == 2
                and is_var(node.args[0]) and isinstance(node.args[1], ast.Name) and node.args[1].id == "str")

    def cond(node):
        if is_hexflag(node):
            return "hexReg"
        if isinstance(node, ast.BoolOp) and isinstance(node.op, ast.And) and len(node.values) == 2:
            a, b = node.values
            if (is_hexflag(a) and is_isstr(b)) or (is_hexflag(b) and is_isstr(a)):
                return "hexStr"
        return None

    def value_steps(node):
        if isinstance(node, ast.IfExp):
            c, p, rest = cond(node.test), parser(node.body), value_steps(node.orelse)
            if c is None or p is None or rest is None:
                return None
            return [(c, p, False)] + rest
        p = parser(node)
        return None if p is None else [("always", p, False)]

    def assigned(st):
        if isinstance(st, ast.Assign) and len(st.targets) == 1 and isinstance(st.targets[0], ast.Name) and st.targets[0].id == "val":
            return st.value
        return None

    for st in stmts:
        v = assigned(st)
        if v is not None:
            return value_steps(v)
        if isinstance(st, ast.If) and any(assigned(x) is not None for x in st.body):   # if cond: val = A  else: val = B
            c = cond(st.test)
            a = next((assigned(x) for x in st.body if assigned(x) is not None), None)
            b = next((assigned(x) for x in st.orelse if assigned(x) is not None), None)
            pa, rest = parser(a) if a is not None else None, value_steps(b) if b is not None else None
            if c is None or pa is None or rest is None:
                return None
            return [(c, pa, False)] + rest
        if isinstance(st, ast.Try) and any(assigned(x) is not None for x in st.body):
            first = value_steps(next(assigned(x) for x in st.body if assigned(x) is not None))
            if first is None or len(first) != 1 or len(st.handlers) != 1:
                return None
            hb = st.handlers[0].body
            guard = "always"
            rest = None
            for x in hb:
                if isinstance(x, ast.If) and isinstance(x.test, ast.UnaryOp) and isinstance(x.test.op, ast.Not) and is_hexflag(x.test.operand) \
                        and len(x.body) == 1 and isinstance(x.body[0], ast.Raise):
                    guard = "hexReg"
                elif assigned(x) is not None:
                    rest = value_steps(assigned(x))
                elif isinstance(x, (ast.Expr, ast.Pass)):
                    continue
                else:
                    return None
            if rest is None or len(rest) != 1:
                return None
            return [(first[0][0], first[0][1], True), (guard if rest[0][0] == "always" else rest[0][0], rest[0][1], False)]
    return None


def gen_ScalarRule():
    """how `_RegistersBase._load_yml_config` turns a scalar configuration value into the number handed to `set_value`: which parser
    under which condition, in which order - for the plain scalar (`reg_value`) and for `{"value": raw_val}`"""
    rules = {"scalarRule": None, "dictValueRule": None}
    try:
        tree = parse("spsdk/utils/registers.py")
        fn = next(n for n in ast.walk(tree) if isinstance(n, ast.FunctionDef) and n.name == "_load_yml_config")
        for node in ast.walk(fn):
            if isinstance(node, ast.If):
                t = node.test
                # elif isinstance(reg_value, (int, str)):
                if (isinstance(t, ast.Call) and isinstance(t.func, ast.Name) and t.func.id == "isinstance" and len(t.args) == 2
                        and isinstance(t.args[0], ast.Name) and t.args[0].id == "reg_value" and isinstance(t.args[1], ast.Tuple)
                        and sorted(getattr(e, "id", "?") for e in t.args[1].elts) == ["int", "str"]):
                    rules["scalarRule"] = _scalar_steps(node.body, "reg_value")
                # if "value" in reg_value.keys():
                if (isinstance(t, ast.Compare) and isinstance(t.left, ast.Constant) and t.left.value == "value" and len(t.ops) == 1
                        and isinstance(t.ops[0], ast.In)):
                    rules["dictValueRule"] = _scalar_steps(node.body, "raw_val")
    except (StopIteration, OSError, SyntaxError):
        pass
    out = ["import SpsdkVerif.Model.ConfigArea", "", "namespace SpsdkVerif.Generated.ScalarRule", "open SpsdkVerif.CfgArea", ""]
    for name, steps in rules.items():
        out.append(f"/-- `_load_yml_config`: decoding of {'a plain scalar register value' if name == 'scalarRule' else 'the value of a {value: x} entry'} -/")
        if steps is None:
            out.append(f"def {name} : Option ScalarRule := none   -- not translatable")
        else:
            txt = ", ".join(f"⟨.{c}, .{p}, {'true' if t else 'false'}⟩" for c, p, t in steps)
            out.append(f"def {name} : Option ScalarRule := some [{txt}]")
        out.append("")
    out.append("end SpsdkVerif.Generated.ScalarRule")
    emit("ScalarRule", "\n".join(out) + "\n", {"rules": {k: (None if v is None else [list(s) for s in v]) for k, v in rules.items()}})


GENERATORS["ScalarRule"] = gen_ScalarRule
