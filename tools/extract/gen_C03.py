"""C03 generator: Generated/RotTypes.lean from the CURRENT sources + database YAMLs (pure `ast` / YAML reading).

Emits plain `def`s (namespace SpsdkVerif.Generated.RotTypes):
  * `rotRows`        – (family, revision, latest, cert_block.rot_type, isk_data_limit, isk_data_alignment) for every
                       device that declares the `cert_block` feature, after the defaults / alias / revision
                       resolution of `spsdk/utils/database.py::Device.load/_load_alias` (re-implemented here on the
                       YAML files; the harness cross-checks every row against the live `get_db`),
  * `rotClassTypes`  – `rot_type` of the `RotBase` subclasses (dispatch of `Rot.get_rot_class`), `pfrRkhtTypes` – the
                       dict of `BaseConfigArea.get_cert_block_class`,
  * rkht.py          – table geometry (`RKHT_SIZE`, `RKH_SIZE`, max 4 hashes), the RSA hash name, the EC hash label,
  * cert_blocks.py   – struct formats / magic of `CertBlockHeader` (v1) and `CertificateBlockHeader` (v2.1), default
                       alignment, the flag bit positions written by `RootKeyRecord._calculate_flags` /
                       `IskCertificate._calculate_flags`, the masks / shifts / tables read by `RootKeyRecord.parse`,
                       `get_hash_algorithm`, `IskCertificate.parse` (incl. the "no offset" magic),
  * ahab_srk.py / ahab_data.py – tags, algorithm codes, key-size codes and parameter lengths, CA mask, table versions
                       and hash algorithms, record count,
  * secret.py / header.py      – HAB tags, algorithm ids, curve ids, pack formats,
  * debug_credential.py        – RotMetaRSA exponent length and table length, RotMetaEcc.HASH_SIZES, RotMetaFlags bits.
Anything that cannot be found is emitted as the impossible value 999999 (or ""), so that the agreement theorems
of Properties/C03.lean stop compiling instead of silently keeping an old value.
"""
from __future__ import annotations

import ast
import copy
import os

from extract import REPO, emit, parse
from consteval import ModuleEnv, NotConst, norm_struct, struct_layout

RKHT = "spsdk/utils/crypto/rkht.py"
CB = "spsdk/utils/crypto/cert_blocks.py"
ROT = "spsdk/utils/crypto/rot.py"
PFR = "spsdk/pfr/pfr.py"
DAT = "spsdk/dat/debug_credential.py"
SRK = "spsdk/image/ahab/ahab_srk.py"
AHD = "spsdk/image/ahab/ahab_data.py"
SEC = "spsdk/image/secret.py"
HDR = "spsdk/image/header.py"
BAD = 999999


# ----------------------------------------------------------------------------------------------- ast helpers
def _cls(tree, name):
    for n in ast.walk(tree):
        if isinstance(n, ast.ClassDef) and n.name == name:
            return n
    return None


def _fun(node, name):
    if node is None:
        return None
    for n in ast.walk(node):
        if isinstance(n, (ast.FunctionDef, ast.AsyncFunctionDef)) and n.name == name:
            return n
    return None


def fold(node):
    """Constant folding of int expressions (literals, << >> | & + - *); None if not constant."""
    if isinstance(node, ast.Constant) and isinstance(node.value, int) and not isinstance(node.value, bool):
        return node.value
    if isinstance(node, ast.BinOp):
        a, b = fold(node.left), fold(node.right)
        if a is None or b is None:
            return None
        ops = {ast.LShift: lambda: a << b, ast.RShift: lambda: a >> b, ast.BitOr: lambda: a | b, ast.BitAnd: lambda: a & b,
               ast.Add: lambda: a + b, ast.Sub: lambda: a - b, ast.Mult: lambda: a * b}
        f = ops.get(type(node.op))
        return f() if f else None
    return None


def class_attr(tree, cls, attr):
    c = _cls(tree, cls)
    if c is None:
        return None
    for st in c.body:
        tgt = val = None
        if isinstance(st, ast.Assign) and len(st.targets) == 1 and isinstance(st.targets[0], ast.Name):
            tgt, val = st.targets[0].id, st.value
        elif isinstance(st, ast.AnnAssign) and isinstance(st.target, ast.Name) and st.value is not None:
            tgt, val = st.target.id, st.value
        if tgt == attr:
            return val
    return None


def lit(node, default=None):
    if node is None:
        return default
    try:
        return ast.literal_eval(node)
    except (ValueError, SyntaxError):
        v = fold(node)
        return default if v is None else v


def attr_name(node):
    """`A.B.C` -> 'C', Name -> id, Constant -> value"""
    if isinstance(node, ast.Attribute):
        return node.attr
    if isinstance(node, ast.Name):
        return node.id
    if isinstance(node, ast.Constant):
        return node.value
    return None


def dict_pairs(node):
    """dict literal -> [(key, value)] with keys/values folded to int or trailing attribute name."""
    out = []
    if not isinstance(node, ast.Dict):
        return out
    for k, v in zip(node.keys, node.values):
        kk = lit(k) if lit(k) is not None else attr_name(k)
        vv = lit(v) if lit(v) is not None else attr_name(v)
        out.append((kk, vv))
    return out


def enum_tags(tree, clsname):
    c = _cls(tree, clsname)
    out = {}
    if c is None:
        return out
    for st in c.body:
        if isinstance(st, ast.Assign) and len(st.targets) == 1 and isinstance(st.targets[0], ast.Name) and isinstance(st.value, ast.Tuple):
            v = lit(st.value.elts[0]) if st.value.elts else None
            if isinstance(v, int):
                out[st.targets[0].id] = v
    return out


def shifts_in(fn):
    """every `X << N` (N constant) in a function, in source order: [(text of X, N)]"""
    out = []
    if fn is None:
        return out
    for n in ast.walk(fn):
        if isinstance(n, ast.BinOp) and isinstance(n.op, ast.LShift):
            k = fold(n.right)
            if k is not None:
                out.append((ast.unparse(n.left), k, n.lineno, n.col_offset))
    out.sort(key=lambda t: (t[2], t[3]))
    return [(a, b) for a, b, _, _ in out]


def shift_of(fn, needle):
    for txt, k in shifts_in(fn):
        if needle in txt:
            return k
    return BAD


def if_bit(fn, needle):
    """`if <test mentioning needle>: flags |= 1 << K` -> K (first match)"""
    if fn is None:
        return BAD
    for n in ast.walk(fn):
        if isinstance(n, ast.If) and needle in ast.unparse(n.test):
            for txt, k in shifts_in(n):
                if txt == "1":
                    return k
    return BAD


def if_strings(fn, needle, which):
    """string list of the `which`-th `if ... in [..]` whose test mentions needle"""
    if fn is None:
        return []
    hits = []
    for n in ast.walk(fn):
        if isinstance(n, ast.If) and needle in ast.unparse(n.test):
            strs = [c.value for c in ast.walk(n.test) if isinstance(c, ast.Constant) and isinstance(c.value, str)]
            hits.append((n.lineno, strs))
    hits.sort()
    return hits[which][1] if which < len(hits) else []


def mask_shift(fn, target):
    """`target = (flags & MASK) >> SHIFT` or `target = flags & MASK` -> (MASK, SHIFT)"""
    if fn is None:
        return (BAD, BAD)
    for n in ast.walk(fn):
        if isinstance(n, ast.Assign) and len(n.targets) == 1 and attr_name(n.targets[0]) == target:
            v = n.value
            if isinstance(v, ast.Call) and v.args:  # bool(x & MASK)
                v = v.args[0]
            sh = 0
            if isinstance(v, ast.BinOp) and isinstance(v.op, ast.RShift):
                sh = fold(v.right)
                v = v.left
            if isinstance(v, ast.BinOp) and isinstance(v.op, ast.BitAnd):
                m = fold(v.right)
                if m is None:
                    m = fold(v.left)
                return (BAD if m is None else m, BAD if sh is None else sh)
    return (BAD, BAD)


def first_dict_in(fn, nth=0):
    ds = [n for n in ast.walk(fn)] if fn is not None else []
    ds = sorted([n for n in ds if isinstance(n, ast.Dict)], key=lambda n: (n.lineno, n.col_offset))
    return dict_pairs(ds[nth]) if nth < len(ds) else []


def fmt_widths(fmt):
    """struct format -> (little_endian, [field widths in bytes]); `4s` is one field of 4 bytes"""
    if not isinstance(fmt, str) or not fmt:
        return (True, [BAD])
    little = fmt[0] != ">"
    body = fmt[1:] if fmt[0] in "<>=!@" else fmt
    sizes = {"B": 1, "b": 1, "H": 2, "h": 2, "I": 4, "i": 4, "L": 4, "l": 4, "Q": 8, "q": 8}
    out, num = [], ""
    for ch in body:
        if ch.isdigit():
            num += ch
        elif ch == "s":
            out.append(int(num or "1"))
            num = ""
        elif ch in sizes:
            out += [sizes[ch]] * int(num or "1")
            num = ""
        else:
            return (little, [BAD])
    return (little, out)


def probe_method(fn, make_self):
    """Evaluate a small, self-contained method SEMANTICALLY: compile the FunctionDef alone (no imports, no spsdk), call it with a stub
    `self`.  Returns a callable(args) -> (result, self) or None if the body needs anything but builtins.  Used so that constants such
    as flag bit positions survive behaviour-preserving rewrites of the source (`1 << 31` -> `0x80000000`, `x << 8` -> `x * 256`)."""
    if fn is None:
        return None
    try:
        mod = ast.Module(body=[copy.deepcopy(fn)], type_ignores=[])
        for d in mod.body:
            d.decorator_list = []
            d.returns = None
            for a in d.args.args + d.args.kwonlyargs:
                a.annotation = None
        ast.fix_missing_locations(mod)
        ns = {"__builtins__": {"len": len, "bool": bool, "int": int, "True": True, "False": False, "None": None, "isinstance": isinstance,
                               "Exception": Exception, "ValueError": ValueError}}

        class _Err(Exception):
            pass
        ns["SPSDKError"] = _Err
        exec(compile(mod, "<probe>", "exec"), ns)  # noqa: S102  (the extracted function body only; stub globals)
        f = ns[fn.name]

        def call(*a, **kw):
            obj = make_self(*a, **kw)
            return f(obj), obj
        return call
    except Exception:  # noqa: BLE001
        return None


def _log2_exact(v):
    return v.bit_length() - 1 if isinstance(v, int) and v > 0 and v & (v - 1) == 0 else BAD


def probe_rkr_flags(cf):
    """(caBit, usedShift, countShift, [(bit, [curve names])]) of RootKeyRecord._calculate_flags by probing, or None"""
    from types import SimpleNamespace as NS
    call = probe_method(cf, lambda ca, used, n, curve: NS(ca_flag=ca, used_root_cert=used, root_certs=[NS(curve=curve)] * n))
    if call is None:
        return None
    try:
        base = call(False, 0, 1, "none")[0]
        ca = _log2_exact(call(True, 0, 1, "none")[0] - base)
        used = _log2_exact(call(False, 1, 1, "none")[0] - base)
        cnt = _log2_exact(call(False, 0, 2, "none")[0] - base)
        names = sorted({c.value for c in ast.walk(cf) if isinstance(c, ast.Constant) and isinstance(c.value, str) and len(c.value) < 16},
                       key=lambda x: x)
        by_bit = {}
        for nm in names:
            dv = call(False, 0, 1, nm)[0] - base
            if dv:
                by_bit.setdefault(_log2_exact(dv), []).append(nm)
        # linearity check on a few more points (the probe must describe the function, not two samples of it)
        for u in (0, 3, 15):
            for n in (1, 4):
                if call(True, u, n, "none")[0] != (1 << ca) | (u << used) | (n << cnt):
                    return None
        return ca, used, cnt, sorted(by_bit.items())
    except Exception:  # noqa: BLE001
        return None


def probe_isk_flags(cf):
    """(userDataBit, [(bit, curve name)]) of IskCertificate._calculate_flags by probing, or None"""
    from types import SimpleNamespace as NS
    call = probe_method(cf, lambda ud, curve: NS(flags=0, user_data=ud, isk_cert=NS(curve=curve)))
    if call is None:
        return None
    try:
        base = call(b"", "none")[1].flags
        udb = _log2_exact(call(b"x", "none")[1].flags - base)
        names = sorted({c.value for c in ast.walk(cf) if isinstance(c, ast.Constant) and isinstance(c.value, str) and len(c.value) < 16})
        curves = []
        for nm in names:
            dv = call(b"", nm)[1].flags - base
            if dv:
                curves.append((_log2_exact(dv), nm))
        return udb, sorted(curves)
    except Exception:  # noqa: BLE001
        return None



# ----------------------------------------------------------------------------------------------- HAB SrkItemEcc: semantic probes
def _exec_fn(fn, ns):
    """compile one FunctionDef alone (decorators / annotations stripped) in the stub namespace `ns`; returns the function"""
    mod = ast.Module(body=[copy.deepcopy(fn)], type_ignores=[])
    for d_ in mod.body:
        d_.decorator_list = []
        d_.returns = None
        for a in d_.args.args + d_.args.kwonlyargs:
            a.annotation = None
    ast.fix_missing_locations(mod)
    exec(compile(mod, "<probe>", "exec"), ns)  # noqa: S102  (one extracted function body; stub globals only)
    return ns[fn.name]


def probe_hab_ecc(sec_tree, keys_tree, hdr_size):
    """Field arithmetic of `SrkItemEcc.__init__` / `export` / `parse` (spsdk/image/secret.py) and of `get_ecc_curve`
    (spsdk/crypto/keys.py) by EVALUATING the extracted function bodies on stub objects - no spsdk import.  Returns a dict or None.

      export_fields : for each of the 8 bytes packed after the header (source, shift, mask); source 0 = constant `shift`,
                      1 = flag, 2 = curve id, 3 = key_size:  byte = (source >> shift) & mask      (checked for EVERY probed key size)
      coord_add/div : coordinate_size = (key_size + add) // div in `__init__` (what `export` writes) - fitted on all probed sizes
      len_extra     : header.length after `__init__` = Header.SIZE + len_extra + 2 * coordinate_size
      curve_ranges  : run-length table of `get_ecc_curve(key_size // 8)` as used by `export`: (lo, hi, curve name), else SPSDKError
      parse_*       : byte index of flag / curve id, (index, shift) of the key_size bytes, offset of X, coordinate-size rule of `parse`
    """
    import math
    import struct
    from types import SimpleNamespace as NS
    cls = _cls(sec_tree, "SrkItemEcc")
    f_init, f_exp, f_parse = _fun(cls, "__init__"), _fun(cls, "export"), _fun(cls, "parse")
    f_curve = next((n for n in keys_tree.body if isinstance(n, ast.FunctionDef) and n.name == "get_ecc_curve"), None)
    if not (f_init and f_exp and f_parse and f_curve):
        return None

    class _Err(Exception):
        pass

    class _Names:                                   # EccCurve.SECP256R1 -> "secp256r1"; EnumSRK.KEY_PUBLIC.tag -> 0 ...
        def __getattr__(self, nm):
            return nm.lower()

    class _Tags:
        def __getattr__(self, nm):
            return NS(tag=0, value="big")

    builtins_ = {"len": len, "bool": bool, "int": int, "list": list, "range": range, "isinstance": isinstance, "bytes": bytes,
                 "True": True, "False": False, "None": None, "Exception": Exception, "ValueError": ValueError, "divmod": divmod,
                 "min": min, "max": max, "abs": abs, "round": round}
    try:
        curve_fn = _exec_fn(f_curve, {"__builtins__": builtins_, "EccCurve": _Names(), "SPSDKError": _Err, "SPSDKValueError": _Err})

        def ns():
            return {"__builtins__": builtins_, "math": math, "pack": struct.pack, "unpack_from": struct.unpack_from,
                    "Endianness": NS(BIG=NS(value="big"), LITTLE=NS(value="little")), "EnumSRK": _Tags(), "EnumAlgorithm": _Tags(),
                    "SPSDKError": _Err, "get_ecc_curve": curve_fn, "EccCurve": _Names(),
                    "Header": type("Header", (), {"SIZE": hdr_size, "__init__": lambda s, **kw: s.__dict__.update(length=hdr_size, **kw),
                                                  "export": lambda s: b"\xAA" * hdr_size, "parse": staticmethod(lambda *a, **k: None)})}
        init_fn, exp_fn, parse_fn = _exec_fn(f_init, ns()), _exec_fn(f_exp, ns()), _exec_fn(f_parse, ns())

        class KT(dict):                             # ECC_KEY_TYPE stub: every curve maps to one sentinel id
            def __init__(self, v):
                super().__init__()
                self.v = v

            def __getitem__(self, k):
                return self.v

            def values(self):
                return [self.v]

        def build(ks, x, y, flag, sentinel=0xC1):
            o = NS(ECC_KEY_TYPE=KT(sentinel))
            init_fn(o, ks, x, y, flag)
            o.flag = flag
            return o

        # ---- curve ranges: get_ecc_curve(key_size // 8) as `export` calls it (argument expression read from export itself through
        #      the sentinel-free path: ECC_KEY_TYPE stub that records its key)
        seen = {}

        class Rec(dict):
            def __getitem__(self, k):
                seen["k"] = k
                return 0

        sizes = list(range(0, 1100))
        cur = {}
        for ks in sizes:
            o = NS(ECC_KEY_TYPE=Rec())
            try:
                init_fn(o, ks, 0, 0, 0)
                o.flag = 0
                seen.pop("k", None)
                exp_fn(o)
                cur[ks] = str(seen.get("k"))
            except _Err:
                cur[ks] = None
        ranges, lo = [], None
        for ks in sizes + [None]:
            v = cur.get(ks) if ks is not None else None
            if lo is not None and (ks is None or v != cur[lo]):
                ranges.append((lo, (ks if ks is not None else sizes[-1] + 1) - 1, cur[lo]))
                lo = None
            if ks is not None and v is not None and lo is None:
                lo = ks
        ok_sizes = [ks for ks in sizes if cur[ks] is not None]

        # ---- coordinate size written by __init__/export, header length
        cs_of = {}
        for ks in ok_sizes:
            o = build(ks, 0, 0, 0)
            data = exp_fn(o)
            n = len(data) - hdr_size - 8
            if n < 0 or n % 2:
                return None
            cs_of[ks] = n // 2
            if o._header.length != hdr_size + 8 + n:
                return None
        fit = [(a, dv) for dv in (8,) for a in range(dv) if all(cs_of[ks] == (ks + a) // dv for ks in ok_sizes)]
        if not fit:
            return None
        add, div = fit[0]
        # X then Y, big endian, at the fixed width
        for ks in (256, 384, 521):
            csz = cs_of[ks]
            data = exp_fn(build(ks, 0x0102, 0x0304, 0))
            if data[hdr_size + 8:] != (0x0102).to_bytes(csz, "big") + (0x0304).to_bytes(csz, "big"):
                return None

        # ---- the 8 packed bytes
        def body(ks, flag, sentinel=0xC1):
            return exp_fn(build(ks, 0, 0, flag, sentinel))[hdr_size:hdr_size + 8]
        fields = []
        for i in range(8):
            col = {ks: body(ks, 0)[i] for ks in ok_sizes}
            if body(256, 0, 0xC2)[i] != body(256, 0, 0xC1)[i]:
                ok = all(body(ks, 0, s)[i] == s for ks in (256, 384, 521) for s in (0x01, 0x4B, 0xFF))
                fields.append((2, 0, 255) if ok else None)
            elif body(256, 0xFF)[i] != body(256, 0)[i]:
                m = body(256, 0xFF)[i]
                ok = all(body(ks, fl)[i] == fl & m for ks in (256, 384, 521) for fl in (0, 1, 0x80, 0xFF))
                fields.append((1, 0, m) if ok else None)
            elif len(set(col.values())) == 1:
                fields.append((0, col[ok_sizes[0]], 0))
            else:
                sh = next((s for s in range(0, 17) if all(col[ks] == (ks >> s) & 0xFF for ks in ok_sizes)), None)
                fields.append((3, sh, 255) if sh is not None else None)
        if any(f is None for f in fields):
            return None

        def parse_part():
            try:
                # ---- parse: positions by differential probing on the raw bytes
                class PC:
                    ECC_KEY_TYPE = {"a": 0x4B}

                    def __init__(self, *a):
                        self.a = a

                def prs(data):
                    return parse_fn(PC, bytes(data)).a                    # (key_size, x, y, flag)
                L = hdr_size + 8
                zero = bytearray(L + 300)
                curve_idx = []
                for j in range(L):
                    dd = bytearray(zero)
                    dd[j] = 0x4B
                    try:
                        prs(dd)
                        curve_idx.append(j)
                    except _Err:
                        pass
                if len(curve_idx) != 1:
                    return None
                base = bytearray(zero)
                base[curve_idx[0]] = 0x4B
                if prs(base) != (0, 0, 0, 0):
                    return None
                flag_idx, ks_idx = [], []
                for j in range(L):
                    if j == curve_idx[0]:
                        continue
                    dd = bytearray(base)
                    dd[j] = 1
                    ks, _, _, fl = prs(dd)
                    if fl == 1:
                        flag_idx.append(j)
                    if ks:
                        ks_idx.append((j, _log2_exact(ks)))
                if len(flag_idx) != 1 or not ks_idx or any(s == BAD for _, s in ks_idx):
                    return None

                def with_ks(ks):
                    dd = bytearray(base)
                    for j, s in ks_idx:
                        dd[j] = (ks >> s) & 0xFF
                    return dd
                p_cs, p_off = {}, set()
                for ks in list(range(0, 1100)) + [4095, 4096, 65535 // 32]:
                    dd = with_ks(ks)
                    if sum(dd[j] << s for j, s in ks_idx) != ks:
                        continue
                    tail = len(dd) - L
                    dd[L:] = b"\xFF" * tail
                    k2, x, y, _ = prs(dd)
                    if k2 != ks:
                        return None
                    p_cs[ks] = (x.bit_length() + 7) // 8
                    if p_cs[ks] * 2 <= tail and y != x:
                        return None
                    if p_cs[ks]:
                        for off in range(max(L - 4, 0), L + 8):
                            if off in (curve_idx[0], flag_idx[0]) or off in [j for j, _ in ks_idx]:
                                continue
                            d2 = with_ks(ks)
                            d2[off] = 1
                            if prs(d2)[1]:
                                p_off.add(off)
                                break
                pfit = [(a, dv) for dv in (8,) for a in range(dv) if all(v == (ks + a) // dv for ks, v in p_cs.items() if (ks + 7) // 8 * 2 <= 300)]
                if not pfit or len(p_off) != 1:
                    return None
                return {"parse_flag_idx": flag_idx[0], "parse_curve_idx": curve_idx[0], "parse_bits_idx": sorted(ks_idx),
                        "parse_coord_off": p_off.pop(), "parse_coord_add": pfit[0][0], "parse_coord_div": pfit[0][1]}
            except Exception:  # noqa: BLE001
                return None
        pp = parse_part() or {"parse_flag_idx": BAD, "parse_curve_idx": BAD, "parse_bits_idx": [], "parse_coord_off": BAD,
                              "parse_coord_add": BAD, "parse_coord_div": BAD}
        return dict({"export_fields": fields, "coord_add": add, "coord_div": div, "len_extra": 8, "curve_ranges": ranges}, **pp)
    except Exception:  # noqa: BLE001
        return None


# ----------------------------------------------------------------------------------------------- reading BY VALUE (consteval)
_ENVS = {}


def env_of(tree):
    if id(tree) not in _ENVS:
        _ENVS[id(tree)] = ModuleEnv(tree)
    return _ENVS[id(tree)]


def _owner(tree, node):
    """(enclosing class name, enclosing function node) of an AST node"""
    for c in ast.walk(tree):
        if isinstance(c, ast.ClassDef):
            for f in ast.walk(c):
                if isinstance(f, (ast.FunctionDef, ast.AsyncFunctionDef)) and any(n is node for n in ast.walk(f)):
                    return c.name, f
    for f in ast.walk(tree):
        if isinstance(f, (ast.FunctionDef, ast.AsyncFunctionDef)) and any(n is node for n in ast.walk(f)):
            return None, f
    return None, None


def _locals_of(tree, fn, cls):
    """constant local assignments of a function (single assignment of a constant expression), evaluated through the env"""
    out = {}
    if fn is None:
        return out
    seen, other = {}, set()
    for n in ast.walk(fn):
        if isinstance(n, ast.Assign) and len(n.targets) == 1 and isinstance(n.targets[0], ast.Name):
            seen.setdefault(n.targets[0].id, []).append(n.value)
        elif isinstance(n, (ast.Assign, ast.AugAssign, ast.AnnAssign, ast.For, ast.comprehension, ast.NamedExpr, ast.With)):
            tg = n.targets if isinstance(n, ast.Assign) else [getattr(n, "target", None)]
            for x in tg:
                other |= {y.id for y in ast.walk(x) if isinstance(y, ast.Name)} if x is not None else set()
        elif isinstance(n, ast.arg):
            other.add(n.arg)
    for name, vals in seen.items():
        if len(vals) == 1 and name not in other:       # a name bound exactly once, by a plain assignment
            try:
                out[name] = env_of(tree).eval(vals[0], cls=cls, local=dict(out))
            except NotConst:
                pass
    return out


def cev(tree, node, cls=None, fn=None, default=None):
    """value of a constant expression at its use site: literals in any spelling, module / class constants, local constants"""
    if node is None:
        return default
    try:
        return env_of(tree).eval(node, cls=cls, local=_locals_of(tree, fn, cls))
    except NotConst:
        return default


def cval(tree, cls, attr, default=None):
    """class constant by value (inherited through bases of the module; any spelling; may refer to other constants)"""
    try:
        return env_of(tree).cls(cls).value(attr)
    except NotConst:
        return default


def cnode(tree, cls, attr):
    """AST node of a class constant (own or inherited) - for tables whose values are not constants (enum members, classes)"""
    e = env_of(tree)
    c = e.classes.get(cls)
    while c is not None:
        if attr in c.nodes:
            return c.nodes[attr]
        c = next(iter(c.bases()), None)
    return None


def table_node(tree, fn, cls, node, depth=0):
    """the dict literal a use site refers to: inline `{..}[k]`, a local variable, a class constant (`self.T`, `cls.T`, `Cls.T`)
    or a module constant - wherever the table happens to be written"""
    if isinstance(node, ast.Dict) or depth > 4 or node is None:
        return node if isinstance(node, ast.Dict) else None
    e = env_of(tree)
    if isinstance(node, ast.Name):
        if fn is not None:
            for n in ast.walk(fn):
                if isinstance(n, ast.Assign) and len(n.targets) == 1 and isinstance(n.targets[0], ast.Name) and n.targets[0].id == node.id:
                    return table_node(tree, fn, cls, n.value, depth + 1)
        if cls and cnode(tree, cls, node.id) is not None:
            return table_node(tree, None, cls, cnode(tree, cls, node.id), depth + 1)
        if node.id in e.nodes:
            return table_node(tree, None, None, e.nodes[node.id], depth + 1)
    if isinstance(node, ast.Attribute) and isinstance(node.value, ast.Name):
        base = cls if node.value.id in ("self", "cls") else node.value.id
        if base and cnode(tree, base, node.attr) is not None:
            return table_node(tree, None, base, cnode(tree, base, node.attr), depth + 1)
    return None


def pairs_of(tree, dnode, cls=None, fn=None, sort=True):
    """[(key, value)] of a dict literal; keys / values by VALUE where constant, else the trailing attribute name
    (`EccCurve.SECP256R1` -> 'SECP256R1'); sorted by key (the code only indexes these tables)"""
    out = []
    if not isinstance(dnode, ast.Dict):
        return out
    for k, v in zip(dnode.keys, dnode.values):
        kk = cev(tree, k, cls, fn)
        vv = cev(tree, v, cls, fn)
        out.append((kk if kk is not None else attr_name(k), vv if vv is not None else attr_name(v)))
    if sort:
        try:
            out.sort(key=lambda kv: (str(type(kv[0]).__name__), kv[0]))
        except TypeError:
            out.sort(key=lambda kv: str(kv[0]))
    return out


def indexed_table(tree, cls, fname, index_pred, table_pred=None):
    """the table indexed at the first use site `T[<index>]` in method `fname` whose index satisfies `index_pred(index_node)`
    (and whose resolved pairs satisfy `table_pred`): -> (pairs sorted by key, index node) or ([], None)"""
    fn = _fun(_cls(tree, cls) if cls else tree, fname)
    if fn is None:
        return [], None
    sites = sorted([n for n in ast.walk(fn) if isinstance(n, ast.Subscript) and index_pred(n.slice)], key=lambda n: (n.lineno, n.col_offset))
    for n in sites:
        dn = table_node(tree, fn, cls, n.value)
        if dn is not None:
            ps = pairs_of(tree, dn, cls, fn)
            if table_pred is None or table_pred(ps):
                return ps, n.slice
    return [], None


def and_mask(tree, node, cls=None, fn=None):
    """`x & MASK` / `MASK & x` -> MASK by value, else None"""
    if isinstance(node, ast.BinOp) and isinstance(node.op, ast.BitAnd):
        for side in (node.right, node.left):
            v = cev(tree, side, cls, fn)
            if isinstance(v, int) and not isinstance(v, bool):
                return v
    return None


def field_of(tree, cls, fname, target):
    """bit field read into `target`: `(x & M) >> S`, `(x >> S) & m`, `x & M`, optionally wrapped in bool()/int() ->
    (pre-shift mask M, shift S) by value - both spellings of a field extraction normalise to the same pair"""
    fn = _fun(_cls(tree, cls), fname)
    if fn is None:
        return (BAD, BAD)
    for n in ast.walk(fn):
        if isinstance(n, ast.Assign) and len(n.targets) == 1 and attr_name(n.targets[0]) == target:
            v = n.value
            while isinstance(v, ast.Call) and attr_name(v.func) in ("bool", "int") and v.args:
                v = v.args[0]
            if isinstance(v, ast.Compare) and len(v.ops) == 1 and isinstance(v.ops[0], ast.NotEq) and cev(tree, v.comparators[0], cls, fn) == 0:
                v = v.left                                    # `(x & M) != 0`
            if isinstance(v, ast.BinOp) and isinstance(v.op, ast.RShift):
                sh = cev(tree, v.right, cls, fn)
                m = and_mask(tree, v.left, cls, fn)
                if isinstance(sh, int) and m is not None:
                    return (m, sh)
            m = and_mask(tree, v, cls, fn)
            if m is not None:
                inner = v.left if cev(tree, v.right, cls, fn) == m else v.right
                if isinstance(inner, ast.BinOp) and isinstance(inner.op, ast.RShift):
                    sh = cev(tree, inner.right, cls, fn)
                    if isinstance(sh, int):
                        return (m << sh, sh)                  # `(x >> S) & m`
                return (m, 0)
    return (BAD, BAD)


def enum_tags(tree, clsname):
    """SpsdkEnum members `NAME = (tag, "label", ...)` -> {NAME: tag by value}"""
    c = _cls(tree, clsname)
    out = {}
    if c is None:
        return out
    for st in c.body:
        if isinstance(st, ast.Assign) and len(st.targets) == 1 and isinstance(st.targets[0], ast.Name) and isinstance(st.value, ast.Tuple) and st.value.elts:
            v = cev(tree, st.value.elts[0], clsname)
            if isinstance(v, int) and not isinstance(v, bool):
                out[st.targets[0].id] = v
    return out


def fmt_of(fmt):
    """struct format by value -> (canonical spelling, [field widths]) ; '<4s2H6I' == '<4sHHIIIIII' == '<4s' 'HH' '6L'"""
    try:
        return norm_struct(fmt), [size for _, size, _ in struct_layout(fmt)]
    except (NotConst, TypeError, AttributeError):
        return "", [BAD]


def probe_dat_flags(fn):
    """(alwaysBit, usedShift, countShift) of RotMetaFlags.export by evaluating it on stub objects (pack -> struct.pack), or None"""
    import struct as _st
    from types import SimpleNamespace as NS
    if fn is None:
        return None
    try:
        mod = ast.Module(body=[copy.deepcopy(fn)], type_ignores=[])
        mod.body[0].decorator_list, mod.body[0].returns = [], None
        for a in mod.body[0].args.args:
            a.annotation = None
        ast.fix_missing_locations(mod)
        ns = {"__builtins__": {"len": len, "int": int, "bytes": bytes}, "pack": _st.pack, "struct": _st}
        exec(compile(mod, "<probe>", "exec"), ns)  # noqa: S102
        f = lambda u, c: int.from_bytes(ns[fn.name](NS(used_root_cert=u, cnt_root_cert=c)), "little")  # noqa: E731
        base = f(0, 0)
        always, used, cnt = _log2_exact(base), _log2_exact(f(1, 0) - base), _log2_exact(f(0, 1) - base)
        for u in (0, 3, 15):
            for c in (1, 4):
                if f(u, c) != (1 << always) | (u << used) | (c << cnt):
                    return None
        return always, used, cnt
    except Exception:  # noqa: BLE001
        return None


# ----------------------------------------------------------------------------------------------- database
def deep_update(d, u):
    for k, v in u.items():
        if isinstance(v, dict):
            d[k] = deep_update(d.get(k, {}) if isinstance(d.get(k), dict) else {}, v)
        else:
            d[k] = v
    return d


def load_rows():
    import yaml
    data = REPO / "spsdk" / "data"
    defaults = yaml.safe_load((data / "common" / "database_defaults.yaml").read_text(encoding="utf-8"))
    cfgs = {}
    for d in sorted(os.listdir(data / "devices")):
        p = data / "devices" / d / "database.yaml"
        if p.exists():
            cfgs[d] = yaml.safe_load(p.read_text(encoding="utf-8")) or {}
    cache = {}

    def load(name, depth=0):
        """-> (latest, {rev: features})  mirroring Device.load / Device._load_alias"""
        if name in cache:
            return cache[name]
        cfg = cfgs[name]
        if cfg.get("alias"):
            if depth > 8:
                raise RuntimeError("alias loop")
            latest, revs = copy.deepcopy(load(cfg["alias"], depth + 1))
            latest = cfg.get("latest", latest)
            feats = cfg.get("features") or {}
            if feats:
                for r in revs.values():
                    deep_update(r, copy.deepcopy(feats))
            for rn, ru in (cfg.get("revisions") or {}).items():
                ru = ru or {}
                if rn not in revs:
                    revs[rn] = copy.deepcopy(revs[ru["alias"]])
                if ru.get("features"):
                    deep_update(revs[rn], copy.deepcopy(ru["features"]))
        else:
            dev_features = copy.deepcopy(cfg.get("features") or {})
            fdef = copy.deepcopy(defaults["features"])
            for fn in dev_features:
                deep_update(fdef[fn], dev_features[fn] or {})
                dev_features[fn] = fdef[fn]
            latest = cfg["latest"]
            revs = {}
            for rn, ru in (cfg.get("revisions") or {}).items():
                f = copy.deepcopy(dev_features)
                if ru and ru.get("features"):
                    deep_update(f, copy.deepcopy(ru["features"]))
                revs[rn] = f
        cache[name] = (latest, revs)
        return cache[name]

    rows = []
    for name in sorted(cfgs):
        try:
            latest, revs = load(name)
        except Exception:  # noqa: BLE001  (a broken YAML entry is reported by the run-time cross-check)
            continue
        for rn in sorted(revs):
            cbf = revs[rn].get("cert_block")
            if not isinstance(cbf, dict) or "rot_type" not in cbf:
                continue
            rows.append((name, str(rn), rn == latest, str(cbf["rot_type"]), int(cbf.get("isk_data_limit", BAD)),
                         int(cbf.get("isk_data_alignment", BAD))))
    return rows


# ----------------------------------------------------------------------------------------------- emit
def lstr(s):
    return '"' + str(s).replace("\\", "\\\\").replace('"', '\\"') + '"'


def lnats(xs):
    return "[" + ", ".join(str(int(x)) for x in xs) + "]"


def lpairs(ps, f=lambda v: str(int(v))):
    return "[" + ", ".join(f"({int(k)}, {f(v)})" for k, v in ps) + "]"


def lbytes(b):
    return "[" + ", ".join(str(x) for x in bytes(b)) + "]"


def gen_RotTypes():
    meta = {"sources": [RKHT, CB, ROT, PFR, DAT, SRK, AHD, SEC, HDR, "spsdk/data/devices/*/database.yaml"]}
    out = ["import SpsdkVerif.Base.Py", "", "namespace SpsdkVerif.Generated.RotTypes", ""]

    def d(name, typ, val, doc=None):
        if doc:
            out.append(f"/-- {doc} -/")
        out.append(f"def {name} : {typ} := {val}")
        meta.setdefault("defs", {})[name] = val if len(str(val)) < 200 else str(val)[:200] + "…"

    def nat(v):
        return str(BAD if v is None or not isinstance(v, int) or isinstance(v, bool) or v < 0 else v)

    def pat(name, flag, doc=None):
        """source-text patterns: informational only (evidence/meta) - never referenced by a theorem, so that a
        behaviour-preserving rewrite of the statement cannot raise an alarm; the behaviour itself is checked by
        the correspondence and oracle streams."""
        meta.setdefault("source_patterns", {})[name] = bool(flag)

    # ---------------- database rows
    rows = load_rows()
    out.append("structure RotRow where\n  family : String\n  revision : String\n  latest : Bool\n  rotType : String\n"
               "  iskLimit : Nat\n  iskAlign : Nat\n  deriving Repr, DecidableEq\n")
    body = ",\n  ".join(f"⟨{lstr(f)}, {lstr(r)}, {'true' if l else 'false'}, {lstr(t)}, {il}, {ia}⟩" for f, r, l, t, il, ia in rows)
    out.append("/-- `cert_block` feature of every (family, revision) that declares it -/")
    out.append(f"def rotRows : List RotRow := [\n  {body}]\n")
    meta["rows"] = len(rows)
    meta["rot_types"] = sorted({t for _, _, _, t, _, _ in rows})

    # ---------------- rot.py / pfr.py   (everything below is read BY VALUE through consteval: spelling of literals, inline vs hoisted
    #                                      tables, struct-format spelling and statement text do not matter)
    t = parse(ROT)
    rot_classes = []
    for c in [n for n in t.body if isinstance(n, ast.ClassDef)]:
        if any(attr_name(b) == "RotBase" for b in c.bases):
            v = cval(t, c.name, "rot_type")
            if isinstance(v, str):
                rot_classes.append((c.name, v))
    d("rotClassTypes", "List (String × String)", "[" + ", ".join(f"({lstr(a)}, {lstr(b)})" for a, b in rot_classes) + "]",
      "RotBase subclasses in definition order (the dispatch iterates them): (class, rot_type)")
    t = parse(PFR)
    f = _fun(t, "get_cert_block_class")
    pairs = []
    if f is not None:
        cls_name, _ = _owner(t, f)
        # the table that is indexed / membership-tested with the database value
        cands = [n.value for n in ast.walk(f) if isinstance(n, ast.Subscript)] + \
                [n.comparators[0] for n in ast.walk(f) if isinstance(n, ast.Compare) and len(n.ops) == 1 and isinstance(n.ops[0], (ast.In, ast.NotIn))]
        for cand in cands:
            dn = table_node(t, f, cls_name, cand)
            if dn is not None and all(isinstance(cev(t, k, cls_name, f), str) for k in dn.keys):
                pairs = pairs_of(t, dn, cls_name, f)
                break
    d("pfrRkhtTypes", "List (String × String)", "[" + ", ".join(f"({lstr(a)}, {lstr(b)})" for a, b in pairs) + "]",
      "BaseConfigArea.get_cert_block_class: rot_type -> RKHT class (sorted by key)")
    f = _fun(t, "_calc_rotkh")
    src = ast.unparse(f) if f else ""
    pat("pfrLjustZero", "ljust(reg_rotkh.width // 8, b'\\x00')" in src)
    pat("pfrWidthGuard", "rkht.hash_algorithm_size > reg_rotkh.width" in src)

    # ---------------- rkht.py
    t = parse(RKHT)
    d("rkhtV1Slots", "Nat", nat(cval(t, "RKHTv1", "RKHT_SIZE")))
    d("rkhV1Size", "Nat", nat(cval(t, "RKHTv1", "RKH_SIZE")))
    init = _fun(_cls(t, "RKHT"), "__init__")
    mx = BAD
    if init:
        for n in ast.walk(init):
            if isinstance(n, ast.Compare) and len(n.ops) == 1 and "len(rkh_list)" in ast.unparse(n):
                # `len(l) > N`, `N < len(l)`, `len(l) >= N + 1`, `not len(l) <= N` ... -> the largest accepted length
                lhs_is_len = "len(rkh_list)" in ast.unparse(n.left)
                other = cev(t, n.comparators[0] if lhs_is_len else n.left, "RKHT", init)
                op = type(n.ops[0])
                if isinstance(other, int):
                    if not lhs_is_len:
                        op = {ast.Lt: ast.Gt, ast.LtE: ast.GtE, ast.Gt: ast.Lt, ast.GtE: ast.LtE}.get(op, op)
                    mx = {ast.Gt: other, ast.GtE: other - 1, ast.LtE: other, ast.Lt: other - 1}.get(op, BAD)
    d("rkhtMaxKeys", "Nat", nat(mx), "RKHT.__init__: the largest accepted number of hashes")
    gha = _fun(_cls(t, "RKHT"), "_get_hash_algorithm")
    src = ast.unparse(gha) if gha else ""
    pat("eccHashLabelIsShaKeySize", "from_label(f'sha{key.key_size}')" in src)
    rsa_alg = ""
    if gha:
        for n in ast.walk(gha):
            if isinstance(n, ast.If) and "PublicKeyRsa" in ast.unparse(n.test):
                for r in ast.walk(n):
                    if isinstance(r, ast.Return) and r.value is not None:
                        rsa_alg = str(attr_name(r.value)).lower()
    d("rsaHashName", "String", lstr(rsa_alg))
    ckh = _fun(_cls(t, "RKHT"), "_calc_key_hash")
    src = ast.unparse(ckh) if ckh else ""
    pat("keyHashOrderN2N1", "get_hash(n2_bytes + n1_bytes" in src)

    # ---------------- cert_blocks.py
    t = parse(CB)
    canon, ws = fmt_of(cval(t, "CertBlockHeader", "FORMAT", ""))
    d("cbV1HeaderFormat", "String", lstr(canon), "struct format in canonical spelling (byte order, one code per field, L written I)")
    d("cbV1HeaderWidths", "List Nat", lnats(ws))
    d("cbV1HeaderSize", "Nat", nat(cval(t, "CertBlockHeader", "SIZE")))
    d("cbV1Signature", "List UInt8", lbytes(cval(t, "CertBlockHeader", "SIGNATURE", b"") or b""))
    d("cbV1Alignment", "Nat", nat(cval(t, "CertBlockV1", "DEFAULT_ALIGNMENT")))
    v1p = _fun(_cls(t, "CertBlockV1"), "parse")
    src = ast.unparse(v1p) if v1p else ""
    pat("cbV1ParseRestoresImageLength", "image_length = header.image_length" in src)

    canon, ws = fmt_of(cval(t, "CertificateBlockHeader", "FORMAT", ""))
    d("cbV21HeaderFormat", "String", lstr(canon))
    d("cbV21HeaderWidths", "List Nat", lnats(ws))
    d("cbV21HeaderSize", "Nat", nat(cval(t, "CertificateBlockHeader", "SIZE")))
    d("cbV21Magic", "List UInt8", lbytes(cval(t, "CertificateBlockHeader", "MAGIC", b"") or b""))

    rkr = _cls(t, "RootKeyRecord")
    cf = _fun(rkr, "_calculate_flags")
    pr = probe_rkr_flags(cf)
    meta["rkr_flags_mode"] = "probed (semantic)" if pr else "syntactic fallback"
    if pr:
        ca_b, used_s, cnt_s, curve_bits = pr
    else:
        ca_b, used_s, cnt_s = if_bit(cf, "ca_flag"), shift_of(cf, "used_root_cert"), shift_of(cf, "len(self.root_certs)")
        names0, names1 = if_strings(cf, "curve", 0), if_strings(cf, "curve", 1)
        bits = [k for txt, k in shifts_in(cf) if txt == "1"]
        curve_bits = list(zip(bits[-2:], (sorted(names0), sorted(names1))))     # the two curve `if`s are the last two `1 << k`
    d("rkrCaBit", "Nat", nat(ca_b))
    d("rkrUsedShift", "Nat", nat(used_s))
    d("rkrCountShift", "Nat", nat(cnt_s))
    d("rkrCurveBits", "List (Nat × List String)",
      "[" + ", ".join(f"({nat(b)}, [" + ", ".join(lstr(s) for s in ns) + "])" for b, ns in curve_bits) + "]",
      "curve names that set flag bit k in `RootKeyRecord._calculate_flags` (names sorted)")
    m, _ = field_of(t, "RootKeyRecord", "parse", "ca_flag")
    d("rkrParseCaMask", "Nat", nat(m))
    m, sh = field_of(t, "RootKeyRecord", "parse", "used_rot_ix")
    d("rkrParseUsedMask", "Nat", nat(m), "pre-shift mask of the field, whichever way the extraction is written")
    d("rkrParseUsedShift", "Nat", nat(sh))
    m, sh = field_of(t, "RootKeyRecord", "parse", "number_of_hashes")
    d("rkrParseCountMask", "Nat", nat(m))
    d("rkrParseCountShift", "Nat", nat(sh))
    is_nibble = lambda sl: and_mask(t, sl, "RootKeyRecord") is not None  # noqa: E731   (`T[flags & MASK]`)
    tbl, idx = indexed_table(t, "RootKeyRecord", "parse", is_nibble)
    d("rkrParseHashLen", "List (Nat × Nat)", lpairs([kv for kv in tbl if isinstance(kv[0], int) and isinstance(kv[1], int)]),
      "the table `rotkh_len = T[flags & MASK]` indexes (inline or named), sorted by key")
    d("rkrParseCurveMask", "Nat", nat(and_mask(t, idx, "RootKeyRecord") if idx is not None else BAD))
    tbl, _ = indexed_table(t, "RootKeyRecord", "get_hash_algorithm", is_nibble)
    d("rkrHashAlg", "List (Nat × String)", lpairs([kv for kv in tbl if isinstance(kv[0], int)], lambda v: lstr(str(v).lower())),
      "`RootKeyRecord.get_hash_algorithm`: `T[flags & MASK]`")
    pf = _fun(rkr, "parse")
    src = ast.unparse(pf) if pf else ""
    pat("rkrParseTableIfMoreThanOne", "if number_of_hashes > 1" in src)

    isk = _cls(t, "IskCertificate")
    cf = _fun(isk, "_calculate_flags")
    pi = probe_isk_flags(cf)
    meta["isk_flags_mode"] = "probed (semantic)" if pi else "syntactic fallback"
    ud_bit, isk_curves = pi if pi else (if_bit(cf, "user_data"), _isk_curves(cf))
    d("iskUserDataBit", "Nat", nat(ud_bit))
    d("iskCurveBits", "List (Nat × String)",
      "[" + ", ".join(f"({nat(b)}, {lstr(nm)})" for b, nm in isk_curves) + "]")
    pf = _fun(isk, "parse")
    magic = sigoff = BAD
    if pf:
        for n in ast.walk(pf):
            if isinstance(n, ast.If) and "signature_offset" in ast.unparse(n.test):
                for c in ast.walk(n.test):
                    if isinstance(c, ast.Compare) and len(c.ops) == 1 and isinstance(c.ops[0], ast.Eq):
                        for side in (c.comparators[0], c.left):
                            v = cev(t, side, "IskCertificate", pf)
                            if isinstance(v, int) and "signature_offset" not in ast.unparse(side):
                                magic = v
                for a in ast.walk(n):
                    if isinstance(a, ast.Assign) and attr_name(a.targets[0]) == "signature_offset":
                        v = cev(t, a.value, "IskCertificate", pf)
                        if isinstance(v, int):
                            sigoff = v
    d("iskNoOffsetMagic", "Nat", nat(magic))
    d("iskNoOffsetSigOffset", "Nat", nat(sigoff))
    m, _ = field_of(t, "IskCertificate", "parse", "user_data_flag")
    d("iskParseUserDataMask", "Nat", nat(m))
    is_nibble_i = lambda sl: and_mask(t, sl, "IskCertificate") is not None  # noqa: E731
    tbl, _ = indexed_table(t, "IskCertificate", "parse", is_nibble_i)
    d("iskParseKeyLen", "List (Nat × Nat)", lpairs([kv for kv in tbl if isinstance(kv[0], int) and isinstance(kv[1], int)]))

    # ---------------- IskCertificateLite / CertBlockVx (MC56)
    d("liteMagic", "Nat", nat(cval(t, "IskCertificateLite", "MAGIC")))
    d("liteVersion", "Nat", nat(cval(t, "IskCertificateLite", "VERSION")))
    canon, ws = fmt_of(cval(t, "IskCertificateLite", "HEADER_FORMAT", ""))
    d("liteHeaderFormat", "String", lstr(canon))
    d("liteHeaderWidths", "List Nat", lnats(ws))
    d("litePubKeyLength", "Nat", nat(cval(t, "IskCertificateLite", "ISK_PUB_KEY_LENGTH")))
    d("liteSignatureSize", "Nat", nat(cval(t, "IskCertificateLite", "ISK_SIGNATURE_SIZE")))
    d("liteSignatureOffset", "Nat", nat(cval(t, "IskCertificateLite", "SIGNATURE_OFFSET")))
    d("vxCertHashLength", "Nat", nat(cval(t, "CertBlockVx", "ISK_CERT_HASH_LENGTH")))

    # ---------------- AHAB
    t = parse(AHD)
    tags = enum_tags(t, "AHABTags")
    d("ahabTagSrkTable", "Nat", nat(tags.get("SRK_TABLE")))
    d("ahabTagSrkRecord", "Nat", nat(tags.get("SRK_RECORD")))
    d("ahabTagSrkData", "Nat", nat(tags.get("SRK_DATA")))
    for ver in ("V1", "V2"):
        e = enum_tags(t, "AHABSignAlgorithm" + ver)
        d(f"ahabSignRsaPss{ver}", "Nat", nat(e.get("RSA_PSS")))
        d(f"ahabSignEcdsa{ver}", "Nat", nat(e.get("ECDSA")))
        e = enum_tags(t, "AHABSignHashAlgorithm" + ver)
        d(f"ahabHashTags{ver}", "List (String × Nat)",
          "[" + ", ".join(f"({lstr(k.lower())}, {v})" for k, v in sorted(e.items()) if k in ("SHA256", "SHA384", "SHA512")) + "]")
    t = parse(SRK)
    d("ahabEccKeyType", "List (String × Nat)",
      "[" + ", ".join(f"({lstr(str(k).lower())}, {nat(v)})" for k, v in sorted(pairs_of(t, cnode(t, "SRKRecordBase", "ECC_KEY_TYPE"), "SRKRecordBase"), key=lambda kv: str(kv[0]))) + "]")
    d("ahabRsaKeyType", "List (Nat × Nat)", lpairs([kv for kv in pairs_of(t, cnode(t, "SRKRecordBase", "RSA_KEY_TYPE"), "SRKRecordBase") if isinstance(kv[0], int)]))
    ks = cval(t, "SRKRecordBase", "KEY_SIZES", {}) or {}
    ksl = sorted((k, v) for k, v in ks.items() if isinstance(k, int) and isinstance(v, tuple) and len(v) == 2)
    d("ahabKeySizes", "List (Nat × Nat × Nat)", "[" + ", ".join(f"({k}, {a}, {b})" for k, (a, b) in ksl) + "]")
    d("ahabCaMask", "Nat", nat(cval(t, "SRKRecordBase", "FLAGS_CA_MASK")))
    d("ahabTableVersion", "Nat", nat(cval(t, "SRKTable", "VERSION")))
    d("ahabTableVersionV2", "Nat", nat(cval(t, "SRKTableV2", "VERSION")))
    d("ahabTableHash", "String", lstr(str(attr_name(cnode(t, "SRKTable", "SRK_HASH_ALGORITHM"))).lower()))
    d("ahabTableHashV2", "String", lstr(str(attr_name(cnode(t, "SRKTableV2", "SRK_HASH_ALGORITHM"))).lower()))
    d("ahabRecordsCnt", "Nat", nat(cval(t, "SRKTable", "SRK_RECORDS_CNT")))
    d("ahabV2ParamsLen", "Nat", nat(cval(t, "SRKRecordV2", "CRYPTO_PARAMS_LEN")))
    d("ahabSrkDataVersion", "Nat", nat(cval(t, "SRKData", "VERSION")))
    tbl, _ = indexed_table(t, "SRKRecordBase", "create_from_key", lambda sl: "key_size" in ast.unparse(sl),
                           lambda ps: ps and all(k in (256, 384, 521) for k, _ in ps))
    hp = [(k, str(v).lower()) for k, v in tbl if isinstance(k, int) and k in (256, 384, 521)]
    d("ahabEccHashByBits", "List (Nat × String)", lpairs(hp, lstr), "`T[public_key.key_size]` of create_from_key (inline or named), sorted by key")

    # ---------------- HAB
    t = parse(SEC)
    e = enum_tags(t, "EnumSRK")
    d("habTagKeyPublic", "Nat", nat(e.get("KEY_PUBLIC")))
    e = enum_tags(t, "EnumAlgorithm")
    d("habAlgPkcs1", "Nat", nat(e.get("PKCS1")))
    d("habAlgEcdsa", "Nat", nat(e.get("ECDSA")))
    d("habEccKeyType", "List (String × Nat)",
      "[" + ", ".join(f"({lstr(str(k).lower())}, {nat(v)})" for k, v in sorted(pairs_of(t, cnode(t, "SrkItemEcc", "ECC_KEY_TYPE"), "SrkItemEcc"), key=lambda kv: str(kv[0]))) + "]")
    src = ast.unparse(_fun(_cls(t, "SrkTable"), "export_fuses") or ast.parse("0"))
    pat("habFusesIsHashOfItemHashes", "data += srk.sha256()" in src and "return sha256(data).digest()" in src)
    t_sec = t
    t = parse(HDR)
    canon, _ = fmt_of(cval(t, "Header", "FORMAT", ""))
    d("habHeaderFormat", "String", lstr(canon))
    hsz = cval(t, "Header", "SIZE")
    d("habHeaderSize", "Nat", nat(hsz))
    # SrkItemEcc field arithmetic (phase 3): evaluated semantically, so `key_size >> 8 & 0xFF` / `key_size // 256 % 256` /
    # `pack(">3xBBxH", ...)` regenerate the same text, while writing coordinate_size * 8 instead of key_size does not
    hp_ = probe_hab_ecc(t_sec, parse("spsdk/crypto/keys.py"), hsz) if isinstance(hsz, int) and 0 < hsz < 64 else None
    meta["hab_ecc_mode"] = "probed (semantic)" if hp_ else "untranslatable (impossible values emitted)"
    hp_ = hp_ or {"export_fields": [(9, BAD, BAD)], "coord_add": BAD, "coord_div": BAD, "len_extra": BAD, "curve_ranges": [],
                  "parse_flag_idx": BAD, "parse_curve_idx": BAD, "parse_bits_idx": [], "parse_coord_off": BAD,
                  "parse_coord_add": BAD, "parse_coord_div": BAD}
    d("habEccExportFields", "List (Nat × Nat × Nat)", "[" + ", ".join(f"({a}, {b}, {c})" for a, b, c in hp_["export_fields"]) + "]",
      "`SrkItemEcc.export`: the bytes packed after the header as (source, shift, mask): byte = (source >> shift) & mask with source "
      "1 = flag, 2 = curve id, 3 = key_size (BITS); source 0 = the constant `shift`")
    d("habEccCoordAdd", "Nat", nat(hp_["coord_add"]), "`SrkItemEcc.__init__`: coordinate_size = (key_size + add) / div")
    d("habEccCoordDiv", "Nat", nat(hp_["coord_div"]))
    d("habEccLenExtra", "Nat", nat(hp_["len_extra"]), "header.length = Header.SIZE + extra + 2 * coordinate_size")
    d("habEccCurveRanges", "List (Nat × Nat × String)", "[" + ", ".join(f"({a}, {b}, {lstr(c)})" for a, b, c in hp_["curve_ranges"]) + "]",
      "`get_ecc_curve(key_size // 8)` as `export` calls it: (lo, hi, curve) runs of key_size; outside: SPSDKError")
    d("habEccParseFlagIdx", "Nat", nat(hp_["parse_flag_idx"]), "`SrkItemEcc.parse`: byte positions read")
    d("habEccParseCurveIdx", "Nat", nat(hp_["parse_curve_idx"]))
    d("habEccParseBitsIdx", "List (Nat × Nat)", lpairs(hp_["parse_bits_idx"]), "key_size = sum of data[i] << shift")
    d("habEccParseCoordOff", "Nat", nat(hp_["parse_coord_off"]))
    d("habEccParseCoordAdd", "Nat", nat(hp_["parse_coord_add"]))
    d("habEccParseCoordDiv", "Nat", nat(hp_["parse_coord_div"]))
    e = enum_tags(t, "SegTag")
    d("habTagCrt", "Nat", nat(e.get("CRT")))

    # ---------------- DAT
    t = parse(DAT)
    f = _fun(_cls(t, "RotMetaRSA"), "load_from_config")
    el = BAD
    if f:
        for n in ast.walk(f):
            if isinstance(n, ast.keyword) and n.arg == "exp_length":
                el = cev(t, n.value, "RotMetaRSA", f, BAD)
    d("datRsaExpLength", "Nat", nat(el), "RotMetaRSA: `rot.export(exp_length=N)`")
    f = _fun(_cls(t, "RotMetaRSA"), "export")
    tl = BAD
    if f:
        for n in ast.walk(f):
            if isinstance(n, ast.Call) and attr_name(n.func) in ("bytearray", "bytes") and n.args:
                v = cev(t, n.args[0], "RotMetaRSA", f)
                if isinstance(v, int) and not isinstance(v, bool):
                    tl = v
    d("datRsaTableLen", "Nat", nat(tl))
    hs = cval(t, "RotMetaEcc", "HASH_SIZES", {}) or {}
    d("datEccHashSizes", "List (Nat × Nat)", lpairs(sorted((k, v) for k, v in hs.items() if isinstance(k, int) and isinstance(v, int))))
    f = _fun(_cls(t, "RotMetaFlags"), "export")
    pdf = probe_dat_flags(f)
    meta["dat_flags_mode"] = "probed (semantic)" if pdf else "syntactic fallback"
    if pdf:
        al, us, cs_ = pdf
    else:
        sh = shifts_in(f)
        al, us, cs_ = next((k for txt, k in sh if txt == "1"), BAD), shift_of(f, "used_root_cert"), shift_of(f, "cnt_root_cert")
    d("datFlagsAlwaysBit", "Nat", nat(al))
    d("datFlagsUsedShift", "Nat", nat(us))
    d("datFlagsCountShift", "Nat", nat(cs_))

    out.append("")
    out.append("end SpsdkVerif.Generated.RotTypes")
    emit("RotTypes", "\n".join(out) + "\n", meta)


def _isk_curves(cf):
    """[(bit, curve name)] of `if self.isk_cert.curve == "name": self.flags |= 1 << k`"""
    res = []
    if cf is None:
        return res
    for n in ast.walk(cf):
        if isinstance(n, ast.If) and "curve ==" in ast.unparse(n.test):
            nm = [c.value for c in ast.walk(n.test) if isinstance(c, ast.Constant) and isinstance(c.value, str)]
            ks = [k for txt, k in shifts_in(n) if txt == "1"]
            if nm and ks:
                res.append((n.lineno, ks[0], nm[0]))
    res.sort()
    return [(b, c) for _, b, c in res]


def enum_tags_2(tree, clsname):
    """SpsdkEnum members written as `NAME = (tag, "description")`"""
    return enum_tags(tree, clsname)


GENERATORS = {"RotTypes": gen_RotTypes}
