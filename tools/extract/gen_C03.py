"""C03 generator: Generated/RotTypes.lean from the CURRENT sources + database YAMLs (pure `ast` / YAML reading).

Emits plain `def`s (namespace SpsdkVerif.Generated.RotTypes):
  * `rotRows`        – (family, revision, latest, cert_block.rot_type, isk_data_limit, isk_data_alignment) for every
                       device that declares the `cert_block` feature, after the defaults / alias / revision
                       resolution of `spsdk/utils/database.py::Device.load/_load_alias` (re-implemented here on the
                       YAML files; the harness cross-checks every row against the live `get_db`),
  * `rotClassTypes`  – `rot_type` of the `RotBase` subclasses (dispatch of `Rot.get_rot_class`), `pfrRkhtTypes` – the
                       dict of `BaseConfigArea.get_cert_block_class`,
  * rkht.py          – table geometry (`RKHT_SIZE`, `RKH_SIZE`, max 4 hashes), the RSA hash name, the EC hash label,
  * cert_blocks.py   – struct formats / magic of `CertBlockHeader` (v1) and `CertificateBlockHeader` (v2.1), default
                       alignment, the flag bit positions written by `RootKeyRecord._calculate_flags` /
                       `IskCertificate._calculate_flags`, the masks / shifts / tables read by `RootKeyRecord.parse`,
                       `get_hash_algorithm`, `IskCertificate.parse` (incl. the "no offset" magic),
  * ahab_srk.py / ahab_data.py – tags, algorithm codes, key-size codes and parameter lengths, CA mask, table versions
                       and hash algorithms, record count,
  * secret.py / header.py      – HAB tags, algorithm ids, curve ids, pack formats,
  * debug_credential.py        – RotMetaRSA exponent length and table length, RotMetaEcc.HASH_SIZES, RotMetaFlags bits.
Anything that cannot be found is emitted as the impossible value 999999 (or ""), so that the agreement theorems
of Properties/C03.lean stop compiling instead of silently keeping an old value.
"""
from __future__ import annotations

import ast
import copy
import os

from extract import REPO, emit, parse

RKHT = "spsdk/utils/crypto/rkht.py"
CB = "spsdk/utils/crypto/cert_blocks.py"
ROT = "spsdk/utils/crypto/rot.py"
PFR = "spsdk/pfr/pfr.py"
DAT = "spsdk/dat/debug_credential.py"
SRK = "spsdk/image/ahab/ahab_srk.py"
AHD = "spsdk/image/ahab/ahab_data.py"
SEC = "spsdk/image/secret.py"
HDR = "spsdk/image/header.py"
BAD = 999999


# ----------------------------------------------------------------------------------------------- ast helpers
def _cls(tree, name):
    for n in ast.walk(tree):
        if isinstance(n, ast.ClassDef) and n.name == name:
            return n
    return None


def _fun(node, name):
    if node is None:
        return None
    for n in ast.walk(node):
        if isinstance(n, (ast.FunctionDef, ast.AsyncFunctionDef)) and n.name == name:
            return n
    return None


def fold(node):
    """Constant folding of int expressions (literals, << >> | & + - *); None if not constant."""
    if isinstance(node, ast.Constant) and isinstance(node.value, int) and not isinstance(node.value, bool):
        return node.value
    if isinstance(node, ast.BinOp):
        a, b = fold(node.left), fold(node.right)
        if a is None or b is None:
            return None
        ops = {ast.LShift: lambda: a << b, ast.RShift: lambda: a >> b, ast.BitOr: lambda: a | b, ast.BitAnd: lambda: a & b,
               ast.Add: lambda: a + b, ast.Sub: lambda: a - b, ast.Mult: lambda: a * b}
        f = ops.get(type(node.op))
        return f() if f else None
    return None


def class_attr(tree, cls, attr):
    c = _cls(tree, cls)
    if c is None:
        return None
    for st in c.body:
        tgt = val = None
        if isinstance(st, ast.Assign) and len(st.targets) == 1 and isinstance(st.targets[0], ast.Name):
            tgt, val = st.targets[0].id, st.value
        elif isinstance(st, ast.AnnAssign) and isinstance(st.target, ast.Name) and st.value is not None:
            tgt, val = st.target.id, st.value
        if tgt == attr:
            return val
    return None


def lit(node, default=None):
    if node is None:
        return default
    try:
        return ast.literal_eval(node)
    except (ValueError, SyntaxError):
        v = fold(node)
        return default if v is None else v


def attr_name(node):
    """`A.B.C` -> 'C', Name -> id, Constant -> value"""
    if isinstance(node, ast.Attribute):
        return node.attr
    if isinstance(node, ast.Name):
        return node.id
    if isinstance(node, ast.Constant):
        return node.value
    return None


def dict_pairs(node):
    """dict literal -> [(key, value)] with keys/values folded to int or trailing attribute name."""
    out = []
    if not isinstance(node, ast.Dict):
        return out
    for k, v in zip(node.keys, node.values):
        kk = lit(k) if lit(k) is not None else attr_name(k)
        vv = lit(v) if lit(v) is not None else attr_name(v)
        out.append((kk, vv))
    return out


def enum_tags(tree, clsname):
    c = _cls(tree, clsname)
    out = {}
    if c is None:
        return out
    for st in c.body:
        if isinstance(st, ast.Assign) and len(st.targets) == 1 and isinstance(st.targets[0], ast.Name) and isinstance(st.value, ast.Tuple):
            v = lit(st.value.elts[0]) if st.value.elts else None
            if isinstance(v, int):
                out[st.targets[0].id] = v
    return out


def shifts_in(fn):
    """every `X << N` (N constant) in a function, in source order: [(text of X, N)]"""
    out = []
    if fn is None:
        return out
    for n in ast.walk(fn):
        if isinstance(n, ast.BinOp) and isinstance(n.op, ast.LShift):
            k = fold(n.right)
            if k is not None:
                out.append((ast.unparse(n.left), k, n.lineno, n.col_offset))
    out.sort(key=lambda t: (t[2], t[3]))
    return [(a, b) for a, b, _, _ in out]


def shift_of(fn, needle):
    for txt, k in shifts_in(fn):
        if needle in txt:
            return k
    return BAD


def if_bit(fn, needle):
    """`if <test mentioning needle>: flags |= 1 << K` -> K (first match)"""
    if fn is None:
        return BAD
    for n in ast.walk(fn):
        if isinstance(n, ast.If) and needle in ast.unparse(n.test):
            for txt, k in shifts_in(n):
                if txt == "1":
                    return k
    return BAD


def if_strings(fn, needle, which):
    """string list of the `which`-th `if ... in [..]` whose test mentions needle"""
    if fn is None:
        return []
    hits = []
    for n in ast.walk(fn):
        if isinstance(n, ast.If) and needle in ast.unparse(n.test):
            strs = [c.value for c in ast.walk(n.test) if isinstance(c, ast.Constant) and isinstance(c.value, str)]
            hits.append((n.lineno, strs))
    hits.sort()
    return hits[which][1] if which < len(hits) else []


def mask_shift(fn, target):
    """`target = (flags & MASK) >> SHIFT` or `target = flags & MASK` -> (MASK, SHIFT)"""
    if fn is None:
        return (BAD, BAD)
    for n in ast.walk(fn):
        if isinstance(n, ast.Assign) and len(n.targets) == 1 and attr_name(n.targets[0]) == target:
            v = n.value
            if isinstance(v, ast.Call) and v.args:  # bool(x & MASK)
                v = v.args[0]
            sh = 0
            if isinstance(v, ast.BinOp) and isinstance(v.op, ast.RShift):
                sh = fold(v.right)
                v = v.left
            if isinstance(v, ast.BinOp) and isinstance(v.op, ast.BitAnd):
                m = fold(v.right)
                if m is None:
                    m = fold(v.left)
                return (BAD if m is None else m, BAD if sh is None else sh)
    return (BAD, BAD)


def first_dict_in(fn, nth=0):
    ds = [n for n in ast.walk(fn)] if fn is not None else []
    ds = sorted([n for n in ds if isinstance(n, ast.Dict)], key=lambda n: (n.lineno, n.col_offset))
    return dict_pairs(ds[nth]) if nth < len(ds) else []


def fmt_widths(fmt):
    """struct format -> (little_endian, [field widths in bytes]); `4s` is one field of 4 bytes"""
    if not isinstance(fmt, str) or not fmt:
        return (True, [BAD])
    little = fmt[0] != ">"
    body = fmt[1:] if fmt[0] in "<>=!@" else fmt
    sizes = {"B": 1, "b": 1, "H": 2, "h": 2, "I": 4, "i": 4, "L": 4, "l": 4, "Q": 8, "q": 8}
    out, num = [], ""
    for ch in body:
        if ch.isdigit():
            num += ch
        elif ch == "s":
            out.append(int(num or "1"))
            num = ""
        elif ch in sizes:
            out += [sizes[ch]] * int(num or "1")
            num = ""
        else:
            return (little, [BAD])
    return (little, out)


def probe_method(fn, make_self):
    """Evaluate a small, self-contained method SEMANTICALLY: compile the FunctionDef alone (no imports, no spsdk), call it with a stub
    `self`.  Returns a callable(args) -> (result, self) or None if the body needs anything but builtins.  Used so that constants such
    as flag bit positions survive behaviour-preserving rewrites of the source (`1 << 31` -> `0x80000000`, `x << 8` -> `x * 256`)."""
    if fn is None:
        return None
    try:
        mod = ast.Module(body=[copy.deepcopy(fn)], type_ignores=[])
        for d in mod.body:
            d.decorator_list = []
            d.returns = None
            for a in d.args.args + d.args.kwonlyargs:
                a.annotation = None
        ast.fix_missing_locations(mod)
        ns = {"__builtins__": {"len": len, "bool": bool, "int": int, "True": True, "False": False, "None": None, "isinstance": isinstance,
                               "Exception": Exception, "ValueError": ValueError}}

        class _Err(Exception):
            pass
        ns["SPSDKError"] = _Err
        exec(compile(mod, "<probe>", "exec"), ns)  # noqa: S102  (the extracted function body only; stub globals)
        f = ns[fn.name]

        def call(*a, **kw):
            obj = make_self(*a, **kw)
            return f(obj), obj
        return call
    except Exception:  # noqa: BLE001
        return None


def _log2_exact(v):
    return v.bit_length() - 1 if isinstance(v, int) and v > 0 and v & (v - 1) == 0 else BAD


def probe_rkr_flags(cf):
    """(caBit, usedShift, countShift, [(bit, [curve names])]) of RootKeyRecord._calculate_flags by probing, or None"""
    from types import SimpleNamespace as NS
    call = probe_method(cf, lambda ca, used, n, curve: NS(ca_flag=ca, used_root_cert=used, root_certs=[NS(curve=curve)] * n))
    if call is None:
        return None
    try:
        base = call(False, 0, 1, "none")[0]
        ca = _log2_exact(call(True, 0, 1, "none")[0] - base)
        used = _log2_exact(call(False, 1, 1, "none")[0] - base)
        cnt = _log2_exact(call(False, 0, 2, "none")[0] - base)
        names = sorted({c.value for c in ast.walk(cf) if isinstance(c, ast.Constant) and isinstance(c.value, str) and len(c.value) < 16},
                       key=lambda x: x)
        by_bit = {}
        for nm in names:
            dv = call(False, 0, 1, nm)[0] - base
            if dv:
                by_bit.setdefault(_log2_exact(dv), []).append(nm)
        # linearity check on a few more points (the probe must describe the function, not two samples of it)
        for u in (0, 3, 15):
            for n in (1, 4):
                if call(True, u, n, "none")[0] != (1 << ca) | (u << used) | (n << cnt):
                    return None
        return ca, used, cnt, sorted(by_bit.items())
    except Exception:  # noqa: BLE001
        return None


def probe_isk_flags(cf):
    """(userDataBit, [(bit, curve name)]) of IskCertificate._calculate_flags by probing, or None"""
    from types import SimpleNamespace as NS
    call = probe_method(cf, lambda ud, curve: NS(flags=0, user_data=ud, isk_cert=NS(curve=curve)))
    if call is None:
        return None
    try:
        base = call(b"", "none")[1].flags
        udb = _log2_exact(call(b"x", "none")[1].flags - base)
        names = sorted({c.value for c in ast.walk(cf) if isinstance(c, ast.Constant) and isinstance(c.value, str) and len(c.value) < 16})
        curves = []
        for nm in names:
            dv = call(b"", nm)[1].flags - base
            if dv:
                curves.append((_log2_exact(dv), nm))
        return udb, sorted(curves)
    except Exception:  # noqa: BLE001
        return None


# ----------------------------------------------------------------------------------------------- database
def deep_update(d, u):
    for k, v in u.items():
        if isinstance(v, dict):
            d[k] = deep_update(d.get(k, {}) if isinstance(d.get(k), dict) else {}, v)
        else:
            d[k] = v
    return d


def load_rows():
    import yaml
    data = REPO / "spsdk" / "data"
    defaults = yaml.safe_load((data / "common" / "database_defaults.yaml").read_text(encoding="utf-8"))
    cfgs = {}
    for d in sorted(os.listdir(data / "devices")):
        p = data / "devices" / d / "database.yaml"
        if p.exists():
            cfgs[d] = yaml.safe_load(p.read_text(encoding="utf-8")) or {}
    cache = {}

    def load(name, depth=0):
        """-> (latest, {rev: features})  mirroring Device.load / Device._load_alias"""
        if name in cache:
            return cache[name]
        cfg = cfgs[name]
        if cfg.get("alias"):
            if depth > 8:
                raise RuntimeError("alias loop")
            latest, revs = copy.deepcopy(load(cfg["alias"], depth + 1))
            latest = cfg.get("latest", latest)
            feats = cfg.get("features") or {}
            if feats:
                for r in revs.values():
                    deep_update(r, copy.deepcopy(feats))
            for rn, ru in (cfg.get("revisions") or {}).items():
                ru = ru or {}
                if rn not in revs:
                    revs[rn] = copy.deepcopy(revs[ru["alias"]])
                if ru.get("features"):
                    deep_update(revs[rn], copy.deepcopy(ru["features"]))
        else:
            dev_features = copy.deepcopy(cfg.get("features") or {})
            fdef = copy.deepcopy(defaults["features"])
            for fn in dev_features:
                deep_update(fdef[fn], dev_features[fn] or {})
                dev_features[fn] = fdef[fn]
            latest = cfg["latest"]
            revs = {}
            for rn, ru in (cfg.get("revisions") or {}).items():
                f = copy.deepcopy(dev_features)
                if ru and ru.get("features"):
                    deep_update(f, copy.deepcopy(ru["features"]))
                revs[rn] = f
        cache[name] = (latest, revs)
        return cache[name]

    rows = []
    for name in sorted(cfgs):
        try:
            latest, revs = load(name)
        except Exception:  # noqa: BLE001  (a broken YAML entry is reported by the run-time cross-check)
            continue
        for rn in sorted(revs):
            cbf = revs[rn].get("cert_block")
            if not isinstance(cbf, dict) or "rot_type" not in cbf:
                continue
            rows.append((name, str(rn), rn == latest, str(cbf["rot_type"]), int(cbf.get("isk_data_limit", BAD)),
                         int(cbf.get("isk_data_alignment", BAD))))
    return rows


# ----------------------------------------------------------------------------------------------- emit
def lstr(s):
    return '"' + str(s).replace("\\", "\\\\").replace('"', '\\"') + '"'


def lnats(xs):
    return "[" + ", ".join(str(int(x)) for x in xs) + "]"


def lpairs(ps, f=lambda v: str(int(v))):
    return "[" + ", ".join(f"({int(k)}, {f(v)})" for k, v in ps) + "]"


def lbytes(b):
    return "[" + ", ".join(str(x) for x in bytes(b)) + "]"


def gen_RotTypes():
    meta = {"sources": [RKHT, CB, ROT, PFR, DAT, SRK, AHD, SEC, HDR, "spsdk/data/devices/*/database.yaml"]}
    out = ["import SpsdkVerif.Base.Py", "", "namespace SpsdkVerif.Generated.RotTypes", ""]

    def d(name, typ, val, doc=None):
        if doc:
            out.append(f"/-- {doc} -/")
        out.append(f"def {name} : {typ} := {val}")
        meta.setdefault("defs", {})[name] = val if len(str(val)) < 200 else str(val)[:200] + "…"

    def nat(v):
        return str(BAD if v is None or not isinstance(v, int) or isinstance(v, bool) or v < 0 else v)

    def pat(name, flag, doc=None):
        """source-text patterns: informational only (evidence/meta) - never referenced by a theorem, so that a
        behaviour-preserving rewrite of the statement cannot raise an alarm; the behaviour itself is checked by
        the correspondence and oracle streams."""
        meta.setdefault("source_patterns", {})[name] = bool(flag)

    # ---------------- database rows
    rows = load_rows()
    out.append("structure RotRow where\n  family : String\n  revision : String\n  latest : Bool\n  rotType : String\n"
               "  iskLimit : Nat\n  iskAlign : Nat\n  deriving Repr, DecidableEq\n")
    body = ",\n  ".join(f"⟨{lstr(f)}, {lstr(r)}, {'true' if l else 'false'}, {lstr(t)}, {il}, {ia}⟩" for f, r, l, t, il, ia in rows)
    out.append("/-- `cert_block` feature of every (family, revision) that declares it -/")
    out.append(f"def rotRows : List RotRow := [\n  {body}]\n")
    meta["rows"] = len(rows)
    meta["rot_types"] = sorted({t for _, _, _, t, _, _ in rows})

    # ---------------- rot.py / pfr.py
    t = parse(ROT)
    rot_classes = []
    for c in [n for n in t.body if isinstance(n, ast.ClassDef)]:
        if any(attr_name(b) == "RotBase" for b in c.bases):
            v = lit(class_attr(t, c.name, "rot_type"))
            if isinstance(v, str):
                rot_classes.append((c.name, v))
    d("rotClassTypes", "List (String × String)", "[" + ", ".join(f"({lstr(a)}, {lstr(b)})" for a, b in rot_classes) + "]",
      "RotBase subclasses in definition order: (class, rot_type)")
    t = parse(PFR)
    f = _fun(t, "get_cert_block_class")
    pairs = first_dict_in(f)
    d("pfrRkhtTypes", "List (String × String)", "[" + ", ".join(f"({lstr(a)}, {lstr(b)})" for a, b in pairs) + "]",
      "BaseConfigArea.get_cert_block_class: rot_type -> RKHT class")
    f = _fun(t, "_calc_rotkh")
    src = ast.unparse(f) if f else ""
    pat("pfrLjustZero", "ljust(reg_rotkh.width // 8, b'\\x00')" in src)
    pat("pfrWidthGuard", "rkht.hash_algorithm_size > reg_rotkh.width" in src)

    # ---------------- rkht.py
    t = parse(RKHT)
    d("rkhtV1Slots", "Nat", nat(lit(class_attr(t, "RKHTv1", "RKHT_SIZE"))))
    d("rkhV1Size", "Nat", nat(lit(class_attr(t, "RKHTv1", "RKH_SIZE"))))
    init = _fun(_cls(t, "RKHT"), "__init__")
    mx = BAD
    if init:
        for n in ast.walk(init):
            if isinstance(n, ast.Compare) and len(n.ops) == 1 and isinstance(n.ops[0], ast.Gt) and "len(rkh_list)" in ast.unparse(n.left):
                mx = fold(n.comparators[0])
    d("rkhtMaxKeys", "Nat", nat(mx), "RKHT.__init__: `len(rkh_list) > N` is refused")
    gha = _fun(_cls(t, "RKHT"), "_get_hash_algorithm")
    src = ast.unparse(gha) if gha else ""
    pat("eccHashLabelIsShaKeySize", "from_label(f'sha{key.key_size}')" in src)
    rsa_alg = ""
    if gha:
        for n in ast.walk(gha):
            if isinstance(n, ast.If) and "PublicKeyRsa" in ast.unparse(n.test):
                for r in ast.walk(n):
                    if isinstance(r, ast.Return) and r.value is not None:
                        rsa_alg = str(attr_name(r.value)).lower()
    d("rsaHashName", "String", lstr(rsa_alg))
    ckh = _fun(_cls(t, "RKHT"), "_calc_key_hash")
    src = ast.unparse(ckh) if ckh else ""
    pat("keyHashOrderN2N1", "get_hash(n2_bytes + n1_bytes" in src)
    pat("keyHashRsaN1IsE", "n_1 = public_key.e" in src and "n_2 = public_key.n" in src)
    pat("keyHashEccN1IsY", "n_1 = public_key.y" in src and "n_2 = public_key.x" in src)

    # ---------------- cert_blocks.py
    t = parse(CB)
    fmt = lit(class_attr(t, "CertBlockHeader", "FORMAT"), "")
    le, ws = fmt_widths(fmt)
    d("cbV1HeaderFormat", "String", lstr(fmt))
    pat("cbV1HeaderLittle", le)
    d("cbV1HeaderWidths", "List Nat", lnats(ws))
    d("cbV1Signature", "List UInt8", lbytes(lit(class_attr(t, "CertBlockHeader", "SIGNATURE"), b"")))
    d("cbV1Alignment", "Nat", nat(lit(class_attr(t, "CertBlockV1", "DEFAULT_ALIGNMENT"))))
    exp = _fun(_cls(t, "CertBlockHeader"), "export")
    order = []
    if exp:
        for n in ast.walk(exp):
            if isinstance(n, ast.Call) and attr_name(n.func) == "pack":
                order = [ast.unparse(a) for a in n.args[1:]]
    meta["cbV1HeaderOrder"] = order   # informational: argument names of the header `pack` (local names may be renamed freely)
    v1p = _fun(_cls(t, "CertBlockV1"), "parse")
    src = ast.unparse(v1p) if v1p else ""
    pat("cbV1ParseRestoresImageLength", "image_length = header.image_length" in src)
    v1e = _fun(_cls(t, "CertBlockV1"), "export")
    src = ast.unparse(v1e) if v1e else ""
    pat("cbV1CertLenIsLE32", "pack('<I', cert.raw_size)" in src)

    fmt = lit(class_attr(t, "CertificateBlockHeader", "FORMAT"), "")
    le, ws = fmt_widths(fmt)
    d("cbV21HeaderFormat", "String", lstr(fmt))
    pat("cbV21HeaderLittle", le)
    d("cbV21HeaderWidths", "List Nat", lnats(ws))
    d("cbV21Magic", "List UInt8", lbytes(lit(class_attr(t, "CertificateBlockHeader", "MAGIC"), b"")))
    exp = _fun(_cls(t, "CertificateBlockHeader"), "export")
    order = []
    if exp:
        for n in ast.walk(exp):
            if isinstance(n, ast.Call) and attr_name(n.func) == "pack":
                order = [ast.unparse(a) for a in n.args[1:]]
    meta["cbV21HeaderOrder"] = order

    rkr = _cls(t, "RootKeyRecord")
    cf = _fun(rkr, "_calculate_flags")
    pr = probe_rkr_flags(cf)
    meta["rkr_flags_mode"] = "probed (semantic)" if pr else "syntactic fallback"
    if pr:
        ca_b, used_s, cnt_s, curve_bits = pr
    else:
        ca_b, used_s, cnt_s = if_bit(cf, "ca_flag"), shift_of(cf, "used_root_cert"), shift_of(cf, "len(self.root_certs)")
        names0, names1 = if_strings(cf, "curve", 0), if_strings(cf, "curve", 1)
        bits = [k for txt, k in shifts_in(cf) if txt == "1"]
        curve_bits = list(zip(bits[-2:], (sorted(names0), sorted(names1))))     # the two curve `if`s are the last two `1 << k`
    d("rkrCaBit", "Nat", nat(ca_b))
    d("rkrUsedShift", "Nat", nat(used_s))
    d("rkrCountShift", "Nat", nat(cnt_s))
    d("rkrCurveBits", "List (Nat × List String)",
      "[" + ", ".join(f"({nat(b)}, [" + ", ".join(lstr(s) for s in ns) + "])" for b, ns in curve_bits) + "]",
      "curve names that set flag bit k in `RootKeyRecord._calculate_flags` (names sorted)")
    pf = _fun(rkr, "parse")
    m, s = mask_shift(pf, "ca_flag")
    d("rkrParseCaMask", "Nat", nat(m))
    m, s = mask_shift(pf, "used_rot_ix")
    d("rkrParseUsedMask", "Nat", nat(m))
    d("rkrParseUsedShift", "Nat", nat(s))
    m, s = mask_shift(pf, "number_of_hashes")
    d("rkrParseCountMask", "Nat", nat(m))
    d("rkrParseCountShift", "Nat", nat(s))
    d("rkrParseHashLen", "List (Nat × Nat)", lpairs(first_dict_in(pf)), "`rotkh_len = {..}[flags & 0xF]`")
    curve_mask = BAD
    if pf:
        for n in ast.walk(pf):
            if isinstance(n, ast.Subscript) and isinstance(n.value, ast.Dict):
                sl = n.slice
                if isinstance(sl, ast.BinOp) and isinstance(sl.op, ast.BitAnd):
                    curve_mask = fold(sl.right)
    d("rkrParseCurveMask", "Nat", nat(curve_mask))
    gh = _fun(rkr, "get_hash_algorithm")
    d("rkrHashAlg", "List (Nat × String)", lpairs(first_dict_in(gh), lambda v: lstr(str(v).lower())),
      "`RootKeyRecord.get_hash_algorithm`: `{..}[flags & 0xF]`")
    src = ast.unparse(pf) if pf else ""
    pat("rkrParseTableIfMoreThanOne", "if number_of_hashes > 1" in src)
    rexp = _fun(_cls(t, "RKHTv21"), "export") if False else _fun(_cls(parse(RKHT), "RKHTv21"), "export")
    src = ast.unparse(rexp) if rexp else ""
    pat("rkhtV21ExportIfMoreThanOne", "if len(self.rkh_list) > 1" in src)

    isk = _cls(t, "IskCertificate")
    cf = _fun(isk, "_calculate_flags")
    pi = probe_isk_flags(cf)
    meta["isk_flags_mode"] = "probed (semantic)" if pi else "syntactic fallback"
    ud_bit, isk_curves = pi if pi else (if_bit(cf, "user_data"), _isk_curves(cf))
    d("iskUserDataBit", "Nat", nat(ud_bit))
    d("iskCurveBits", "List (Nat × String)",
      "[" + ", ".join(f"({nat(b)}, {lstr(nm)})" for b, nm in isk_curves) + "]")
    pf = _fun(isk, "parse")
    magic = sigoff = BAD
    if pf:
        for n in ast.walk(pf):
            if isinstance(n, ast.If) and "signature_offset & " in ast.unparse(n.test):
                for c in ast.walk(n.test):
                    if isinstance(c, ast.Compare):
                        magic = fold(c.comparators[0])
                for a in ast.walk(n):
                    if isinstance(a, ast.Assign) and attr_name(a.targets[0]) == "signature_offset":
                        sigoff = fold(a.value)
    d("iskNoOffsetMagic", "Nat", nat(magic))
    d("iskNoOffsetSigOffset", "Nat", nat(sigoff))
    m, s = mask_shift(pf, "user_data_flag")
    d("iskParseUserDataMask", "Nat", nat(m))
    d("iskParseKeyLen", "List (Nat × Nat)", lpairs(first_dict_in(pf)))
    sg = _fun(isk, "create_isk_signature")
    src = ast.unparse(sg) if sg else ""
    pat("iskSignedLayoutWithOffset", "data = key_record_data + pack('<3L', self.signature_offset, self.constraints, self.flags)" in src
      and "data += self.isk_public_key_data + self.user_data" in src)
    pat("iskSignedLayoutNoOffset", "data = key_record_data + pack('<2L', self.constraints, self.flags)" in src)

    # ---------------- IskCertificateLite / CertBlockVx (MC56)
    d("liteMagic", "Nat", nat(lit(class_attr(t, "IskCertificateLite", "MAGIC"))))
    d("liteVersion", "Nat", nat(lit(class_attr(t, "IskCertificateLite", "VERSION"))))
    fmt = lit(class_attr(t, "IskCertificateLite", "HEADER_FORMAT"), "")
    d("liteHeaderFormat", "String", lstr(fmt))
    d("liteHeaderWidths", "List Nat", lnats(fmt_widths(fmt)[1]))
    d("litePubKeyLength", "Nat", nat(lit(class_attr(t, "IskCertificateLite", "ISK_PUB_KEY_LENGTH"))))
    d("liteSignatureSize", "Nat", nat(lit(class_attr(t, "IskCertificateLite", "ISK_SIGNATURE_SIZE"))))
    d("liteSignatureOffset", "Nat", nat(lit(class_attr(t, "IskCertificateLite", "SIGNATURE_OFFSET"))))
    d("vxCertHashLength", "Nat", nat(lit(class_attr(t, "CertBlockVx", "ISK_CERT_HASH_LENGTH"))))

    # ---------------- AHAB
    t = parse(AHD)
    tags = enum_tags_2(t, "AHABTags")
    d("ahabTagSrkTable", "Nat", nat(tags.get("SRK_TABLE")))
    d("ahabTagSrkRecord", "Nat", nat(tags.get("SRK_RECORD")))
    d("ahabTagSrkData", "Nat", nat(tags.get("SRK_DATA")))
    for ver in ("V1", "V2"):
        e = enum_tags(t, "AHABSignAlgorithm" + ver)
        d(f"ahabSignRsaPss{ver}", "Nat", nat(e.get("RSA_PSS")))
        d(f"ahabSignEcdsa{ver}", "Nat", nat(e.get("ECDSA")))
        e = enum_tags(t, "AHABSignHashAlgorithm" + ver)
        d(f"ahabHashTags{ver}", "List (String × Nat)",
          "[" + ", ".join(f"({lstr(k.lower())}, {v})" for k, v in e.items() if k in ("SHA256", "SHA384", "SHA512")) + "]")
    t = parse(SRK)
    d("ahabEccKeyType", "List (String × Nat)",
      "[" + ", ".join(f"({lstr(str(k).lower())}, {nat(v)})" for k, v in dict_pairs(class_attr(t, "SRKRecordBase", "ECC_KEY_TYPE"))) + "]")
    d("ahabRsaKeyType", "List (Nat × Nat)", lpairs(dict_pairs(class_attr(t, "SRKRecordBase", "RSA_KEY_TYPE"))))
    ks = class_attr(t, "SRKRecordBase", "KEY_SIZES")
    ksl = []
    if isinstance(ks, ast.Dict):
        for k, v in zip(ks.keys, ks.values):
            vv = lit(v)
            if isinstance(vv, tuple) and len(vv) == 2:
                ksl.append((fold(k), vv))
    d("ahabKeySizes", "List (Nat × Nat × Nat)", "[" + ", ".join(f"({k}, {a}, {b})" for k, (a, b) in ksl) + "]")
    d("ahabCaMask", "Nat", nat(lit(class_attr(t, "SRKRecordBase", "FLAGS_CA_MASK"))))
    d("ahabTableVersion", "Nat", nat(lit(class_attr(t, "SRKTable", "VERSION"))))
    d("ahabTableVersionV2", "Nat", nat(lit(class_attr(t, "SRKTableV2", "VERSION"))))
    d("ahabTableHash", "String", lstr(str(attr_name(class_attr(t, "SRKTable", "SRK_HASH_ALGORITHM"))).lower()))
    d("ahabTableHashV2", "String", lstr(str(attr_name(class_attr(t, "SRKTableV2", "SRK_HASH_ALGORITHM"))).lower()))
    d("ahabRecordsCnt", "Nat", nat(lit(class_attr(t, "SRKTable", "SRK_RECORDS_CNT"))))
    d("ahabV2ParamsLen", "Nat", nat(lit(class_attr(t, "SRKRecordV2", "CRYPTO_PARAMS_LEN"))))
    d("ahabSrkDataVersion", "Nat", nat(lit(class_attr(t, "SRKData", "VERSION"))))
    cfk = _fun(_cls(t, "SRKRecordBase"), "create_from_key")
    hp = []
    if cfk:
        for n in ast.walk(cfk):
            if isinstance(n, ast.Dict) and n.keys and all(fold(k) in (256, 384, 521) for k in n.keys):
                hp = [(fold(k), str(attr_name(v)).lower()) for k, v in zip(n.keys, n.values)]
    d("ahabEccHashByBits", "List (Nat × String)", lpairs(hp, lstr))

    # ---------------- HAB
    t = parse(SEC)
    e = enum_tags(t, "EnumSRK")
    d("habTagKeyPublic", "Nat", nat(e.get("KEY_PUBLIC")))
    e = enum_tags(t, "EnumAlgorithm")
    d("habAlgPkcs1", "Nat", nat(e.get("PKCS1")))
    d("habAlgEcdsa", "Nat", nat(e.get("ECDSA")))
    d("habEccKeyType", "List (String × Nat)",
      "[" + ", ".join(f"({lstr(str(k).lower())}, {nat(v)})" for k, v in dict_pairs(class_attr(t, "SrkItemEcc", "ECC_KEY_TYPE"))) + "]")
    src = ast.unparse(_fun(_cls(t, "SrkItemRSA"), "export") or ast.parse("0"))
    pat("habRsaItemPack", "pack('>4B2H', 0, 0, 0, self.flag, len(self.modulus), len(self.exponent))" in src)
    src = ast.unparse(_fun(_cls(t, "SrkItemEcc"), "export") or ast.parse("0"))
    pat("habEccItemPack", "pack('>8B', 0, 0, 0, self.flag, curve_id, 0, self.key_size >> 8 & 255, self.key_size & 255)" in src)
    src = ast.unparse(_fun(_cls(t, "SrkTable"), "export_fuses") or ast.parse("0"))
    pat("habFusesIsHashOfItemHashes", "data += srk.sha256()" in src and "return sha256(data).digest()" in src)
    t = parse(HDR)
    d("habHeaderFormat", "String", lstr(lit(class_attr(t, "Header", "FORMAT"), "")))
    e = enum_tags(t, "SegTag")
    d("habTagCrt", "Nat", nat(e.get("CRT")))

    # ---------------- DAT
    t = parse(DAT)
    f = _fun(_cls(t, "RotMetaRSA"), "load_from_config")
    el = BAD
    if f:
        for n in ast.walk(f):
            if isinstance(n, ast.keyword) and n.arg == "exp_length":
                el = fold(n.value)
    d("datRsaExpLength", "Nat", nat(el), "RotMetaRSA: `rot.export(exp_length=N)`")
    f = _fun(_cls(t, "RotMetaRSA"), "export")
    tl = BAD
    if f:
        for n in ast.walk(f):
            if isinstance(n, ast.Call) and attr_name(n.func) == "bytearray" and n.args:
                tl = fold(n.args[0])
    d("datRsaTableLen", "Nat", nat(tl))
    d("datEccHashSizes", "List (Nat × Nat)", lpairs(dict_pairs(class_attr(t, "RotMetaEcc", "HASH_SIZES"))))
    f = _fun(_cls(t, "RotMetaFlags"), "export")
    sh = shifts_in(f)
    d("datFlagsAlwaysBit", "Nat", nat(next((k for txt, k in sh if txt == "1"), BAD)))
    d("datFlagsUsedShift", "Nat", nat(shift_of(f, "used_root_cert")))
    d("datFlagsCountShift", "Nat", nat(shift_of(f, "cnt_root_cert")))

    out.append("")
    out.append("end SpsdkVerif.Generated.RotTypes")
    emit("RotTypes", "\n".join(out) + "\n", meta)


def _isk_curves(cf):
    """[(bit, curve name)] of `if self.isk_cert.curve == "name": self.flags |= 1 << k`"""
    res = []
    if cf is None:
        return res
    for n in ast.walk(cf):
        if isinstance(n, ast.If) and "curve ==" in ast.unparse(n.test):
            nm = [c.value for c in ast.walk(n.test) if isinstance(c, ast.Constant) and isinstance(c.value, str)]
            ks = [k for txt, k in shifts_in(n) if txt == "1"]
            if nm and ks:
                res.append((n.lineno, ks[0], nm[0]))
    res.sort()
    return [(b, c) for _, b, c in res]


def enum_tags_2(tree, clsname):
    """SpsdkEnum members written as `NAME = (tag, "description")`"""
    return enum_tags(tree, clsname)


GENERATORS = {"RotTypes": gen_RotTypes}
