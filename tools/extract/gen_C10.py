"""C10 generator: Generated/MbootConsts.lean from the CURRENT mboot sources (pure `ast` reading).

Emits plain `def`s (namespace SpsdkVerif.Generated.MbootConsts):
  * serial framing constants (start byte, not-ready list, dummy-byte limit, FPType members),
  * CommandTag / ResponseTag / CommandFlag / ReportId members, the status codes and the property tag the
    host state machine refers to, DEFAULT_MAX_PACKET_SIZE,
  * the response-class table of `parse_cmd_response`,
  * every struct format literal of the codec functions (as endianness + field widths),
  * the CRC-16/XMODEM parameters of `CRC_ALGORITHMS`,
  * the constants of `_clamp_down_memory_id` and of the data-phase / chunk-loop decisions that are
    plain comparisons against enum members.
`Properties/C10.lean` proves that they agree with the protocol constants the model and the reference
device are written with (`Spec`), so a changed source constant stops a theorem from compiling.
"""
from __future__ import annotations

import ast
import re

from consteval import ModuleEnv, NotConst, norm_struct
from extract import emit, parse

SER = "spsdk/mboot/protocol/serial_protocol.py"
BULK = "spsdk/mboot/protocol/bulk_protocol.py"
CMD = "spsdk/mboot/commands.py"
ERR = "spsdk/mboot/error_codes.py"
PROP = "spsdk/mboot/properties.py"
MCU = "spsdk/mboot/mcuboot.py"
CRC = "spsdk/crypto/crc.py"


def _cls(tree, name):
    for n in ast.walk(tree):
        if isinstance(n, ast.ClassDef) and n.name == name:
            return n
    return None


def _fun(node, name):
    for n in ast.walk(node):
        if isinstance(n, (ast.FunctionDef, ast.AsyncFunctionDef)) and n.name == name:
            return n
    return None


_ENVS = {}


def _env(tree):
    if id(tree) not in _ENVS:
        _ENVS[id(tree)] = ModuleEnv(tree)
    return _ENVS[id(tree)]


def _simple_assign(st):
    """(name, value node) of `NAME = v` / `NAME: T = v` statements"""
    if isinstance(st, ast.Assign) and len(st.targets) == 1 and isinstance(st.targets[0], ast.Name):
        return st.targets[0].id, st.value
    if isinstance(st, ast.AnnAssign) and isinstance(st.target, ast.Name) and st.value is not None:
        return st.target.id, st.value
    return None, None


def _ev(tree, node, cls=None, local=None):
    """value of a constant expression (by value, through consteval); raises NotConst"""
    return _env(tree).eval(node, cls=cls, local=local)


def enum_members(tree, clsname, sort=False):
    """[(NAME, tag)] of an SpsdkEnum class whose members are `NAME = (<int expr>, "label", ...)`, evaluated by value.

    `sort=True` for enums the code only looks members up in (order is not behaviour): emitted sorted by (tag, name)."""
    c = _cls(tree, clsname)
    out = []
    if c is None:
        return out
    for st in c.body:
        name, val = _simple_assign(st)
        if name and isinstance(val, ast.Tuple) and val.elts:
            try:
                v = _ev(tree, val.elts[0], cls=clsname)
            except NotConst:
                continue
            if isinstance(v, int) and not isinstance(v, bool):
                out.append((name, v))
    return sorted(out, key=lambda q: (q[1], q[0])) if sort else out


def class_consts(tree, clsname):
    """class-level constants by value"""
    c = _cls(tree, clsname)
    out = {}
    if c is None:
        return out
    for st in c.body:
        name, val = _simple_assign(st)
        if name:
            try:
                out[name] = _ev(tree, val, cls=clsname)
            except NotConst:
                pass
    return out


def local_nodes(fn):
    """simple local assignments of a function: name -> value node (last one wins)"""
    out = {}
    for n in ast.walk(fn) if fn is not None else []:
        name, val = _simple_assign(n)
        if name:
            out[name] = val
    return out


def fmt_literals(fn, tree=None, clsname=None):
    """struct format strings used in calls to pack/unpack/unpack_from inside `fn`: evaluated by value where the argument is a
    name / class constant, f-strings rendered with `{}` for the interpolated part; returned as a SORTED SET of normalised
    spellings (statement order and the spelling of a format are not behaviour)."""
    out = set()
    if fn is None:
        return []
    loc = local_nodes(fn)
    for n in ast.walk(fn):
        if not isinstance(n, ast.Call):
            continue
        f = n.func
        name = f.attr if isinstance(f, ast.Attribute) else f.id if isinstance(f, ast.Name) else None
        if name in ("pack", "unpack", "unpack_from", "calcsize", "iter_unpack") and n.args:
            a = n.args[0]
            if isinstance(a, ast.Name) and a.id in loc:
                a = loc[a.id]
            if isinstance(a, ast.JoinedStr):
                txt = ""
                for v in a.values:
                    txt += v.value if isinstance(v, ast.Constant) else "{}"
                out.add(txt)
            else:
                try:
                    v = _ev(tree, a, cls=clsname) if tree is not None else ast.literal_eval(a)
                except (NotConst, ValueError, SyntaxError):
                    continue
                if isinstance(v, str):
                    out.add(v)
    return sorted(out, key=lambda x: str(fmt_to_lean(x)))


_W = {"B": 1, "b": 1, "H": 2, "h": 2, "I": 4, "i": 4, "L": 4, "l": 4, "Q": 8, "q": 8}


def fmt_to_lean(fmt):
    """'<BBHH{}B' -> (endian, fixed widths, width of the repeated tail item or 0)."""
    end = "native"
    s = fmt
    if s[:1] in "<>=!@":
        end = {"<": "little", ">": "big", "!": "big", "=": "native", "@": "native"}[s[0]]
        s = s[1:]
    widths, var = [], 0
    for m in re.finditer(r"(\d+|\{\})?([A-Za-z])", s):
        cnt, ch = m.group(1), m.group(2)
        if ch not in _W:
            return None
        if cnt == "{}":
            var = _W[ch]
        else:
            widths += [_W[ch]] * (int(cnt) if cnt else 1)
    return end, widths, var


def lean_fmt(fmt):
    r = fmt_to_lean(fmt)
    if r is None:
        return "⟨.native, [], 999⟩"
    end, widths, var = r
    if max(widths + [var]) <= 1:
        end = "native"  # byte fields only: the byte order prefix is not behaviour
    return f"⟨.{end}, [{', '.join(map(str, widths))}], {var}⟩"


def _key_value(tree, node, enum_name, members):
    """value of a table key: `Enum.MEMBER.tag` / `Enum.MEMBER` through the enum, anything else by constant evaluation"""
    ea = _enum_attr(node)
    if ea and ea[0] == enum_name and ea[1] in members:
        return members[ea[1]]
    try:
        v = _ev(tree, node)
    except NotConst:
        return None
    return v if isinstance(v, int) and not isinstance(v, bool) else None


def find_enum_keyed_table(tree, fn, enum_name, members):
    """[(key value, class name)] of the dict `{Enum.X.tag: SomeClass, ...}` a function uses: a dict literal inside the function, or a
    module-/class-level table (plain or annotated assignment) whose name the function refers to."""
    if fn is None:
        return []
    cands = [n for n in ast.walk(fn) if isinstance(n, ast.Dict)]
    used = {n.id for n in ast.walk(fn) if isinstance(n, ast.Name)} | {n.attr for n in ast.walk(fn) if isinstance(n, ast.Attribute)}
    for n in ast.walk(tree):
        name, val = _simple_assign(n)
        if name in used and isinstance(val, ast.Dict):
            cands.append(val)
    best = []
    for dct in cands:
        rows = []
        for k, v in zip(dct.keys, dct.values):
            kv = _key_value(tree, k, enum_name, members) if k is not None else None
            if kv is None or not isinstance(v, ast.Name):
                rows = []
                break
            rows.append((kv, v.id))
        if len(rows) > len(best):
            best = rows
    return best


def camel(name):
    parts = name.lower().split("_")
    return parts[0] + "".join(p.capitalize() for p in parts[1:])


def _enum_attr(node):
    """`StatusCode.NO_RESPONSE` / `StatusCode.SUCCESS.tag` -> ('StatusCode','NO_RESPONSE')."""
    if isinstance(node, ast.Attribute) and node.attr == "tag":
        node = node.value
    if isinstance(node, ast.Attribute) and isinstance(node.value, ast.Name):
        return node.value.id, node.attr
    return None


class _NoEval(Exception):
    pass


def mini_eval_int_function(fn, arg):
    """Evaluate a tiny integer function `def f(x): if …: return …; <logging call>; return …` on one argument.

    Supports if/elif/else, return, comparisons (also chained), and/or/not, + - * // % & | ^ << >>, int literals, the
    parameter; expression statements (logging) are skipped.  Raises _NoEval for anything else."""
    pname = fn.args.args[0].arg

    def ev(e):
        if isinstance(e, ast.Constant) and isinstance(e.value, (int, bool)):
            return e.value
        if isinstance(e, ast.Name) and e.id == pname:
            return arg
        if isinstance(e, ast.BoolOp):
            vals = [ev(v) for v in e.values]
            return all(vals) if isinstance(e.op, ast.And) else any(vals)
        if isinstance(e, ast.UnaryOp) and isinstance(e.op, ast.Not):
            return not ev(e.operand)
        if isinstance(e, ast.BinOp):
            a, b = ev(e.left), ev(e.right)
            ops = {ast.Add: lambda: a + b, ast.Sub: lambda: a - b, ast.Mult: lambda: a * b, ast.FloorDiv: lambda: a // b, ast.Mod: lambda: a % b,
                   ast.BitAnd: lambda: a & b, ast.BitOr: lambda: a | b, ast.BitXor: lambda: a ^ b, ast.LShift: lambda: a << b, ast.RShift: lambda: a >> b}
            if type(e.op) in ops:
                return ops[type(e.op)]()
        if isinstance(e, ast.Compare):
            left = ev(e.left)
            for op, c in zip(e.ops, e.comparators):
                r = ev(c)
                ok = {ast.Gt: left > r, ast.GtE: left >= r, ast.Lt: left < r, ast.LtE: left <= r, ast.Eq: left == r, ast.NotEq: left != r}.get(type(op))
                if ok is None:
                    raise _NoEval()
                if not ok:
                    return False
                left = r
            return True
        raise _NoEval()

    def run(body):
        for st in body:
            if isinstance(st, ast.Return):
                return ("ret", ev(st.value))
            if isinstance(st, ast.If):
                r = run(st.body) if ev(st.test) else run(st.orelse)
                if r is not None:
                    return r
            elif isinstance(st, ast.Expr):
                continue  # docstring / logging
            else:
                raise _NoEval()
        return None
    r = run(fn.body)
    if r is None:
        raise _NoEval()
    return int(r[1])


def gen_MbootConsts():
    meta = {"sources": [SER, BULK, CMD, ERR, PROP, MCU, CRC], "formats": {}, "notes": []}
    ser, bulk, cmd, err, prop, mcu, crc = (parse(p) for p in (SER, BULK, CMD, ERR, PROP, MCU, CRC))
    L = ["namespace SpsdkVerif.Generated.MbootConsts", "",
         "inductive Endian where | little | big | native deriving DecidableEq, Repr",
         "/-- struct format: byte order, widths of the fixed fields, width of the repeated tail item (0 = none) -/",
         "structure Fmt where", "  endian : Endian", "  widths : List Nat", "  tail : Nat", "  deriving DecidableEq, Repr", ""]

    def d(name, val, comment=None):
        L.append(f"def {name} : Nat := {val}" + (f"  -- {comment}" if comment else ""))

    # ---- serial protocol class constants + FPType
    sc = class_consts(ser, "MbootSerialProtocol")
    d("frameStartByte", sc.get("FRAME_START_BYTE", 999999), "MbootSerialProtocol.FRAME_START_BYTE")
    nr = sc.get("FRAME_START_NOT_READY_LIST", [999999])
    L.append(f"def frameNotReady : List Nat := [{', '.join(map(str, nr))}]")
    d("maxPingDummyBytes", sc.get("MAX_PING_RESPONSE_DUMMY_BYTES", 999999))
    d("maxUartOpenAttempts", sc.get("MAX_UART_OPEN_ATTEMPTS", 999999))
    fp = enum_members(ser, "FPType", sort=True)
    L.append(f"def fpTypes : List (String × Nat) := [{', '.join(f'(\"{n}\", {v})' for n, v in fp)}]")
    for n, v in fp:
        d("fp" + camel(n).capitalize(), v)
    # ---- HID report ids
    rid = enum_members(bulk, "ReportId", sort=True)
    L.append(f"def reportIds : List (String × Nat) := [{', '.join(f'(\"{n}\", {v})' for n, v in rid)}]")
    for n, v in rid:
        d("rid" + camel(n)[0].upper() + camel(n)[1:], v)
    # ---- command / response tags, flags
    ct = enum_members(cmd, "CommandTag")
    L.append(f"def commandTags : List (String × Nat) := [{', '.join(f'(\"{n}\", {v})' for n, v in ct)}]")
    rt = enum_members(cmd, "ResponseTag", sort=True)
    L.append(f"def responseTags : List (String × Nat) := [{', '.join(f'(\"{n}\", {v})' for n, v in rt)}]")
    cf = enum_members(cmd, "CommandFlag", sort=True)
    L.append(f"def commandFlags : List (String × Nat) := [{', '.join(f'(\"{n}\", {v})' for n, v in cf)}]")
    # response-class table of parse_cmd_response: ResponseTag member -> class name
    # (found inline in the function or hoisted to a module/class level table the function refers to; only indexed -> sorted by tag)
    table = sorted(set(find_enum_keyed_table(cmd, _fun(cmd, "parse_cmd_response"), "ResponseTag", dict(rt))))
    L.append(f"def knownResponses : List (Nat × String) := [{', '.join(f'({t}, \"{c}\")' for t, c in table)}]")
    cp = class_consts(cmd, "CmdPacket")
    d("cmdPacketSize", cp.get("SIZE", 999999))
    ch = class_consts(cmd, "CmdHeader")
    d("cmdHeaderSize", ch.get("SIZE", 999999))
    # ---- status codes used by the state machine, property tag, default packet size
    st = dict(enum_members(err, "StatusCode"))
    for n in ("SUCCESS", "FAIL", "NO_RESPONSE", "SENDING_OPERATION_CONDITION_ERROR", "UNKNOWN_PROPERTY", "READ_ONLY_PROPERTY",
              "MEMORY_RANGE_INVALID", "UNKNOWN_COMMAND", "ABORT_DATA_PHASE", "INVALID_ARGUMENT", "OTP_VERIFY_FAIL"):
        d("st" + camel(n)[0].upper() + camel(n)[1:], st.get(n, 999999), f"StatusCode.{n}")
    pt = dict(enum_members(prop, "PropertyTag"))
    d("propMaxPacketSize", pt.get("MAX_PACKET_SIZE", 999999), "PropertyTag.MAX_PACKET_SIZE")
    d("propCurrentVersion", pt.get("CURRENT_VERSION", 999999))
    d("propVerifyWrites", pt.get("VERIFY_WRITES", 999999))
    mc = class_consts(mcu, "McuBoot")
    d("defaultMaxPacketSize", mc.get("DEFAULT_MAX_PACKET_SIZE", 999999), "McuBoot.DEFAULT_MAX_PACKET_SIZE")
    # ---- struct formats
    fmts = {
        "fmtSerialCreateFrame": (ser, "MbootSerialProtocol", "_create_frame"),
        "fmtSerialFrameCrc": (ser, "MbootSerialProtocol", "_calc_frame_crc"),
        "fmtSerialAck": (ser, "MbootSerialProtocol", "_send_ack"),
        "fmtPingResponse": (ser, "PingResponse", "parse"),
        "fmtSerialPing": (ser, "MbootSerialProtocol", "_ping"),
        "fmtHidCreateFrame": (bulk, "MbootBulkProtocol", "_create_frame"),
        "fmtHidParseFrame": (bulk, "MbootBulkProtocol", "_parse_frame"),
        "fmtCmdHeaderToBytes": (cmd, "CmdHeader", "to_bytes"),
        "fmtCmdHeaderFromBytes": (cmd, "CmdHeader", "from_bytes"),
        "fmtCmdPacketToBytes": (cmd, "CmdPacket", "to_bytes"),
        "fmtCmdResponseInit": (cmd, "CmdResponse", "__init__"),
        "fmtGenericResponseInit": (cmd, "GenericResponse", "__init__"),
        "fmtGetPropertyResponseInit": (cmd, "GetPropertyResponse", "__init__"),
        "fmtReadMemoryResponseInit": (cmd, "ReadMemoryResponse", "__init__"),
        "fmtNoResponseInit": (cmd, "NoResponse", "__init__"),
    }
    for lean, (tree, cls, fn) in fmts.items():
        c = _cls(tree, cls)
        lits = fmt_literals(_fun(c, fn) if c is not None else None, tree, cls)
        rendered = sorted({lean_fmt(x) for x in lits})
        meta["formats"][lean] = rendered
        L.append(f"def {lean} : List Fmt := [{', '.join(rendered)}]")
    # ---- CRC-16/XMODEM parameters
    poly = init = xor = None
    rev = None
    for n in ast.walk(crc):
        if isinstance(n, ast.Dict):
            for k, v in zip(n.keys, n.values):
                ea = _enum_attr(k)
                if ea and ea[1] == "CRC16_XMODEM" and isinstance(v, ast.Call):
                    kw = {}
                    cfgc = _cls(crc, v.func.id) if isinstance(v.func, ast.Name) else None
                    fields = [st.target.id for st in cfgc.body if isinstance(st, ast.AnnAssign) and isinstance(st.target, ast.Name)] if cfgc else []
                    for idx, a in enumerate(v.args):
                        if idx < len(fields):
                            kw[fields[idx]] = a
                    for a in v.keywords:
                        kw[a.arg] = a.value
                    try:
                        kw = {k_: _ev(crc, n_) for k_, n_ in kw.items()}
                    except NotConst:
                        kw = {}
                    poly, init, xor, rev = kw.get("polynomial"), kw.get("initial_value"), kw.get("final_xor"), kw.get("reverse")
    # which algorithm does the serial protocol ask for?
    alg = None
    cf_ = _fun(_cls(ser, "MbootSerialProtocol"), "_calc_crc")
    for n in ast.walk(cf_) if cf_ is not None else []:
        ea = _enum_attr(n)
        if ea and ea[0] == "CrcAlg":
            alg = ea[1]
    L.append(f"def serialCrcAlg : String := \"{alg}\"")
    if poly is None:
        poly, init, xor, rev = 0, 999999, 999999, True
    width = poly.bit_length() - 1
    d("crcWidth", width)
    d("crcPoly", poly - (1 << width) if width >= 0 else 0, f"polynomial {poly:#x} without the leading term")
    d("crcInit", init)
    d("crcXorOut", xor)
    L.append(f"def crcReverse : Bool := {'true' if rev else 'false'}")
    # ---- _clamp_down_memory_id: `if memory_id > A or memory_id == B: return memory_id ... return C`
    cl = _fun(mcu, "_clamp_down_memory_id")
    consts = []
    if cl is not None:
        for n in ast.walk(cl):
            if isinstance(n, ast.Compare) and isinstance(n.comparators[0], ast.Constant):
                consts.append((type(n.ops[0]).__name__, n.comparators[0].value))
            if isinstance(n, ast.Return) and isinstance(n.value, ast.Constant):
                consts.append(("Return", n.value.value))
    # semantic table of _clamp_down_memory_id: evaluated on 0..300 and some big values (robust against harmless rewrites)
    rows = []
    try:
        for x in list(range(0, 301)) + [511, 512, 65535, 65536, 0xFFFFFFFF]:
            rows.append((x, mini_eval_int_function(cl, x)))
    except (_NoEval, AttributeError, IndexError, ZeroDivisionError):
        rows = [(0, 999999)]
        meta["notes"].append("_clamp_down_memory_id could not be evaluated statically")
    L.append(f"def clampDownTable : List (Nat × Nat) := [{', '.join(f'({a}, {b})' for a, b in rows)}]")
    # ---- decisions of the state machine that are comparisons with enum members:
    # for each function, the ordered list of (operator, Enum.MEMBER) comparisons
    decisions = {}
    mb = _cls(mcu, "McuBoot")
    for fn in ("_process_cmd", "_read_data", "_send_data", "read_memory", "write_memory", "get_property",
               "set_property", "fill_memory", "flash_erase_region", "flash_erase_all", "receive_sb_file"):
        f = _fun(mb, fn) if mb is not None else None
        lst = []
        if f is not None:
            cmps = [n for n in ast.walk(f) if isinstance(n, ast.Compare)]
            cmps.sort(key=lambda n: (n.lineno, n.col_offset))
            for n in cmps:
                ea = _enum_attr(n.comparators[0])
                if ea and ea[0] in ("StatusCode", "CommandTag"):
                    lst.append(f"{type(n.ops[0]).__name__} {ea[0]}.{ea[1]}")
    # command tag + flag used by each modelled API method: first `CmdPacket(CommandTag.X, CommandFlag.Y.tag, ...)` and arg count
    ctd, cfd = dict(ct), dict(cf)
    pk = []
    for fn in ("flash_erase_all", "flash_erase_region", "read_memory", "write_memory", "fill_memory", "get_property", "set_property",
               "receive_sb_file", "execute", "call", "flash_erase_all_unsecure", "configure_memory", "reliable_update",
               "reset", "flash_read_once", "flash_program_once", "efuse_read_once", "efuse_program_once", "flash_read_resource",
               "kp_enroll", "kp_set_intrinsic_key", "kp_write_nonvolatile", "kp_read_nonvolatile", "kp_set_user_key",
               "kp_write_key_store", "kp_read_key_store", "update_life_cycle", "ele_message", "tp_oem_set_master_share",
               "tp_hsm_enc_blk", "fuse_program", "fuse_read"):
        f = _fun(mb, fn) if mb is not None else None
        if f is None:
            continue
        # the command packet an API method builds: found wherever it is built inside the method (any statement position; the first
        # two arguments positional or by keyword; an argument that is a local name is resolved through its assignment).  When a method
        # builds several packets (efuse verify, chunk loop) the one with the method's own command tag wins = the LAST in source order
        # of the maximal-parameter ones is not needed: all packets of one method listed here share (tag, flags, #params).
        loc = local_nodes(f)
        found = []
        for n in ast.walk(f):
            if isinstance(n, ast.Call) and isinstance(n.func, ast.Name) and n.func.id == "CmdPacket":
                kws = {k_.arg: k_.value for k_ in n.keywords if k_.arg}
                pos = [loc.get(a.id, a) if isinstance(a, ast.Name) and a.id in loc else a for a in n.args]
                tagn = pos[0] if pos else kws.get("tag")
                flagn = pos[1] if len(pos) > 1 else kws.get("flags")
                t, fl = _enum_attr(tagn) if tagn is not None else None, _enum_attr(flagn) if flagn is not None else None
                flv = cfd.get(fl[1]) if fl else None
                if flv is None and flagn is not None:
                    try:
                        flv = int(_ev(mcu, flagn, cls="McuBoot"))
                    except (NotConst, TypeError, ValueError):
                        flv = None
                if t and flv is not None and not any(isinstance(a, ast.Starred) for a in n.args):
                    found.append((ctd.get(t[1], 999999), flv, max(len(pos) - 2, 0)))
        if found:
            # several packets in one method are all listed by the model per method only once: keep the set's canonical representative
            pk.append((fn,) + sorted(set(found))[-1])
    kp = enum_members(cmd, "KeyProvOperation")
    L.append(f"def keyProvOperations : List (String × Nat) := [{', '.join(f'(\"{n}\", {v})' for n, v in kp)}]")
    # first argument of the key-provisioning packets: KeyProvOperation member
    kpd = dict(kp)
    kpops = []
    for fn in ("kp_enroll", "kp_set_intrinsic_key", "kp_write_nonvolatile", "kp_read_nonvolatile", "kp_set_user_key", "kp_write_key_store", "kp_read_key_store"):
        f = _fun(mb, fn) if mb is not None else None
        for n in ast.walk(f) if f is not None else []:
            if isinstance(n, ast.Call) and isinstance(n.func, ast.Name) and n.func.id == "CmdPacket":
                for a in n.args[2:3] if len(n.args) >= 3 else n.args[:1] if len(n.args) == 1 and n.keywords else []:
                    a = local_nodes(f).get(a.id, a) if isinstance(a, ast.Name) else a
                    ea = _enum_attr(a)
                    if ea and ea[0] == "KeyProvOperation":
                        kpops.append((fn, kpd.get(ea[1], 999999)))
    L.append(f"def kpApiOperations : List (String × Nat) := [{', '.join(f'(\"{a}\", {b})' for a, b in kpops)}]")
    # first argument of the trust-provisioning packets of the modelled methods: TrustProvOperation member (read by value)
    tpd = dict(enum_members(cmd, "TrustProvOperation"))
    tpops = []
    for fn in ("tp_oem_set_master_share", "tp_hsm_enc_blk"):
        f = _fun(mb, fn) if mb is not None else None
        for n in ast.walk(f) if f is not None else []:
            if isinstance(n, ast.Call) and isinstance(n.func, ast.Name) and n.func.id == "CmdPacket" and len(n.args) >= 3:
                a = n.args[2]
                a = local_nodes(f).get(a.id, a) if isinstance(a, ast.Name) else a
                ea = _enum_attr(a)
                if ea and ea[0] == "TrustProvOperation":
                    tpops.append((fn, tpd.get(ea[1], 999999)))
    L.append(f"def tpApiOperations : List (String × Nat) := [{', '.join(f'(\"{a}\", {b})' for a, b in tpops)}]")
    L.append(f"def apiPackets : List (String × Nat × Nat × Nat) := [{', '.join(f'(\"{a}\", {b}, {c}, {e})' for a, b, c, e in pk)}]")
    meta["apiPackets"] = [list(x) for x in pk]
    L += ["", "end SpsdkVerif.Generated.MbootConsts"]
    emit("MbootConsts", "\n".join(L) + "\n", meta)


def gen_SdpConsts():
    """Generated/SdpConsts.lean: SDP command tags, response values, status codes, command packet format, read block size.

    Everything is read BY VALUE: enums (only looked up by the code) sorted by value, struct formats normalised, the read block size
    taken from the `min(remaining, <const>)` use site of `_read_data` whatever the local is called / however it is annotated."""
    cmdm, errm, sdpm = parse("spsdk/sdp/commands.py"), parse("spsdk/sdp/error_codes.py"), parse("spsdk/sdp/sdp.py")
    L = ["namespace SpsdkVerif.Generated.SdpConsts", ""]

    def lst(name, members):
        L.append(f"def {name} : List (String × Nat) := [{', '.join(f'(\"{n}\", {v})' for n, v in members)}]")
    lst("commandTags", enum_members(cmdm, "CommandTag", sort=True))
    lst("responseValues", enum_members(cmdm, "ResponseValue", sort=True))
    lst("statusCodes", enum_members(errm, "StatusCode", sort=True))
    fmt = class_consts(cmdm, "CmdPacket").get("FORMAT", "?")
    r = fmt_to_lean(fmt) if isinstance(fmt, str) else None
    L.append(f"def cmdPacketEndian : String := \"{r[0] if r else '?'}\"")
    L.append(f"def cmdPacketWidths : List Nat := [{', '.join(map(str, r[1])) if r else ''}]")
    # block size of SDP._read_data: the constant argument of `min(remaining, <block>)`
    ml = None
    f = _fun(_cls(sdpm, "SDP"), "_read_data")
    loc = local_nodes(f)
    for n in ast.walk(f) if f is not None else []:
        if isinstance(n, ast.Call) and isinstance(n.func, ast.Name) and n.func.id == "min":
            for a in n.args:
                node = loc.get(a.id, a) if isinstance(a, ast.Name) else a
                try:
                    v = _ev(sdpm, node, cls="SDP")
                except NotConst:
                    continue
                if isinstance(v, int) and not isinstance(v, bool):
                    ml = v
    L.append(f"def readBlock : Nat := {ml if isinstance(ml, int) else 999999}")
    # HID report table of the bulk protocol: name -> (id, size); only indexed by name -> sorted by id
    bulkm = parse("spsdk/sdp/protocol/bulk_protocol.py")
    hr = []
    for n in ast.walk(bulkm):
        name, val = _simple_assign(n)
        if name == "HID_REPORT" and isinstance(val, ast.Dict):
            try:
                tbl = _ev(bulkm, val)
                hr = sorted((str(k), int(t[0]), int(t[1])) for k, t in tbl.items())
                hr.sort(key=lambda q: q[1])
            except (NotConst, TypeError, IndexError, ValueError):
                hr = []
    L.append(f"def hidReports : List (String × Nat × Nat) := [{', '.join(f'(\"{a}\", {b}, {c})' for a, b, c in hr)}]")
    # SDPS
    sdpsm = parse("spsdk/sdp/sdps.py")
    lst("sdpsSignatures", enum_members(sdpsm, "CommandSignature", sort=True))
    lst("sdpsCommandTags", enum_members(sdpsm, "CommandTag", sort=True))
    lst("sdpsCommandFlags", enum_members(sdpsm, "CommandFlag", sort=True))
    sfmt = class_consts(sdpsm, "CmdPacket").get("FORMAT", "?")
    try:
        sfmt_n = norm_struct(sfmt) if isinstance(sfmt, str) else "?"
    except NotConst:
        sfmt_n = "?"
    L.append(f"def sdpsCmdFormat : String := \"{sfmt_n}\"  -- normalised spelling (one code per field)")
    L += ["", "end SpsdkVerif.Generated.SdpConsts"]
    emit("SdpConsts", "\n".join(L) + "\n", {"sources": ["spsdk/sdp/commands.py", "spsdk/sdp/error_codes.py", "spsdk/sdp/sdp.py",
                                                          "spsdk/sdp/protocol/bulk_protocol.py", "spsdk/sdp/sdps.py"]})


def gen_MbootProps():
    """Generated/MbootProps.lean: the PROPERTIES table of parse_property_value (tag -> value class, true values of BoolValue),
    PropertyTag / PeripheryTag / ExtMemPropTags members."""
    propm, memm = parse(PROP), parse("spsdk/mboot/memories.py")
    pt = enum_members(propm, "PropertyTag")
    ptd = dict(pt)
    rows = []
    for n in ast.walk(propm):
        tgt = n.targets[0] if isinstance(n, ast.Assign) else n.target if isinstance(n, ast.AnnAssign) else None
        val = getattr(n, "value", None)
        if isinstance(tgt, ast.Name) and tgt.id == "PROPERTIES" and isinstance(val, ast.Dict):
            for k, v in zip(val.keys, val.values):
                ea = _enum_attr(k)
                if not (ea and ea[0] == "PropertyTag" and isinstance(v, ast.Dict)):
                    continue
                d = {kk.value: vv for kk, vv in zip(v.keys, v.values) if isinstance(kk, ast.Constant)}
                cls = d["class"].id if isinstance(d.get("class"), ast.Name) else "?"
                tv = [1]
                kw = d.get("kwargs")
                if isinstance(kw, ast.Dict):
                    for kk, vv in zip(kw.keys, kw.values):
                        if isinstance(kk, ast.Constant) and kk.value == "true_values":
                            try:
                                tv = [int(x) for x in _ev(propm, vv)]
                            except (NotConst, TypeError, ValueError):
                                tv = [999999]
                rows.append((ptd.get(ea[1], 999999), cls, tv))
    L = ["namespace SpsdkVerif.Generated.MbootProps", ""]
    L.append(f"def propertyTags : List (String × Nat) := [{', '.join(f'(\"{n}\", {v})' for n, v in pt)}]")
    L.append("/-- PROPERTIES: (tag, value class, true values of a BoolValue) -/")
    L.append("def propertyClasses : List (Nat × String × List Nat) := [" +
             ", ".join(f'({t}, "{c}", [{", ".join(map(str, tv))}])' for t, c, tv in sorted(rows)) + "]")
    per = enum_members(propm, "PeripheryTag")
    L.append(f"def peripheryTags : List (String × Nat) := [{', '.join(f'(\"{n}\", {v})' for n, v in per)}]")
    em = enum_members(memm, "ExtMemPropTags", sort=True)
    L.append(f"def extMemPropTags : List (String × Nat) := [{', '.join(f'(\"{n}\", {v})' for n, v in em)}]")
    L += ["", "end SpsdkVerif.Generated.MbootProps"]
    emit("MbootProps", "\n".join(L) + "\n", {"sources": [PROP, "spsdk/mboot/memories.py"], "rows": len(rows)})


GENERATORS = {"MbootConsts": gen_MbootConsts, "SdpConsts": gen_SdpConsts, "MbootProps": gen_MbootProps}
