"""C20 (phase 2): Generated/PyFuns2.lean + Generated/EnumTables.lean from /repo's current source (pure `ast` reading).

PyFuns2 - more of spsdk/utils/misc.py and spsdk/sbfile/misc.py re-translated on every run with the extended
translator (tools/extract/py2lean.py: while loops with fuel, unrolled constant `for`, `int(ceil(a / b))` with the
explicit 2^53 float guard, `Optional[int]` parameters, `x or y` value semantics):

  * `getBytesCntOfInt`        <- misc.get_bytes_cnt_of_int (whole function; `fuel` bounds the `while value != 0` loop)
  * `bcdCheckNumber`          <- sbfile.misc.BcdVersion3._check_number (whole function, `for index in range(4)` unrolled)
  * `swap32Guard`             <- the leading `if …: raise` guards of misc.swap32 (the pack/unpack body is not integer code)
  * `revLongsGuard`           <- the leading length guard of misc.reverse_bytes_in_longs (`len(arr)` as an integer parameter)
  * `extendBlockNumPadding`   <- misc.extend_block up to and including `num_padding = …` (then `return num_padding`)
  * `alignBlockNumPadding`    <- misc.align_block up to and including `num_padding = …` (calls the generated `PyFuns.align`)

A slice that cannot be translated becomes an opaque `.error .other` stand-in (every theorem about it then fails).

EnumTables - the member tables `(tag, label, description)` of two real `SpsdkEnum` classes, literal-evaluated from
the class bodies, for the generic enum-lookup model (`Misc2.fromTag/fromLabel/…`).
"""
from __future__ import annotations

import ast
import copy

from extract import emit, parse
from py2lean import Env, FunSig, Untranslatable, find_function, module_int_consts, translate_function

MISC = "spsdk/utils/misc.py"
SBMISC = "spsdk/sbfile/misc.py"


# ------------------------------------------------------------------------------------------------ slices
def _is_guard(stmt) -> bool:
    return isinstance(stmt, ast.If) and not stmt.orelse and stmt.body and isinstance(stmt.body[-1], ast.Raise)


def slice_until(fn: ast.FunctionDef, var: str) -> ast.FunctionDef:
    """The function cut after the first top-level assignment to `var`, returning `var`."""
    body = []
    for st in fn.body:
        body.append(st)
        tgt = None
        if isinstance(st, ast.Assign) and len(st.targets) == 1 and isinstance(st.targets[0], ast.Name):
            tgt = st.targets[0].id
        elif isinstance(st, (ast.AnnAssign, ast.AugAssign)) and isinstance(st.target, ast.Name):
            tgt = st.target.id
        if tgt == var:
            body.append(ast.Return(value=ast.Name(id=var, ctx=ast.Load())))
            new = copy.copy(fn)
            new.body = body
            return new
    raise Untranslatable(f"no top-level assignment to {var}")


def slice_guards(fn: ast.FunctionDef, env, lean, param_types, drop):
    """Longest translatable prefix of the body that ends in an `if …: raise` guard, then `return True`."""
    last = None
    for k in range(len(fn.body), 0, -1):
        if not _is_guard(fn.body[k - 1]):
            continue
        new = copy.copy(fn)
        new.body = list(fn.body[:k]) + [ast.Return(value=ast.Constant(value=True))]
        try:
            return translate_function(new, lean, env, param_types, "Bool", drop_params=drop)
        except Untranslatable as exc:
            last = exc
    raise Untranslatable(f"no translatable guard prefix ({last})")


SPECS = [
    dict(file=MISC, qualname="get_bytes_cnt_of_int", lean="getBytesCntOfInt", mode="whole", ret="Int",
         fallback="(fuel : Nat) (value : Int) (align_to_2n : Bool) (byte_cnt : Option Int)"),
    dict(file=SBMISC, qualname="BcdVersion3._check_number", lean="bcdCheckNumber", mode="whole", ret="Bool",
         fallback="(num : Int)"),
    dict(file=MISC, qualname="swap32", lean="swap32Guard", mode="guards", ret="Bool", fallback="(x : Int)"),
    dict(file=MISC, qualname="reverse_bytes_in_longs", lean="revLongsGuard", mode="guards", ret="Bool",
         param_types={"arr": "Len"}, fallback="(arr_len : Int)"),
    dict(file=MISC, qualname="extend_block", lean="extendBlockNumPadding", mode="until:num_padding", ret="Int",
         param_types={"data": "Len"}, fallback="(data_len : Int) (length : Int) (padding : Int)"),
    dict(file=MISC, qualname="align_block", lean="alignBlockNumPadding", mode="until:num_padding", ret="Int",
         param_types={"data": "Len"}, drop=("padding",), fallback="(data_len : Int) (alignment : Int)"),
]


def gen_PyFuns2() -> None:
    env = Env()
    # `align` is generated into PyFuns.lean by extract.gen_PyFuns (same signature whether translated or opaque)
    env.funs["align"] = FunSig("SpsdkVerif.Generated.PyFuns.align", [("number", "Int"), ("alignment", "Int")], "Int")
    out = ["import SpsdkVerif.Base.Py", "import SpsdkVerif.Generated.PyFuns", "",
           "namespace SpsdkVerif.Generated.PyFuns2", "open SpsdkVerif", ""]
    meta = {"functions": {}}
    trees: dict = {}
    for sp in SPECS:
        rel, lean = sp["file"], sp["lean"]
        try:
            if rel not in trees:
                try:
                    trees[rel] = parse(rel)
                    env.consts.update(module_int_consts(trees[rel]))
                except (OSError, SyntaxError) as exc:
                    trees[rel] = None
                    meta.setdefault("errors", []).append(f"{rel}: {exc}")
            if trees[rel] is None:
                raise Untranslatable("source file unreadable")
            fn = find_function(trees[rel], sp["qualname"])
            drop = ("self", "cls") + tuple(sp.get("drop", ()))
            mode = sp["mode"]
            if mode == "guards":
                text, sig = slice_guards(fn, env, lean, sp.get("param_types"), drop)
            else:
                if mode.startswith("until:"):
                    fn = slice_until(fn, mode.split(":", 1)[1])
                text, sig = translate_function(fn, lean, env, sp.get("param_types"), sp["ret"], drop_params=drop)
            out.append(f"/-- translated from `{rel}::{sp['qualname']}` (line {fn.lineno}, {mode}) -/")
            out.append(text)
            meta["functions"][lean] = {"mode": "translated", "slice": mode, "source": f"{rel}::{sp['qualname']}",
                                       "params": sig.params, "ret": sig.ret, "fuel": sig.fuel}
        except Untranslatable as exc:
            out.append(f"-- untranslatable: {rel}::{sp['qualname']}: {exc}")
            out.append(f"def {lean} {sp['fallback']} : PyRes {sp['ret']} := .error .other\n")
            meta["functions"][lean] = {"mode": "untranslatable", "reason": str(exc), "source": f"{rel}::{sp['qualname']}"}
    out.append("end SpsdkVerif.Generated.PyFuns2")
    emit("PyFuns2", "\n".join(out) + "\n", meta)


# ------------------------------------------------------------------------------------------------ enum tables
ENUMS = [
    ("enumSb2CmdTag", "spsdk/sbfile/sb2/commands.py", "EnumCmdTag"),
    ("enumAhabTargetMemory", "spsdk/image/ahab/ahab_data.py", "AhabTargetMemory"),
    ("enumFlagsSrkSet", "spsdk/image/ahab/ahab_data.py", "FlagsSrkSet"),       # a SpsdkSoftEnum (phase 3)
]


def _chars(s: str) -> str:
    def one(ch):
        if ch == "'":
            return "'\\''"
        if ch == "\\":
            return "'\\\\'"
        if 32 <= ord(ch) < 127:
            return f"'{ch}'"
        return "'\\u{%x}'" % ord(ch)
    return "[" + ", ".join(one(c) for c in s) + "]"


def _str_seq(node):
    val = ast.literal_eval(node)
    if not (isinstance(val, (list, tuple)) and all(isinstance(v, str) for v in val)):
        raise ValueError("not a sequence of string literals")
    return list(val)


def _special_patterns(tree):
    cls = next((n for n in tree.body if isinstance(n, ast.ClassDef) and n.name == "BinaryPattern"), None)
    if cls is None:
        raise ValueError("class BinaryPattern not found")
    for st in cls.body:
        if isinstance(st, ast.Assign) and len(st.targets) == 1 and getattr(st.targets[0], "id", None) == "SPECIAL_PATTERNS":
            return _str_seq(st.value)
    raise ValueError("SPECIAL_PATTERNS not found")


def _bool_true_strings(tree):
    fn = find_function(tree, "value_to_bool")
    hits = [n for n in ast.walk(fn) if isinstance(n, ast.Compare) and len(n.ops) == 1 and isinstance(n.ops[0], ast.In)]
    if len(hits) != 1:
        raise ValueError("expected exactly one `in` test")
    return _str_seq(hits[0].comparators[0])


def gen_EnumTables() -> None:
    out = ["namespace SpsdkVerif.Generated.EnumTables", "",
           "/-- `(tag, label, description)` of the members in definition order -/",
           "abbrev Row := Int × List Char × Option (List Char)", ""]
    meta = {"enums": {}}
    for lean, rel, cls in ENUMS:
        rows, err = [], None
        try:
            tree = parse(rel)
            node = next((n for n in tree.body if isinstance(n, ast.ClassDef) and n.name == cls), None)
            if node is None:
                raise ValueError(f"class {cls} not found")
            bases = [getattr(b, "id", getattr(b, "attr", "?")) for b in node.bases]
            if bases not in (["SpsdkEnum"], ["SpsdkSoftEnum"]):
                raise ValueError(f"unexpected bases {bases}")
            for st in node.body:
                if isinstance(st, ast.Assign) and len(st.targets) == 1 and isinstance(st.targets[0], ast.Name):
                    val = ast.literal_eval(st.value)
                    if not (isinstance(val, tuple) and 2 <= len(val) <= 3 and isinstance(val[0], int) and not isinstance(val[0], bool)
                            and isinstance(val[1], str) and (len(val) == 2 or val[2] is None or isinstance(val[2], str))):
                        raise ValueError(f"member {st.targets[0].id} is not (int, str[, str])")
                    rows.append((st.targets[0].id, val[0], val[1], val[2] if len(val) == 3 else None))
        except (OSError, SyntaxError, ValueError) as exc:
            rows, err = [], str(exc)
        out.append(f"/-- `{rel}::{cls}`" + (f" — NOT EXTRACTED: {err}" if err else "") + " -/")
        out.append(f"def {lean} : List Row := [")
        out.append(",\n".join(f"  (({t} : Int), {_chars(l)}, " + ("none" if d is None else f"some {_chars(d)}") + ")"
                              for _n, t, l, d in rows))
        out.append("]\n")
        meta["enums"][lean] = {"source": f"{rel}::{cls}", "members": [[n, t, l, d] for n, t, l, d in rows], "error": err}
    # --- two string tables of misc.py that the hand model refers to
    for lean, what, getter in (("binaryPatternSpecial", "BinaryPattern.SPECIAL_PATTERNS", _special_patterns),
                               ("valueToBoolTrue", "the `value in (…)` tuple of value_to_bool", _bool_true_strings)):
        try:
            vals, err = getter(parse(MISC)), None
        except (OSError, SyntaxError, ValueError, Untranslatable) as exc:
            vals, err = [], str(exc)
        out.append(f"/-- `{MISC}`: {what}" + (f" — NOT EXTRACTED: {err}" if err else "") + " -/")
        out.append(f"def {lean} : List (List Char) := [" + ", ".join(_chars(v) for v in vals) + "]\n")
        meta[lean] = {"values": vals, "error": err}
    out.append("end SpsdkVerif.Generated.EnumTables")
    emit("EnumTables", "\n".join(out) + "\n", meta)


# ------------------------------------------------------------------------------------------------ phase 3
SPECS3 = [
    dict(file=MISC, qualname="format_value", lean="formatValuePadding", mode="until:padding", ret="Int",
         drop=("value", "delimiter", "use_prefix"), fallback="(size : Int)"),
    dict(file=SBMISC, qualname="BcdVersion3._num_from_str", lean="bcdNumFromStrGuard", mode="guards", ret="Bool",
         param_types={"text": "Len"}, fallback="(text_len : Int)"),
    dict(file=SBMISC, qualname="unpack_timestamp", lean="unpackTimestampGuard", mode="guards", ret="Bool", fallback="(value : Int)"),
]


def _translate_specs(name: str, specs) -> None:
    env = Env()
    out = ["import SpsdkVerif.Base.Py", "", f"namespace SpsdkVerif.Generated.{name}", "open SpsdkVerif", ""]
    meta = {"functions": {}}
    trees: dict = {}
    for sp in specs:
        rel, lean = sp["file"], sp["lean"]
        try:
            if rel not in trees:
                try:
                    trees[rel] = parse(rel)
                    env.consts.update(module_int_consts(trees[rel]))
                except (OSError, SyntaxError) as exc:
                    trees[rel] = None
                    meta.setdefault("errors", []).append(f"{rel}: {exc}")
            if trees[rel] is None:
                raise Untranslatable("source file unreadable")
            fn = find_function(trees[rel], sp["qualname"])
            drop = ("self", "cls") + tuple(sp.get("drop", ()))
            mode = sp["mode"]
            if mode == "guards":
                text, sig = slice_guards(fn, env, lean, sp.get("param_types"), drop)
            else:
                if mode.startswith("until:"):
                    fn = slice_until(fn, mode.split(":", 1)[1])
                text, sig = translate_function(fn, lean, env, sp.get("param_types"), sp["ret"], drop_params=drop)
            out.append(f"/-- translated from `{rel}::{sp['qualname']}` ({mode}) -/")
            out.append(text)
            meta["functions"][lean] = {"mode": "translated", "slice": mode, "source": f"{rel}::{sp['qualname']}",
                                       "params": sig.params, "ret": sig.ret, "fuel": sig.fuel}
        except Untranslatable as exc:
            out.append(f"-- untranslatable: {rel}::{sp['qualname']}: {exc}")
            out.append(f"def {lean} {sp['fallback']} : PyRes {sp['ret']} := .error .other\n")
            meta["functions"][lean] = {"mode": "untranslatable", "reason": str(exc), "source": f"{rel}::{sp['qualname']}"}
    out.append(f"end SpsdkVerif.Generated.{name}")
    emit(name, "\n".join(out) + "\n", meta)


def gen_PyFuns3() -> None:
    """format_value's padding arithmetic, the length guard of BcdVersion3._num_from_str, the range guard of unpack_timestamp."""
    _translate_specs("PyFuns3", SPECS3)


def _size_fmt_tables(tree):
    """(base, suffix) pairs and the prefix letters of size_fmt, read by VALUE from the function body."""
    fn = find_function(tree, "size_fmt")
    pairs = letters = None
    for n in ast.walk(fn):
        if pairs is None and isinstance(n, (ast.List, ast.Tuple)) and len(n.elts) == 2:
            try:
                v = ast.literal_eval(n)
            except (ValueError, SyntaxError):
                continue
            if all(isinstance(e, tuple) and len(e) == 2 and isinstance(e[0], (int, float)) and isinstance(e[1], str) for e in v):
                pairs = [(e[0], e[1]) for e in v]
        if letters is None and isinstance(n, ast.Call) and getattr(n.func, "id", None) == "list" and len(n.args) == 1:
            try:
                v = ast.literal_eval(n.args[0])
            except (ValueError, SyntaxError):
                continue
            if isinstance(v, str):
                letters = v
    if letters is None:   # re-spelling `["k", "M", …]`
        for n in ast.walk(fn):
            if isinstance(n, ast.List) and len(n.elts) > 1 and all(isinstance(e, ast.Constant) and isinstance(e.value, str)
                                                                    and len(e.value) == 1 for e in n.elts):
                letters = "".join(e.value for e in n.elts)
                break
    if pairs is None or letters is None:
        raise ValueError("size_fmt tables not found")
    for b, _s in pairs:
        if b != int(b) or b <= 1:
            raise ValueError("size_fmt base is not an integer > 1")
    return [(int(b), s) for b, s in pairs], letters


def gen_Misc3Tables() -> None:
    """Constants the phase-3 hand model refers to, read by VALUE (tools/extract/consteval.py)."""
    from consteval import ModuleEnv, NotConst

    out = ["namespace SpsdkVerif.Generated.Misc3Tables", ""]
    meta: dict = {}

    def guard(key, fn, default):
        try:
            v = fn()
            meta[key] = {"value": v, "error": None}
            return v, None
        except (OSError, SyntaxError, ValueError, NotConst, Untranslatable, KeyError, StopIteration) as exc:
            meta[key] = {"value": None, "error": str(exc)}
            return default, str(exc)

    def tag(err):
        return f" — NOT EXTRACTED: {err}" if err else ""

    # Endianness members (name, value) in definition order
    def endian():
        me = ModuleEnv(parse(MISC))
        cls = next(n for n in me.tree.body if isinstance(n, ast.ClassDef) and n.name == "Endianness")
        rows = []
        for st in cls.body:
            if isinstance(st, ast.Assign) and len(st.targets) == 1 and isinstance(st.targets[0], ast.Name):
                v = me.eval(st.value, cls="Endianness")
                if not isinstance(v, str):
                    raise ValueError("Endianness member is not a string")
                rows.append([st.targets[0].id, v])
        return rows
    rows, err = guard("endianness", endian, [])
    out.append(f"/-- `{MISC}::Endianness` members (name, value){tag(err)} -/")
    out.append("def endiannessMembers : List (List Char × List Char) := [" + ", ".join(f"({_chars(n)}, {_chars(v)})" for n, v in rows) + "]\n")

    (pairs, letters), err = guard("size_fmt", lambda: _size_fmt_tables(parse(MISC)), ([], ""))
    out.append(f"/-- `{MISC}::size_fmt`: (base, suffix) for use_kibibyte = False / True{tag(err)} -/")
    out.append("def sizeFmtBases : List (Nat × List Char) := [" + ", ".join(f"({b}, {_chars(s)})" for b, s in pairs) + "]\n")
    out.append(f"/-- `{MISC}::size_fmt`: unit prefix letters after plain `B`{tag(err)} -/")
    out.append(f"def sizeFmtPrefixes : List Char := {_chars(letters)}\n")

    def sbconst(name, typ):
        def f():
            me = ModuleEnv(parse(SBMISC))
            cls = name.split(".")[0]
            v = me.cls(cls).value(name.split(".")[1])
            if not isinstance(v, typ) or isinstance(v, bool):
                raise ValueError(f"{name} is not {typ.__name__}")
            return v
        return f
    bs, err = guard("BLOCK_SIZE", sbconst("SecBootBlckSize.BLOCK_SIZE", int), 0)
    out.append(f"/-- `{SBMISC}::SecBootBlckSize.BLOCK_SIZE`{tag(err)} -/")
    out.append(f"def sbBlockSize : Int := {bs}\n")
    dv, err = guard("BCD_DEFAULT", sbconst("BcdVersion3.DEFAULT", str), "")
    out.append(f"/-- `{SBMISC}::BcdVersion3.DEFAULT`{tag(err)} -/")
    out.append(f"def bcdDefault : List Char := {_chars(dv)}\n")

    def bcd_alphabet():
        fn = find_function(parse(SBMISC), "BcdVersion3._num_from_str")
        hits = [n for n in ast.walk(fn) if isinstance(n, ast.Compare) and len(n.ops) == 1 and isinstance(n.ops[0], (ast.NotIn, ast.In))
                and isinstance(n.comparators[0], ast.Constant) and isinstance(n.comparators[0].value, str)]
        if len(hits) != 1:
            raise ValueError("expected exactly one `char [not] in \"…\"` test in _num_from_str")
        return hits[0].comparators[0].value
    alpha, err = guard("BCD_ALPHABET", bcd_alphabet, "")
    out.append(f"/-- `{SBMISC}::BcdVersion3._num_from_str`: the characters a component may consist of{tag(err)} -/")
    out.append(f"def bcdNumAlphabet : List Char := {_chars(alpha)}\n")

    def units():
        me = ModuleEnv(parse(MISC))
        v = me.cls("Timeout").value("UNITS")
        if not (isinstance(v, dict) and all(isinstance(k, str) and isinstance(x, int) for k, x in v.items())):
            raise ValueError("Timeout.UNITS is not {str: int}")
        return [[k, x] for k, x in v.items()]
    un, err = guard("Timeout.UNITS", units, [])
    out.append(f"/-- `{MISC}::Timeout.UNITS`{tag(err)} -/")
    out.append("def timeoutUnits : List (List Char × Nat) := [" + ", ".join(f"({_chars(k)}, {x})" for k, x in un) + "]\n")
    out.append("end SpsdkVerif.Generated.Misc3Tables")
    emit("Misc3Tables", "\n".join(out) + "\n", meta)


GENERATORS = {"PyFuns2": gen_PyFuns2, "EnumTables": gen_EnumTables, "PyFuns3": gen_PyFuns3, "Misc3Tables": gen_Misc3Tables}


# ------------------------------------------------------------------------------------------------ inventory (phase 3, target 1)
# Python name -> Lean identifiers that must occur in a `theorem` statement of Properties/C20.lean for the helper to count as covered.
INVENTORY_MAP = {
    "Endianness": ["endiannessMembers"], "Endianness.values": ["endiannessMembers"],
    "BinaryPattern": ["patternAccept"], "BinaryPattern.get_block": ["Pattern.block", "p.block"], "BinaryPattern.pattern": ["patternProp"],
    "align": ["align "], "align_block": ["alignBlock"], "align_block_fill_random": [], "extend_block": ["extendBlock"],
    "find_first": ["findFirst"], "format_value": ["formatValue"], "get_bytes_cnt_of_int": ["getBytesCnt"],
    "value_to_int": ["valueToInt"], "value_to_bytes": ["valueToBytes"], "value_to_bool": ["valueToBool"],
    "load_hex_string": ["loadHexString", "loadHexFile"], "reverse_bytes_in_longs": ["reverseBytesInLongs"],
    "change_endianness": ["changeEndianness"], "size_fmt": ["sizeFmt"], "swap16": ["swap16"], "swap32": ["swap32"],
    "reverse_bits": ["reverseBits"], "check_range": ["check_range"], "split_data": ["splitData"], "swap_bytes": ["swapBytes"],
    "SecBootBlckSize.is_aligned": ["sbIsAligned"], "SecBootBlckSize.align": ["sbAlign"], "SecBootBlckSize.to_num_blocks": ["sbToNumBlocks"],
    "SecBootBlckSize.align_block_fill_zeros": ["sbAlignBlockFillZeros"], "SecBootBlckSize.align_block_fill_random": [],
    "BcdVersion3.from_str": ["bcdFromStr"], "BcdVersion3.to_version": [], "BcdVersion3.__str__": ["bcdStr"], "BcdVersion3.nums": [],
    "BcdVersion3._check_number": ["bcdCheckNumber"], "BcdVersion3._num_from_str": ["bcdNumFromStrGuard", "bcdFromStr"],
    "unpack_timestamp": ["unpackTimestampGuard"], "pack_timestamp": [],
    "SpsdkEnum.from_tag": ["fromTag"], "SpsdkEnum.from_label": ["fromLabel"], "SpsdkEnum.get_tag": ["getTag"], "SpsdkEnum.get_label": ["getLabel"],
    "SpsdkEnum.get_description": ["getDescription"], "SpsdkEnum.contains": ["containsTag"], "SpsdkEnum.from_attr": ["containsTag"],
    "SpsdkEnum.labels": [], "SpsdkEnum.tags": [], "SpsdkEnum.create_from_dict": [],
    "SpsdkSoftEnum.from_tag": ["softFromTag"], "SpsdkSoftEnum.get_label": ["softGetLabel"], "SpsdkSoftEnum.get_description": ["softGetDescription"],
}
NOT_PURE = {"load_binary", "load_text", "load_file", "write_file", "get_abs_path", "find_dir", "find_file", "use_working_directory", "Timeout",
            "load_configuration", "get_printable_path", "get_spsdk_version", "load_secret", "SingletonMeta", "pack_timestamp", "unpack_timestamp",
            "align_block_fill_random", "SecBootBlckSize.align_block_fill_random"}


def inventory() -> list:
    """[(file, qualname, status)] for every public top-level function / public method of the three anchored files."""
    import re
    from extract import HERE
    props = (HERE.parent.parent / "lean" / "SpsdkVerif" / "Properties" / "C20.lean").read_text()
    stmts = " ".join(re.findall(r"^theorem .*?:=", props, flags=re.S | re.M))
    rows = []
    for rel in (MISC, SBMISC, "spsdk/utils/spsdk_enum.py"):
        tree = parse(rel)
        names = []
        for st in tree.body:
            if isinstance(st, ast.FunctionDef) and not st.name.startswith("_"):
                names.append(st.name)
            elif isinstance(st, ast.ClassDef) and not st.name.startswith("_"):
                meths = [m.name for m in st.body if isinstance(m, ast.FunctionDef) and (not m.name.startswith("_") or m.name in ("__str__", "_check_number", "_num_from_str"))]
                if st.name in INVENTORY_MAP or not meths:
                    names.append(st.name)
                names += [f"{st.name}.{m}" for m in meths if st.name not in ("Timeout", "SingletonMeta", "BinaryPattern", "Endianness", "SpsdkEnumMember")
                          or f"{st.name}.{m}" in INVENTORY_MAP]
        for n in names:
            keys = INVENTORY_MAP.get(n)
            if keys and any(k in stmts for k in keys):
                status = "theorem"
            elif n in NOT_PURE or n.split(".")[0] in NOT_PURE:
                status = "not pure (I/O, clock, randomness)" + (" - guard generated + theorem" if keys and any(k in stmts for k in keys) else "")
            else:
                status = "NOT under a theorem"
            rows.append((rel, n, status))
    return rows


if __name__ == "__main__":
    import sys
    if "--inventory" in sys.argv:
        for rel, n, status in inventory():
            print(f"{rel}::{n}: {status}")
