"""C01/C02 generator: Generated/MbiClasses.lean and Generated/IvtConsts.lean from the CURRENT sources (static reading only).

MbiClasses (namespace SpsdkVerif.Generated.MbiClasses)
  * `inductive MixinName` - every class of spsdk/image/mbi/mbi_mixin.py derived from Mbi_Mixin / Mbi_ExportMixin,
  * per mixin facts read from the class bodies: parent mixin, data/export kind, which class of its ancestry provides each
    pipeline method (`provider`), the attributes a class containing the mixin answers `hasattr` for (class body names +
    NEEDED_MEMBERS keys), PRE_PARSED, COUNT_IN_LEGACY_CERT_BLOCK_LEN,
  * `shapes` - the distinct (image type, ordered mixin list) pairs of the device database,
  * `rows`   - every (family, revision, target, authentication) of `features.mbi.images` of every database.yaml after the
    defaults / revision / alias resolution that spsdk/utils/database.py performs, with its shape index, TrustZone preset
    size and `fixed_image_type`.
IvtConsts (namespace SpsdkVerif.Generated.IvtConsts)
  * Mbi_MixinIvt offsets / masks / shifts / flag bits, the flag getters and `create_flags` translated from the AST,
  * image type values, TrustZone type tags, HMAC / key store / counter-IV sizes, encrypted-image constants,
    relocation table marker and record sizes, manifest constants, cert-block-v1 header constants, BCA/FCF offsets and
    sizes, mc56 (Vx) offsets, key-store derivation constants, CRC-32/MPEG-2 parameters.
"""
from __future__ import annotations

import ast
import struct
from pathlib import Path

import yaml

from extract import REPO, emit, parse
from consteval import ModuleEnv, NotConst, norm_struct

MIX = "spsdk/image/mbi/mbi_mixin.py"
MBI = "spsdk/image/mbi/mbi.py"
CLS = "spsdk/image/mbi/mbi_classes.py"
TZ = "spsdk/image/trustzone.py"
KS = "spsdk/image/keystore.py"
CB = "spsdk/utils/crypto/cert_blocks.py"
RK = "spsdk/utils/crypto/rkht.py"
CRC = "spsdk/crypto/crc.py"
BCA = "spsdk/image/bca/bca.py"
FCF = "spsdk/image/fcf/fcf.py"

METHODS = ["collect_data", "encrypt", "post_encrypt", "sign", "finalize", "disassemble_image", "mix_len", "mix_app_len",
           "mix_parse", "mix_validate", "update_ivt", "check_total_length", "disassembly_app_data", "clean_ivt"]
ATTRS = ["trust_zone", "image_subtype", "user_hw_key_enabled", "key_store", "app_table", "image_version",
         "image_version_to_image_type", "load_address", "cert_block", "hmac_key", "ivt_table", "bca", "fcf",
         "disassembly_app_data", "clean_ivt", "manifest", "just_header", "signature_provider"]


# ------------------------------------------------------------------------------------------------ AST helpers
def classes(tree):
    return {n.name: n for n in tree.body if isinstance(n, ast.ClassDef)}


def own_names(c):
    """names a class body binds (what `hasattr` sees): assignments with a value, functions, nested classes."""
    out = set()
    for st in c.body:
        if isinstance(st, ast.FunctionDef):
            out.add(st.name)
        elif isinstance(st, ast.Assign):
            for t in st.targets:
                if isinstance(t, ast.Name):
                    out.add(t.id)
        elif isinstance(st, ast.AnnAssign) and st.value is not None and isinstance(st.target, ast.Name):
            out.add(st.target.id)
        elif isinstance(st, ast.ClassDef):
            out.add(st.name)
    return out


def class_assign(c, name):
    for st in c.body:
        if isinstance(st, ast.Assign) and any(isinstance(t, ast.Name) and t.id == name for t in st.targets):
            return st.value
        if isinstance(st, ast.AnnAssign) and isinstance(st.target, ast.Name) and st.target.id == name and st.value is not None:
            return st.value
    return None


_MENVS = {}


def menv_of(rel):
    """consteval environment of a source file (constants are read BY VALUE, never by spelling)"""
    if rel not in _MENVS:
        _MENVS[rel] = ModuleEnv(parse(rel))
    return _MENVS[rel]


def int_consts(rel, clsname):
    """every class constant (own and inherited inside the module) that evaluates to an int / bytes / str: name -> value,
    in definition order (own class first)"""
    me = menv_of(rel)
    if clsname not in me.classes:
        return {}
    ce = me.cls(clsname)
    out, seen = {}, set()
    stack = [ce]
    while stack:
        k = stack.pop(0)
        for n in k.nodes:
            if n in seen:
                continue
            seen.add(n)
            try:
                v = ce.value(n)
            except (NotConst, RecursionError):
                continue
            if isinstance(v, (int, bytes, str)) and not isinstance(v, bool):
                out[n] = v
        stack.extend(k.bases())
    return out


def cval(rel, cls, node, local=None):
    """value of a constant expression at a use site inside class `cls` of file `rel` (raises NotConst)"""
    return menv_of(rel).eval(node, cls=cls, local=local)


def _self_attr_anywhere(me, attr):
    """`self.X` inside a mixin may name a constant of ANOTHER mixin of the composed class: the value, if every class of the
    module that defines X agrees on it"""
    vals = []
    for k in me.classes.values():
        if attr in k.nodes:
            try:
                vals.append(k.value(attr))
            except NotConst:
                return None
    if vals and all(v == vals[0] for v in vals):
        return vals[0]
    return None


def const_leaves(rel, cls, node, local=None):
    """values of the maximal INTEGER-valued constant sub-expressions of a function / expression, in source order: literals, named module /
    class constants (`X`, `Cls.X`, `self.X`, `cls.X`), arithmetic of them, `struct.calcsize(FMT)` ... - whatever spelling"""
    me = menv_of(rel)
    out = []

    def visit(n):
        if isinstance(n, ast.Expr) and isinstance(n.value, ast.Constant):
            return                                   # docstring
        if isinstance(n, (ast.Raise, ast.Assert)):
            return                                   # messages / assertions are not behaviour we read
        if isinstance(n, ast.expr):
            if isinstance(n, ast.JoinedStr):
                return
            try:
                v = me.eval(n, cls=cls, local=local)
                if isinstance(v, int) and not isinstance(v, bool):
                    out.append((v, n))
                    return
                if not isinstance(n, (ast.Call, ast.BinOp, ast.Subscript, ast.List, ast.Tuple, ast.Dict, ast.Set, ast.IfExp, ast.BoolOp, ast.Compare)):
                    return                           # a non-integer atom (string, bytes, None ...)
            except (NotConst, RecursionError, TypeError, ValueError):
                pass
            if isinstance(n, ast.Attribute) and isinstance(n.value, ast.Name) and n.value.id in ("self", "cls"):
                v = _self_attr_anywhere(me, n.attr)
                if v is not None:
                    out.append((v, n))
                return
            if isinstance(n, ast.Call):
                # the callee itself is not a value
                for a in list(n.args) + [k.value for k in n.keywords]:
                    visit(a)
                if isinstance(n.func, ast.Attribute):
                    visit(n.func.value)
                return
        for ch in ast.iter_child_nodes(n):
            visit(ch)
    visit(node)
    return out


def int_leaves(rel, cls, node, local=None, lo=None):
    vs = [v for v, _ in const_leaves(rel, cls, node, local) if isinstance(v, int) and not isinstance(v, bool)]
    return [v for v in vs if lo is None or v > lo]


def len_guard(rel, cls, fn, ops=(ast.Lt, ast.NotEq)):
    """N of the first `if len(x) <op> N [or ...]: raise ...` of a function, by value (the guard may be one disjunct of the test)"""
    def disjuncts(t):
        if isinstance(t, ast.BoolOp) and isinstance(t.op, ast.Or):
            for v in t.values:
                yield from disjuncts(v)
        else:
            yield t
    for st in ast.walk(fn):
        if isinstance(st, ast.If) and st.body and all(isinstance(b, ast.Raise) for b in st.body):
            for t in disjuncts(st.test):
                if isinstance(t, ast.Compare) and len(t.ops) == 1 and isinstance(t.ops[0], ops) and isinstance(t.left, ast.Call) \
                        and ast.unparse(t.left.func) == "len":
                    try:
                        v = cval(rel, cls, t.comparators[0])
                    except NotConst:
                        continue
                    if isinstance(v, int):
                        return v
    return None


def method(c, name):
    for st in c.body:
        if isinstance(st, ast.FunctionDef) and st.name == name:
            return st
    return None


def lean_ident(s):
    return s if s.isidentifier() else "«" + s + "»"


def lean_str(s):
    return '"' + s.replace("\\", "\\\\").replace('"', '\\"') + '"'


def lean_bytes(b):
    return "[" + ", ".join(str(x) for x in b) + "]"


# ------------------------------------------------------------------------------------------------ device database
def deep_update(d, u):
    for k, v in u.items():
        if isinstance(v, dict):
            d[k] = deep_update(d.get(k, {}) if isinstance(d.get(k, {}), dict) else {}, v)
        else:
            d[k] = v
    return d


def _copy(x):
    import copy
    return copy.deepcopy(x)


class Dev:
    def __init__(self, name, revisions, latest, alias=None):
        self.name, self.revisions, self.latest, self.alias = name, revisions, latest, alias  # revisions: list[(rev, features)]

    def rev(self, name):
        if name == "latest":
            name = self.latest
        for r, f in self.revisions:
            if r == name:
                return f
        raise KeyError(name)


def load_devices():
    data = REPO / "spsdk" / "data"
    defaults = yaml.safe_load((data / "common" / "database_defaults.yaml").read_text(encoding="utf-8"))
    cfgs = {}
    for d in sorted((data / "devices").iterdir()):
        f = d / "database.yaml"
        if d.is_dir() and f.exists():
            cfgs[d.name] = yaml.safe_load(f.read_text(encoding="utf-8"))
    devs = {}

    def load(name):
        if name in devs:
            return devs[name]
        cfg = cfgs[name]
        if cfg.get("alias"):
            base = load(cfg["alias"])
            revs = [(r, _copy(f)) for r, f in base.revisions]
            latest = cfg.get("latest", base.latest)
            if cfg.get("features"):
                for _, f in revs:
                    deep_update(f, _copy(cfg["features"]))
            for rname, upd in (cfg.get("revisions") or {}).items():
                upd = upd or {}
                cur = [f for r, f in revs if r == rname]
                if cur:
                    f = cur[0]
                else:
                    f = _copy([ff for r, ff in revs if r == upd["alias"]][0])
                    revs.append((rname, f))
                if upd.get("features"):
                    deep_update(f, _copy(upd["features"]))
            devs[name] = Dev(name, revs, latest, base)
            return devs[name]
        feats = _copy(cfg["features"])
        fd = _copy(defaults["features"])
        for fn in feats:
            deep_update(fd[fn], feats[fn])
            feats[fn] = fd[fn]
        revs = []
        for rname, upd in cfg["revisions"].items():
            f = _copy(feats)
            if upd and upd.get("features"):
                deep_update(f, _copy(upd["features"]))
            revs.append((rname, f))
        devs[name] = Dev(name, revs, cfg["latest"], None)
        return devs[name]

    for n in cfgs:
        load(n)
    return devs


def file_of(dev, fname):
    """Device.create_file_path: own folder first, then the aliased device's folder, then data/common."""
    d = dev
    while d is not None:
        p = REPO / "spsdk" / "data" / "devices" / d.name / fname
        if p.exists():
            return p
        d = d.alias
    p = REPO / "spsdk" / "data" / "common" / fname
    return p if p.exists() else None


_TZ_CACHE = {}


def tz_size(dev, feats):
    spec = (feats.get("tz") or {}).get("reg_spec")
    if not spec or "tz" not in feats:
        return 0
    p = file_of(dev, spec)
    if p is None:
        return 0
    if p not in _TZ_CACHE:
        _TZ_CACHE[p] = len(yaml.safe_load(p.read_text(encoding="utf-8"))) * 4
    return _TZ_CACHE[p]


# ------------------------------------------------------------------------------------------------ MbiClasses
def mixin_facts():
    tree = parse(MIX)
    cl = classes(tree)

    def chain(n):
        out = []
        while n in cl:
            out.append(n)
            bases = [b.id for b in cl[n].bases if isinstance(b, ast.Name)]
            n = bases[0] if bases else None
        return out

    names = [n for n in cl if n not in ("Mbi_Mixin", "Mbi_ExportMixin") and chain(n)[-1] in ("Mbi_Mixin", "Mbi_ExportMixin")]
    facts = {}
    for n in names:
        ch = chain(n)
        is_data = ch[-1] == "Mbi_Mixin"
        parent = ch[1] if ch[1] not in ("Mbi_Mixin", "Mbi_ExportMixin") else None
        prov = {}
        for m in METHODS:
            prov[m] = next((c for c in ch[:-1] if m in own_names(cl[c])), None)
        # attributes: names bound by the class bodies of the ancestry (incl. the root base) + NEEDED_MEMBERS keys of data mixins
        attrs = set()
        for c in ch:
            attrs |= own_names(cl[c])
        needed = pre = None
        legacy = None
        for c in ch:
            if needed is None and class_assign(cl[c], "NEEDED_MEMBERS") is not None:
                v = class_assign(cl[c], "NEEDED_MEMBERS")
                needed = []
                for k in (v.keys if isinstance(v, ast.Dict) else []):
                    try:
                        kv = cval(MIX, c, k)
                    except NotConst:
                        continue
                    if isinstance(kv, str):
                        needed.append(kv)
            if pre is None and class_assign(cl[c], "PRE_PARSED") is not None:
                pre = list(cval(MIX, c, class_assign(cl[c], "PRE_PARSED")))
            if legacy is None and class_assign(cl[c], "COUNT_IN_LEGACY_CERT_BLOCK_LEN") is not None:
                legacy = bool(cval(MIX, c, class_assign(cl[c], "COUNT_IN_LEGACY_CERT_BLOCK_LEN")))
        if is_data:
            attrs |= set(needed or [])
        facts[n] = dict(is_data=is_data, parent=parent, provider=prov, attrs=sorted(a for a in attrs if a in ATTRS),
                        pre=[p for p in (pre or []) if p in ATTRS] if is_data else [], legacy=bool(legacy) if legacy is not None else True,
                        needed=sorted(needed or []) if is_data else [])
    facts['__tz__'] = tz_loader_facts(cl, names, chain)
    return names, facts


# ------------------------------------------------------------------ TrustZone keys of the configuration (mix_load_from_config)
TZ_KEYS = ["enableTrustZone", "trustZonePresetFile"]


class UntrTz(Exception):
    pass


def _cfg_get_key(node):
    """`config.get(KEY[, falsy default])` -> key (KEY and the default are read by value), else None"""
    def val(n):
        try:
            return cval(MIX, None, n)
        except NotConst:
            return NotConst
    if isinstance(node, ast.Call) and isinstance(node.func, ast.Attribute) and node.func.attr == "get" \
            and isinstance(node.func.value, ast.Name) and node.func.value.id == "config" and node.args:
        k = val(node.args[0])
        if not isinstance(k, str):
            return None
        dflts = list(node.args[1:]) + [kw.value for kw in node.keywords]
        for dn in dflts:
            dv = val(dn)
            if dv is NotConst or dv:
                raise UntrTz("default of config.get is not a falsy constant: " + ast.unparse(node))
        return k
    return None      # `config[KEY]` raises for an absent key: not the same as a falsy default, refused by the callers


def tr_tz_loader(fn):
    """Decision structure of a `mix_load_from_config` that sets `self.trust_zone`, as a Lean term over the truthiness of the
    configuration keys TZ_KEYS: TzChoice.disabled / .enabled / .preset.  Anything else is refused."""
    def cond(node, env):
        if isinstance(node, ast.Name) and node.id in env:
            return env[node.id]
        k = _cfg_get_key(node)
        if k is not None:
            if k not in TZ_KEYS:
                raise UntrTz("unknown configuration key " + k)
            return k
        if isinstance(node, ast.UnaryOp) and isinstance(node.op, ast.Not):
            return f"(!{cond(node.operand, env)})"
        if isinstance(node, ast.BoolOp):
            op = " && " if isinstance(node.op, ast.And) else " || "
            return "(" + op.join(cond(v, env) for v in node.values) + ")"
        raise UntrTz("unsupported condition: " + ast.unparse(node)[:60])

    def block(sts, env):
        env = dict(env)
        sts = [st for st in sts if not (isinstance(st, ast.Expr) and isinstance(st.value, ast.Constant))]
        for i, st in enumerate(sts):
            last = i == len(sts) - 1
            if isinstance(st, ast.Assign) and len(st.targets) == 1 and isinstance(st.targets[0], ast.Name):
                k = _cfg_get_key(st.value)
                if k is None or k not in TZ_KEYS:
                    raise UntrTz("unsupported assignment: " + ast.unparse(st)[:60])
                env[st.targets[0].id] = k
                continue
            if not last:
                raise UntrTz("statement after the TrustZone decision: " + ast.unparse(sts[i + 1])[:60])
            if isinstance(st, ast.If):
                if not st.orelse:
                    raise UntrTz("`if` without else leaves the TrustZone undecided")
                return f"(if {cond(st.test, env)} then {block(st.body, env)} else {block(st.orelse, env)})"
            if isinstance(st, ast.Expr) and isinstance(st.value, ast.Call) and ast.unparse(st.value.func) == "self._load_preset_file" \
                    and len(st.value.args) == 1 and cond(st.value.args[0], env) == "trustZonePresetFile":
                return "TzChoice.preset"
            if isinstance(st, ast.Assign) and ast.unparse(st.targets[0]) == "self.trust_zone":
                v = ast.unparse(st.value)
                if v == "TrustZone.enabled()":
                    return "TzChoice.enabled"
                if v == "TrustZone.disabled()":
                    return "TzChoice.disabled"
            raise UntrTz("unsupported statement: " + ast.unparse(st)[:60])
        raise UntrTz("block decides nothing")
    return block(fn.body, {})


def tz_loader_facts(cl, names, chain):
    """(definers: class -> Lean term or error text, loader: mixin -> defining class or None).  The loader of a mixin is the first
    class of its ancestry that defines mix_load_from_config, looking further up while the body calls super()'s."""
    definers = {}
    for n in cl:
        fn = method(cl[n], "mix_load_from_config")
        if fn is None:
            continue
        sets = any((isinstance(x, ast.Assign) and any(ast.unparse(t) == "self.trust_zone" for t in x.targets))
                   or (isinstance(x, ast.Call) and ast.unparse(x.func) == "self._load_preset_file") for x in ast.walk(fn))
        if sets:
            try:
                definers[n] = ("ok", tr_tz_loader(fn), fn.lineno)
            except UntrTz as exc:
                definers[n] = ("untranslatable", str(exc), fn.lineno)
    loader = {}
    for n in names:
        res = None
        for c in chain(n)[:-1]:
            fn = method(cl[c], "mix_load_from_config")
            if fn is None:
                continue
            if c in definers:
                res = c
                break
            if "super().mix_load_from_config(" in ast.unparse(fn):
                continue
            break
        loader[n] = res
    return definers, loader


def gen_MbiClasses():
    names, facts = mixin_facts()
    tz_definers, tz_loader = facts.pop('__tz__')
    mbi_tree = parse(MBI)
    image_types = {}
    for st in mbi_tree.body:
        if isinstance(st, ast.Assign) and isinstance(st.targets[0], ast.Name) and st.targets[0].id.endswith("_IMAGE") \
                and isinstance(st.value, ast.Tuple):
            image_types[st.targets[0].id] = cval(MBI, None, st.value.elts[0])
    devs = load_devices()
    shapes, rows, problems = [], [], []
    for name in sorted(devs):
        dev = devs[name]
        for rname, feats in dev.revisions:
            mbi = feats.get("mbi")
            if not mbi or not mbi.get("images"):
                continue
            fixed = mbi.get("fixed_image_type", -1)
            tzs = tz_size(dev, feats)
            for tgt, auths in mbi["images"].items():
                for auth, cn in auths.items():
                    d = mbi["mbi_classes"].get(cn)
                    if d is None:
                        problems.append(f"{name}/{rname}: class {cn} missing")
                        continue
                    it = image_types.get(d["image_type"])
                    mix = tuple(d["mixins"])
                    unknown = [m for m in mix if m not in facts]
                    if it is None or unknown:
                        problems.append(f"{name}/{rname}/{cn}: image type {d['image_type']} / unknown mixins {unknown}")
                        continue
                    sh = (it, mix)
                    if sh not in shapes:
                        shapes.append(sh)
                    rows.append((name, rname, tgt, auth, cn, shapes.index(sh), tzs, int(fixed)))
    o = ["namespace SpsdkVerif.Generated.MbiClasses", ""]
    o.append("/-- every mixin class of mbi_mixin.py (derived from Mbi_Mixin or Mbi_ExportMixin) -/")
    o.append("inductive MixinName where")
    for n in names:
        o.append(f"  | {n}")
    o.append("  deriving DecidableEq, Repr, Inhabited\n")
    o.append("inductive Method where")
    for m in METHODS:
        o.append(f"  | {m}")
    o.append("  deriving DecidableEq, Repr\n")
    o.append("inductive Attr where")
    for a in ATTRS:
        o.append(f"  | {a}")
    o.append("  deriving DecidableEq, Repr\n")
    o.append("open MixinName in\n/-- derived from Mbi_Mixin (true) or from Mbi_ExportMixin (false) -/\ndef isData : MixinName → Bool")
    for n in names:
        o.append(f"  | {n} => {'true' if facts[n]['is_data'] else 'false'}")
    o.append("\nopen MixinName in\n/-- the mixin class it derives from (none: directly from the root base) -/\ndef parent : MixinName → Option MixinName")
    for n in names:
        o.append(f"  | {n} => {'some ' + facts[n]['parent'] if facts[n]['parent'] else 'none'}")
    o.append("\nopen MixinName Method in\n/-- the class of the ancestry whose body defines the method (none: the root base's default) -/\n"
             "def provider : MixinName → Method → Option MixinName")
    for n in names:
        for m in METHODS:
            p = facts[n]["provider"][m]
            if p:
                o.append(f"  | {n}, {m} => some {p}")
    o.append("  | _, _ => none")
    o.append("\nopen MixinName Attr in\n/-- attributes `hasattr` finds on a class containing this mixin: names bound in the class bodies of its ancestry and, for\n"
             "    data mixins, the keys of NEEDED_MEMBERS (restricted to the attributes the model asks about) -/\ndef attrs : MixinName → List Attr")
    for n in names:
        o.append(f"  | {n} => [{', '.join(facts[n]['attrs'])}]")
    o.append("\nopen MixinName Attr in\ndef preParsed : MixinName → List Attr")
    for n in names:
        o.append(f"  | {n} => [{', '.join(facts[n]['pre'])}]")
    o.append("\nopen MixinName in\ndef countInLegacyCertBlockLen : MixinName → Bool")
    for n in names:
        o.append(f"  | {n} => {'true' if facts[n]['legacy'] else 'false'}")
    o.append("\nopen MixinName in\n/-- distinct (image type, ordered mixin list) of the device database -/\ndef shapes : List (Nat × List MixinName) := [")
    o.append(",\n".join(f"  ({it}, [{', '.join(mix)}])" for it, mix in shapes))
    o.append("]\n")
    o.append("structure Row where\n  family : String\n  revision : String\n  target : String\n  auth : String\n  clsName : String\n"
             "  shape : Nat\n  tzSize : Nat\n  fixedImageType : Int\n  deriving Repr\n")
    # rows in chunks (a single huge list literal elaborates slowly)
    chunk = 64
    parts = []
    for i in range(0, len(rows), chunk):
        nm = f"rows{i // chunk}"
        parts.append(nm)
        o.append(f"def {nm} : List Row := [")
        o.append(",\n".join(f"  ⟨{lean_str(f)}, {lean_str(r)}, {lean_str(t)}, {lean_str(a)}, {lean_str(cn)}, {sh}, {tz}, {fx}⟩"
                            for f, r, t, a, cn, sh, tz, fx in rows[i:i + chunk]))
        o.append("]\n")
    o.append("def rows : List Row := " + (" ++ ".join(parts) if parts else "[]") + "\n")
    o.append("/-- (shape index, TrustZone preset size, fixed image type) of every row, without the strings (for `decide`) -/")
    o.append("def rowKeys : List (Nat × Nat × Int) := [" + ", ".join(f"({sh}, {tz}, {fx})" for sh, tz, fx in
                                                                        sorted({(r[5], r[6], r[7]) for r in rows})) + "]\n")
    if problems:
        o.append("-- PROBLEMS: the database refers to something the extractor cannot resolve")
        for p in problems:
            o.append(f"-- {p}")
        o.append("def extractionProblems : Nat := " + str(len(problems)) + "\nexample : extractionProblems = 0 := by decide\n")
    o.append("/-! ### the TrustZone keys of the configuration (`mix_load_from_config`) -/")
    o.append("/-- what a `mix_load_from_config` makes of `enableTrustZone` / `trustZonePresetFile`: TrustZone.disabled(), TrustZone.enabled(),\n"
             "    or the preset file is loaded -/")
    o.append("inductive TzChoice where\n  | disabled | enabled | preset\n  deriving DecidableEq, Repr\n")
    o.append("open MixinName in\n/-- the class of the ancestry whose `mix_load_from_config` decides the TrustZone of the image (following `super()` calls);\n"
             "    none: the mixin does not read the TrustZone keys -/\ndef tzConfigLoader : MixinName → Option MixinName")
    for n in names:
        if tz_loader[n]:
            o.append(f"  | {n} => some {tz_loader[n]}")
    o.append("  | _ => none\n")
    tz_meta = {}
    o.append("open MixinName in\n/-- the decision of the loaders, translated from the AST; arguments: truthiness of `config.get(\"enableTrustZone\")` and of\n"
             "    `config.get(\"trustZonePresetFile\")` (absent, false and the empty string are falsy) -/\n"
             "def tzLoad : MixinName → Bool → Bool → Option TzChoice")
    for n in names:
        if n in tz_definers:
            kind, txt, line = tz_definers[n]
            tz_meta[n] = kind if kind == "ok" else f"untranslatable: {txt}"
            if kind == "ok":
                o.append(f"  -- `{n}.mix_load_from_config`")
                o.append(f"  | {n}, enableTrustZone, trustZonePresetFile => some {txt}")
            else:
                o.append(f"  -- untranslatable: {n}.mix_load_from_config: {txt}")
    o.append("  | _, _, _ => none\n")
    o.append("end SpsdkVerif.Generated.MbiClasses")
    meta = {"tz_loaders": tz_meta, "tz_loader_of": tz_loader, "mixins": names, "facts": facts, "image_types": image_types, "problems": problems,
            "shapes": [[it, list(mix)] for it, mix in shapes], "rows": [list(r) for r in rows]}
    emit("MbiClasses", "\n".join(o) + "\n", meta)


# ------------------------------------------------------------------------------------------------ IvtConsts
class Untr(Exception):
    pass


CONST_NAMES = {
    "IVT_IMAGE_LENGTH_OFFSET": "ivtImageLengthOffset", "IVT_IMAGE_FLAGS_OFFSET": "ivtImageFlagsOffset",
    "IVT_CRC_CERTIFICATE_OFFSET": "ivtCrcCertificateOffset", "IVT_LOAD_ADDR_OFFSET": "ivtLoadAddrOffset",
    "IVT_IMAGE_FLAGS_IMAGE_TYPE_MASK": "imageTypeMask", "IVT_IMAGE_FLAGS_TZ_TYPE_MASK": "tzTypeMask",
    "IVT_IMAGE_FLAGS_TZ_TYPE_SHIFT": "tzTypeShift", "IVT_IMAGE_FLAGS_IMG_VER_MASK": "imgVerMask",
    "IVT_IMAGE_FLAGS_IMG_VER_SHIFT": "imgVerShift", "IVT_IMAGE_FLAGS_SUB_TYPE_MASK": "subTypeMask",
    "IVT_IMAGE_FLAGS_SUB_TYPE_SHIFT": "subTypeShift", "_BOOT_IMAGE_VERSION_FLAG": "bootImageVersionFlag",
    "_RELOC_TABLE_FLAG": "relocTableFlag", "_HW_USER_KEY_EN_FLAG": "hwUserKeyEnFlag", "_KEY_STORE_FLAG": "keyStoreFlag",
}

# sub-expressions of create_flags that stand for a model parameter: unparse text -> (lean name, type)
ATOMS = {
    "int(self.IMAGE_TYPE[0])": ("imageType", "Nat"),
    "hasattr(self, 'trust_zone')": ("hasTrustZone", "Bool"),
    "self.trust_zone.type.tag": ("tzTag", "Nat"),
    "hasattr(self, 'image_subtype')": ("hasSubType", "Bool"),
    "self.image_subtype": ("subType", "Nat"),
    "hasattr(self, 'user_hw_key_enabled')": ("hasHwKey", "Bool"),
    "self.user_hw_key_enabled": ("hwKey", "Bool"),
    "hasattr(self, 'key_store')": ("hasKeyStore", "Bool"),
    "self.key_store": ("keyStoreSet", "Bool"),
    "len(self.key_store.export())": ("keyStoreLen", "Nat"),
    "hasattr(self, 'app_table')": ("hasAppTable", "Bool"),
    "self.app_table": ("appTableSet", "Bool"),
    "hasattr(self, 'image_version')": ("hasImageVersion", "Bool"),
    "self.image_version": ("imageVersion", "Nat"),
    "hasattr(self, 'image_version_to_image_type')": ("hasVersionToType", "Bool"),
    "self.image_version_to_image_type": ("versionToType", "Bool"),
}
ATOM_ORDER = ["imageType", "hasTrustZone", "tzTag", "hasSubType", "subType", "hasHwKey", "hwKey", "hasKeyStore", "keyStoreSet",
              "keyStoreLen", "hasAppTable", "appTableSet", "hasImageVersion", "imageVersion", "hasVersionToType", "versionToType"]


def tr_expr(node, consts, want, flags_name=None):
    """translate a Python expression over atoms / class constants / `flags` into Lean; want in {"Nat","Bool"}."""
    txt = ast.unparse(node)
    if txt in ATOMS:
        nm, ty = ATOMS[txt]
        if ty == want:
            return nm
        if ty == "Nat" and want == "Bool":
            return f"({nm} != 0)"
        raise Untr(f"atom {txt} used as {want}")
    if isinstance(node, ast.Name) and node.id == flags_name:
        if want == "Nat":
            return "flags"
        return "(flags != 0)"
    # any constant sub-expression (literal, class constant, `1 << 10`, `MASK << SHIFT` ...) is emitted BY VALUE, so that the
    # generated text does not depend on how the source spells it
    try:
        v = cval(MIX, "Mbi_MixinIvt", node)
    except (NotConst, RecursionError):
        v = None
    if isinstance(v, int) and not isinstance(v, bool) and v >= 0:
        if want == "Nat":
            return str(v)
        raise Untr("int constant in boolean position")
    if isinstance(node, ast.BinOp) and type(node.op) in (ast.LShift, ast.RShift, ast.BitAnd, ast.BitOr):
        op = {ast.LShift: "<<<", ast.RShift: ">>>", ast.BitAnd: "&&&", ast.BitOr: "|||"}[type(node.op)]
        e = f"({tr_expr(node.left, consts, 'Nat', flags_name)} {op} {tr_expr(node.right, consts, 'Nat', flags_name)})"
        return e if want == "Nat" else f"({e} != 0)"
    if isinstance(node, ast.BoolOp) and want == "Bool":
        op = " && " if isinstance(node.op, ast.And) else " || "
        return "(" + op.join(tr_expr(v, consts, "Bool", flags_name) for v in node.values) + ")"
    if isinstance(node, ast.Compare) and len(node.ops) == 1 and want == "Bool":
        op = {ast.Gt: ">", ast.GtE: "≥", ast.Lt: "<", ast.LtE: "≤", ast.Eq: "==", ast.NotEq: "!="}.get(type(node.ops[0]))
        if op is None:
            raise Untr("comparison " + txt)
        a, b = tr_expr(node.left, consts, "Nat", flags_name), tr_expr(node.comparators[0], consts, "Nat", flags_name)
        return f"(decide ({a} {op} {b}))" if op in (">", "≥", "<", "≤") else f"({a} {op} {b})"
    if isinstance(node, ast.Call) and isinstance(node.func, ast.Name) and node.func.id == "bool" and len(node.args) == 1 and want == "Bool":
        return tr_expr(node.args[0], consts, "Bool", flags_name)
    raise Untr("unsupported expression: " + txt)


def tr_create_flags(fn, consts):
    """`flags = <expr>` followed by `if <cond>: [raise-guard] flags |= <expr> ...` and `return flags`."""
    lines = []
    body = [st for st in fn.body if not (isinstance(st, ast.Expr) and isinstance(st.value, ast.Constant))]
    if not (isinstance(body[0], ast.Assign) and ast.unparse(body[0].targets[0]) == "flags"):
        raise Untr("first statement is not `flags = ...`")
    lines.append(f"  let flags := {tr_expr(body[0].value, consts, 'Nat')}")

    def stmts(sts, cond):
        for st in sts:
            if isinstance(st, ast.If) and not st.orelse:
                # `if x is None: raise` guards do not change the value
                if all(isinstance(s, ast.Raise) for s in st.body):
                    continue
                c = tr_expr(st.test, consts, "Bool")
                stmts(st.body, c if cond is None else f"({cond} && {c})")
            elif (isinstance(st, ast.AugAssign) and ast.unparse(st.target) == "flags" and isinstance(st.op, ast.BitOr)) or \
                    (isinstance(st, ast.Assign) and len(st.targets) == 1 and ast.unparse(st.targets[0]) == "flags"
                     and isinstance(st.value, ast.BinOp) and isinstance(st.value.op, ast.BitOr)
                     and "flags" in (ast.unparse(st.value.left), ast.unparse(st.value.right))):
                # `flags |= x`, `flags = flags | x`, `flags = x | flags`
                val = st.value if isinstance(st, ast.AugAssign) else \
                    (st.value.right if ast.unparse(st.value.left) == "flags" else st.value.left)
                e = tr_expr(val, consts, "Nat")
                lines.append(f"  let flags := if {cond} then flags ||| {e} else flags" if cond else f"  let flags := flags ||| {e}")
            else:
                raise Untr("unsupported statement: " + ast.unparse(st)[:60])

    if not (isinstance(body[-1], ast.Return) and ast.unparse(body[-1].value) == "flags"):
        raise Untr("last statement is not `return flags`")
    stmts(body[1:-1], None)
    lines.append("  flags")
    params = " ".join(f"({n} : {dict((v[0], v[1]) for v in ATOMS.values())[n]})" for n in ATOM_ORDER)
    return f"def createFlags {params} : Nat :=\n" + "\n".join(lines)


def tr_getter(fn, consts, lean, ret):
    """classmethod getters: `flags = cls.get_flags_from_data(data)`; optional `if <cond>: return <e>`; `return <e>`."""
    body = [st for st in fn.body if not (isinstance(st, ast.Expr) and isinstance(st.value, ast.Constant))]
    flags_name = None
    out = []
    for st in body:
        if isinstance(st, ast.Assign) and isinstance(st.value, ast.Call) and ast.unparse(st.value.func) == "cls.get_flags_from_data":
            flags_name = ast.unparse(st.targets[0])
            continue
        break

    def sub(node):
        # inline `cls.get_flags_from_data(data)` as `flags`
        class R(ast.NodeTransformer):
            def visit_Call(self, n):  # noqa: N802
                if ast.unparse(n.func) == "cls.get_flags_from_data":
                    return ast.Name(id="__flags__", ctx=ast.Load())
                return self.generic_visit(n)
        return R().visit(node)

    rest = [st for st in body if not (isinstance(st, ast.Assign) and isinstance(st.value, ast.Call)
                                      and ast.unparse(st.value.func) == "cls.get_flags_from_data")]
    fname = flags_name or "__flags__"
    expr = None
    for st in reversed(rest):
        if isinstance(st, ast.Return):
            e = tr_expr(sub(st.value), consts, ret, fname)
            expr = e if expr is None else expr
            if expr is e:
                continue
        elif isinstance(st, ast.If) and not st.orelse and len(st.body) == 1 and isinstance(st.body[0], ast.Return) and expr is not None:
            expr = f"if {tr_expr(sub(st.test), consts, 'Bool', fname)} then {tr_expr(sub(st.body[0].value), consts, ret, fname)} else {expr}"
            continue
        raise Untr("unsupported statement in getter: " + ast.unparse(st)[:60])
    if expr is None:
        raise Untr("no return")
    return f"def {lean} (flags : Nat) : {ret} := {expr}"


def safe_bytes(node):
    """evaluate `bytes([1] + [0] * 15 + ...)`-style literals"""
    for n in ast.walk(node):
        if not isinstance(n, (ast.Call, ast.Name, ast.List, ast.BinOp, ast.Constant, ast.Add, ast.Mult, ast.Load)):
            raise ValueError("not a bytes literal expression")
        if isinstance(n, ast.Name) and n.id != "bytes":
            raise ValueError("name " + n.id)
    return bytes(eval(compile(ast.Expression(node), "<lit>", "eval"), {"__builtins__": {}, "bytes": bytes}))  # noqa: S307


def _is_int(v):
    return isinstance(v, int) and not isinstance(v, bool)


def find_calls(node, fname):
    return [n for n in ast.walk(node) if isinstance(n, ast.Call) and ast.unparse(n.func) == fname]


def gen_IvtConsts():
    mt = parse(MIX)
    cl = classes(mt)
    ivt = cl["Mbi_MixinIvt"]
    consts = int_consts(MIX, "Mbi_MixinIvt")
    o = ["namespace SpsdkVerif.Generated.IvtConsts", ""]
    meta = {"consts": {}, "translated": {}}

    def d(name, val, doc=None):
        if doc:
            o.append(f"/-- {doc} -/")
        o.append(f"def {name} : Nat := {val}")
        meta["consts"][name] = val

    o.append("/-! ### Mbi_MixinIvt class constants -/")
    for py, ln in CONST_NAMES.items():
        if py in consts:
            d(ln, consts[py], f"`Mbi_MixinIvt.{py}`")
        else:
            o.append(f"-- MISSING: Mbi_MixinIvt.{py}")
    o.append("\n/-! ### flag getters and `create_flags`, translated from the AST -/")
    getters = [("get_image_type", "getImageType", "Nat"), ("get_tz_type", "getTzType", "Nat"), ("get_image_version", "getImageVersion", "Nat"),
               ("get_sub_type", "getSubType", "Nat"), ("get_hw_key_enabled", "getHwKeyEnabled", "Bool"),
               ("get_key_store_presented", "getKeyStorePresented", "Bool"), ("get_app_table_presented", "getAppTablePresented", "Bool")]
    for py, ln, ret in getters:
        try:
            fn = method(ivt, py)
            if fn is None:
                raise Untr("method not found")
            txt = tr_getter(fn, consts, ln, ret)
            o.append(f"/-- translated from `Mbi_MixinIvt.{py}` -/")
            o.append(txt)
            meta["translated"][ln] = "translated"
        except Untr as exc:
            o.append(f"-- untranslatable: Mbi_MixinIvt.{py}: {exc}")
            meta["translated"][ln] = f"untranslatable: {exc}"
    try:
        fn = method(ivt, "create_flags")
        if fn is None:
            raise Untr("method not found")
        txt = tr_create_flags(fn, consts)
        o.append("/-- translated from `Mbi_MixinIvt.create_flags`; the parameters are the attribute reads of the body -/")
        o.append(txt)
        meta["translated"]["createFlags"] = "translated"
    except Untr as exc:
        o.append(f"-- untranslatable: Mbi_MixinIvt.create_flags: {exc}")
        meta["translated"]["createFlags"] = f"untranslatable: {exc}"

    o.append("\n/-! ### image types (mbi.py), TrustZone type tags (trustzone.py) -/")
    for st in parse(MBI).body:
        if isinstance(st, ast.Assign) and isinstance(st.targets[0], ast.Name) and st.targets[0].id.endswith("_IMAGE") and isinstance(st.value, ast.Tuple):
            nm = "".join(w.capitalize() for w in st.targets[0].id.lower().split("_"))
            d("type" + nm, cval(MBI, None, st.value.elts[0]), f"`{st.targets[0].id}`")
    tzc = classes(parse(TZ)).get("TrustZoneType")
    for st in (tzc.body if tzc else []):
        if isinstance(st, ast.Assign) and isinstance(st.value, ast.Tuple):
            d("tz" + st.targets[0].id.capitalize(), cval(TZ, "TrustZoneType", st.value.elts[0]), f"`TrustZoneType.{st.targets[0].id}`")

    o.append("\n/-! ### HMAC, key store, counter IV, encrypted image layout -/")
    hm = int_consts(MIX, "Mbi_MixinHmac")
    d("hmacOffset", hm.get("HMAC_OFFSET", 0), "`Mbi_MixinHmac.HMAC_OFFSET`")
    d("hmacSize", hm.get("HMAC_SIZE", 0), "`Mbi_MixinHmac.HMAC_SIZE`")
    d("hmacKeyLength", hm.get("_HMAC_KEY_LENGTH", 0), "`Mbi_MixinHmac._HMAC_KEY_LENGTH`")
    d("ctrInitVectorSize", int_consts(MIX, "Mbi_MixinCtrInitVector").get("_CTR_INIT_VECTOR_SIZE", 0), "`Mbi_MixinCtrInitVector._CTR_INIT_VECTOR_SIZE`")
    ksc = classes(parse(KS))["KeyStore"]
    d("keyStoreSize", int_consts(KS, "KeyStore").get("KEY_STORE_SIZE", 0), "`KeyStore.KEY_STORE_SIZE`")
    # img_len: total_len + signature_size + <encrypted IVT copy> + <IV>
    enc = cl["Mbi_ExportMixinAppTrustZoneCertBlockEncrypt"]
    ENC = "Mbi_ExportMixinAppTrustZoneCertBlockEncrypt"
    ksns = type("KeyStoreConsts", (), dict(int_consts(KS, "KeyStore")))      # `KeyStore.X` used inside mbi_mixin.py
    loc = {"KeyStore": ksns}
    # img_len: total_len + signature_size + <encrypted IVT copy> + <IV>: the constant addends of the returned sum, by value
    ret = [st for st in ast.walk(method(enc, "img_len")) if isinstance(st, ast.Return)]
    lits = int_leaves(MIX, ENC, ret[-1].value, loc) if ret else []
    d("encIvtCopySize", lits[0] if len(lits) == 2 else 0, "first constant addend of `img_len` (size of the copy of the encrypted IVT)")
    d("encIvSize", lits[1] if len(lits) == 2 else 0, "second constant addend of `img_len` (counter IV)")
    pe = sorted(set(int_leaves(MIX, ENC, method(enc, "post_encrypt"), loc)))
    o.append(f"/-- values of the constant expressions of `post_encrypt` (literals and named constants alike) -/\ndef postEncryptLiterals : List Nat := {pe}")
    # the slices `image_bytes[lo:hi]` of the forward (non-revert) part of post_encrypt, bounds normalised: constants BY VALUE,
    # `self.app_len` -> "app_len", absent -> "", anything else as unparsed source (so `len(self.app)` is visible as such)
    def _bound(b):
        if b is None:
            return ""
        try:
            v = cval(MIX, ENC, b, loc)
            if isinstance(v, int) and not isinstance(v, bool):
                return str(v)
        except Exception:  # noqa: BLE001  (not a constant of this class)
            pass
        if isinstance(b, ast.Attribute) and isinstance(b.value, ast.Name) and b.value.id == "self":
            sib = _self_attr_anywhere(menv_of(MIX), b.attr)       # a constant another mixin of the composed class provides (e.g. HMAC_OFFSET)
            if sib is not None:
                return str(sib)
        if isinstance(b, ast.Attribute) and isinstance(b.value, ast.Name) and b.value.id == "self":
            return b.attr
        return ast.unparse(b).replace('"', "'")
    pes = []
    for st in method(enc, "post_encrypt").body:
        if isinstance(st, ast.If) and isinstance(st.test, ast.Name) and st.test.id == "revert":
            continue
        for nd in ast.walk(st):
            if isinstance(nd, ast.Subscript) and isinstance(nd.value, ast.Name) and nd.value.id == "image_bytes" and isinstance(nd.slice, ast.Slice):
                pes.append((nd.lineno, nd.col_offset, _bound(nd.slice.lower), _bound(nd.slice.upper)))
    pes = [f'("{lo}", "{hi}")' for _, _, lo, hi in sorted(pes)]
    o.append("/-- the slices `image_bytes[lo:hi]` of the forward part of `post_encrypt`, in source order (constants by value, `self.x` as `x`) -/\n"
             f"def postEncryptSlices : List (String × String) := [{', '.join(pes)}]")
    mp = sorted(set(int_leaves(MIX, "Mbi_MixinCtrInitVector", method(cl["Mbi_MixinCtrInitVector"], "mix_parse"), loc)))
    o.append(f"/-- values of the constant expressions of `Mbi_MixinCtrInitVector.mix_parse` (literals and named constants alike) -/\ndef ctrIvParseLiterals : List Nat := {mp}")
    # minimal application size / minimal size of data with an IVT: `if len(x) < N: raise`
    d("minAppSize", len_guard(MIX, "Mbi_MixinApp", method(cl["Mbi_MixinApp"], "mix_validate"), (ast.Lt,)) or 0,
      "`Mbi_MixinApp.mix_validate`: minimal application size")
    d("minIvtSize", len_guard(MIX, "Mbi_MixinIvt", method(ivt, "check_total_length"), (ast.Lt,)) or 0,
      "`Mbi_MixinIvt.check_total_length`: minimal size of data with an IVT")
    try:
        k0 = cval(KS, "KeyStore", find_calls(method(ksc, "derive_hmac_key"), "aes_ecb_encrypt")[0].args[1])
        k1 = cval(KS, "KeyStore", find_calls(method(ksc, "derive_enc_image_key"), "aes_ecb_encrypt")[0].args[1])
        if not (isinstance(k0, bytes) and isinstance(k1, bytes)):
            raise NotConst("not bytes")
    except (NotConst, IndexError):
        k0 = k1 = b""
    o.append(f"/-- plaintext of `KeyStore.derive_hmac_key` -/\ndef deriveHmacKeyConst : List UInt8 := {lean_bytes(k0)}")
    o.append(f"/-- plaintext of `KeyStore.derive_enc_image_key` -/\ndef deriveEncImageKeyConst : List UInt8 := {lean_bytes(k1)}")
    d("userKeyLength", len_guard(KS, "KeyStore", method(ksc, "derive_hmac_key"), (ast.NotEq,)) or 0, "key length accepted by `KeyStore.derive_hmac_key`")

    o.append("\n/-! ### relocation table (mbi_classes.py) -/")
    ct = parse(CLS)
    cc = classes(ct)
    mk = sorted(set(int_leaves(CLS, "MultipleImageTable", method(cc["MultipleImageTable"], "reloc_table"), lo=0xFFFF)))
    mk2 = sorted(set(int_leaves(CLS, "MultipleImageTable", method(cc["MultipleImageTable"], "parse"), lo=0xFFFF)))
    d("relocMarkerExport", mk[0] if len(mk) == 1 else 0, "marker written by `MultipleImageTable.reloc_table`")
    d("relocMarkerParse", mk2[0] if len(mk2) == 1 else 0, "marker expected by `MultipleImageTable.parse`")
    hv = method(cc["MultipleImageTable"], "header_version")
    try:
        hvv = cval(CLS, "MultipleImageTable", hv.body[-1].value) if hv and isinstance(hv.body[-1], ast.Return) else 99
    except NotConst:
        hvv = 99
    d("relocHeaderVersion", hvv, "`header_version`")
    d("ltiLoad", int_consts(CLS, "MultipleImageEntry").get("LTI_LOAD", 99), "`MultipleImageEntry.LTI_LOAD`")
    al = [n for n in find_calls(method(cc["MultipleImageEntry"], "export_image"), "align_block")]
    try:
        alv = cval(CLS, "MultipleImageEntry", al[0].args[1]) if al and len(al[0].args) > 1 else 0
    except NotConst:
        alv = 0
    d("relocImageAlign", alv, "alignment of relocated images")

    o.append("\n/-! ### manifest (mbi_classes.py) -/")
    man = cc["MasterBootImageManifest"]
    mc = int_consts(CLS, "MasterBootImageManifest")
    o.append(f"def manifestMagic : List UInt8 := {lean_bytes(mc.get('MAGIC', b''))}")
    fmt = mc.get("FORMAT", "")
    fmt = norm_struct(fmt) if fmt else ""
    d("manifestHeaderSize", struct.calcsize(fmt) if fmt else 0, f"calcsize({fmt!r}) (format normalised: one code per field)")
    o.append(f"def manifestFormat : String := {lean_str(fmt)}")
    d("manifestFormatVersion", mc.get("FORMAT_VERSION", 0))
    md = int_consts(CLS, "MasterBootImageManifestDigest")
    d("manifestDigestPresentFlag", md.get("DIGEST_PRESENT_FLAG", 0))
    d("manifestHashTypeMask", md.get("HASH_TYPE_MASK", 0))

    o.append("\n/-! ### certificate block v1 header, RKHT (cert_blocks.py, rkht.py) -/")
    ch = int_consts(CB, "CertBlockHeader")
    fmt = ch.get("FORMAT", "")
    fmt = norm_struct(fmt) if fmt else ""
    d("certHeaderSize", struct.calcsize(fmt) if fmt else 0, f"calcsize({fmt!r}) (format normalised: one code per field)")
    o.append(f"def certHeaderFormat : String := {lean_str(fmt)}")
    o.append(f"def certHeaderSignature : List UInt8 := {lean_bytes(ch.get('SIGNATURE', b''))}")
    rk = int_consts(RK, "RKHTv1")
    d("rkhtEntries", rk.get("RKHT_SIZE", 0))
    d("rkhSize", rk.get("RKH_SIZE", 0))
    c21 = int_consts(CB, "CertBlockV21")
    o.append(f"def certV21Magic : List UInt8 := {lean_bytes(c21.get('MAGIC', b''))}")

    o.append("\n/-! ### BCA / FCF (mcxc) and the mc56 (Vx) layout -/")
    d("bcaOffset", int_consts(MIX, "Mbi_MixinBca").get("BCA_OFFSET", 0))
    d("fcfOffset", int_consts(MIX, "Mbi_MixinFcf").get("FCF_OFFSET", 0))
    d("bcaSize", int_consts(BCA, "BCA").get("SIZE", 0))
    d("fcfSize", int_consts(FCF, "FCF").get("SIZE", 0))
    for k, v in int_consts(MIX, "Mbi_MixinBcaTable").items():
        if not _is_int(v) or k not in menv_of(MIX).cls("Mbi_MixinBcaTable").nodes:
            continue
        d("vx" + "".join(w.capitalize() for w in k.lower().split("_")), v, f"`Mbi_MixinBcaTable.{k}`")

    o.append("\n/-! ### CRC-32/MPEG-2 (crc.py) -/")
    crc = None
    for n in ast.walk(parse(CRC)):
        if isinstance(n, ast.Dict):
            for k, v in zip(n.keys, n.values):
                if k is not None and ast.unparse(k) == "CrcAlg.CRC32_MPEG" and isinstance(v, ast.Call):
                    crc = {kw.arg: cval(CRC, None, kw.value) for kw in v.keywords}
    crc = crc or {}
    d("crcPolynomial", crc.get("polynomial", 0))
    d("crcInitialValue", crc.get("initial_value", 0))
    d("crcFinalXor", crc.get("final_xor", 1))
    o.append(f"def crcReverse : Bool := {'true' if crc.get('reverse', True) else 'false'}")
    o.append("\nend SpsdkVerif.Generated.IvtConsts")
    emit("IvtConsts", "\n".join(o) + "\n", meta)


GENERATORS = {"MbiClasses": gen_MbiClasses, "IvtConsts": gen_IvtConsts}
