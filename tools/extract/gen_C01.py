"""C01/C02 generator: Generated/MbiClasses.lean and Generated/IvtConsts.lean from the CURRENT sources (static reading only).

MbiClasses (namespace SpsdkVerif.Generated.MbiClasses)
  * `inductive MixinName` - every class of spsdk/image/mbi/mbi_mixin.py derived from Mbi_Mixin / Mbi_ExportMixin,
  * per mixin facts read from the class bodies: parent mixin, data/export kind, which class of its ancestry provides each
    pipeline method (`provider`), the attributes a class containing the mixin answers `hasattr` for (class body names +
    NEEDED_MEMBERS keys), PRE_PARSED, COUNT_IN_LEGACY_CERT_BLOCK_LEN,
  * `shapes` - the distinct (image type, ordered mixin list) pairs of the device database,
  * `rows`   - every (family, revision, target, authentication) of `features.mbi.images` of every database.yaml after the
    defaults / revision / alias resolution that spsdk/utils/database.py performs, with its shape index, TrustZone preset
    size and `fixed_image_type`.
IvtConsts (namespace SpsdkVerif.Generated.IvtConsts)
  * Mbi_MixinIvt offsets / masks / shifts / flag bits, the flag getters and `create_flags` translated from the AST,
  * image type values, TrustZone type tags, HMAC / key store / counter-IV sizes, encrypted-image constants,
    relocation table marker and record sizes, manifest constants, cert-block-v1 header constants, BCA/FCF offsets and
    sizes, mc56 (Vx) offsets, key-store derivation constants, CRC-32/MPEG-2 parameters.
"""
from __future__ import annotations

import ast
import struct
from pathlib import Path

import yaml

from extract import REPO, emit, parse

MIX = "spsdk/image/mbi/mbi_mixin.py"
MBI = "spsdk/image/mbi/mbi.py"
CLS = "spsdk/image/mbi/mbi_classes.py"
TZ = "spsdk/image/trustzone.py"
KS = "spsdk/image/keystore.py"
CB = "spsdk/utils/crypto/cert_blocks.py"
RK = "spsdk/utils/crypto/rkht.py"
CRC = "spsdk/crypto/crc.py"
BCA = "spsdk/image/bca/bca.py"
FCF = "spsdk/image/fcf/fcf.py"

METHODS = ["collect_data", "encrypt", "post_encrypt", "sign", "finalize", "disassemble_image", "mix_len", "mix_app_len",
           "mix_parse", "mix_validate", "update_ivt", "check_total_length", "disassembly_app_data", "clean_ivt"]
ATTRS = ["trust_zone", "image_subtype", "user_hw_key_enabled", "key_store", "app_table", "image_version",
         "image_version_to_image_type", "load_address", "cert_block", "hmac_key", "ivt_table", "bca", "fcf",
         "disassembly_app_data", "clean_ivt", "manifest", "just_header", "signature_provider"]


# ------------------------------------------------------------------------------------------------ AST helpers
def classes(tree):
    return {n.name: n for n in tree.body if isinstance(n, ast.ClassDef)}


def own_names(c):
    """names a class body binds (what `hasattr` sees): assignments with a value, functions, nested classes."""
    out = set()
    for st in c.body:
        if isinstance(st, ast.FunctionDef):
            out.add(st.name)
        elif isinstance(st, ast.Assign):
            for t in st.targets:
                if isinstance(t, ast.Name):
                    out.add(t.id)
        elif isinstance(st, ast.AnnAssign) and st.value is not None and isinstance(st.target, ast.Name):
            out.add(st.target.id)
        elif isinstance(st, ast.ClassDef):
            out.add(st.name)
    return out


def class_assign(c, name):
    for st in c.body:
        if isinstance(st, ast.Assign) and any(isinstance(t, ast.Name) and t.id == name for t in st.targets):
            return st.value
        if isinstance(st, ast.AnnAssign) and isinstance(st.target, ast.Name) and st.target.id == name and st.value is not None:
            return st.value
    return None


def fold(node, env):
    """restricted constant folder for class-level integer constants (`A = B + 0x20`)."""
    if isinstance(node, ast.Constant) and isinstance(node.value, (int, bytes, str)) and not isinstance(node.value, bool):
        return node.value
    if isinstance(node, ast.Name) and node.id in env:
        return env[node.id]
    if isinstance(node, ast.BinOp):
        a, b = fold(node.left, env), fold(node.right, env)
        if isinstance(a, int) and isinstance(b, int):
            ops = {ast.Add: lambda: a + b, ast.Sub: lambda: a - b, ast.Mult: lambda: a * b, ast.LShift: lambda: a << b,
                   ast.BitOr: lambda: a | b}
            if type(node.op) in ops:
                return ops[type(node.op)]()
    raise ValueError("not foldable: " + ast.unparse(node))


def int_consts(c):
    env = {}
    for st in c.body:
        tgt = val = None
        if isinstance(st, ast.Assign) and len(st.targets) == 1 and isinstance(st.targets[0], ast.Name):
            tgt, val = st.targets[0].id, st.value
        elif isinstance(st, ast.AnnAssign) and isinstance(st.target, ast.Name) and st.value is not None:
            tgt, val = st.target.id, st.value
        if tgt:
            try:
                env[tgt] = fold(val, env)
            except ValueError:
                pass
    return env


def method(c, name):
    for st in c.body:
        if isinstance(st, ast.FunctionDef) and st.name == name:
            return st
    return None


def lean_ident(s):
    return s if s.isidentifier() else "«" + s + "»"


def lean_str(s):
    return '"' + s.replace("\\", "\\\\").replace('"', '\\"') + '"'


def lean_bytes(b):
    return "[" + ", ".join(str(x) for x in b) + "]"


# ------------------------------------------------------------------------------------------------ device database
def deep_update(d, u):
    for k, v in u.items():
        if isinstance(v, dict):
            d[k] = deep_update(d.get(k, {}) if isinstance(d.get(k, {}), dict) else {}, v)
        else:
            d[k] = v
    return d


def _copy(x):
    import copy
    return copy.deepcopy(x)


class Dev:
    def __init__(self, name, revisions, latest, alias=None):
        self.name, self.revisions, self.latest, self.alias = name, revisions, latest, alias  # revisions: list[(rev, features)]

    def rev(self, name):
        if name == "latest":
            name = self.latest
        for r, f in self.revisions:
            if r == name:
                return f
        raise KeyError(name)


def load_devices():
    data = REPO / "spsdk" / "data"
    defaults = yaml.safe_load((data / "common" / "database_defaults.yaml").read_text(encoding="utf-8"))
    cfgs = {}
    for d in sorted((data / "devices").iterdir()):
        f = d / "database.yaml"
        if d.is_dir() and f.exists():
            cfgs[d.name] = yaml.safe_load(f.read_text(encoding="utf-8"))
    devs = {}

    def load(name):
        if name in devs:
            return devs[name]
        cfg = cfgs[name]
        if cfg.get("alias"):
            base = load(cfg["alias"])
            revs = [(r, _copy(f)) for r, f in base.revisions]
            latest = cfg.get("latest", base.latest)
            if cfg.get("features"):
                for _, f in revs:
                    deep_update(f, _copy(cfg["features"]))
            for rname, upd in (cfg.get("revisions") or {}).items():
                upd = upd or {}
                cur = [f for r, f in revs if r == rname]
                if cur:
                    f = cur[0]
                else:
                    f = _copy([ff for r, ff in revs if r == upd["alias"]][0])
                    revs.append((rname, f))
                if upd.get("features"):
                    deep_update(f, _copy(upd["features"]))
            devs[name] = Dev(name, revs, latest, base)
            return devs[name]
        feats = _copy(cfg["features"])
        fd = _copy(defaults["features"])
        for fn in feats:
            deep_update(fd[fn], feats[fn])
            feats[fn] = fd[fn]
        revs = []
        for rname, upd in cfg["revisions"].items():
            f = _copy(feats)
            if upd and upd.get("features"):
                deep_update(f, _copy(upd["features"]))
            revs.append((rname, f))
        devs[name] = Dev(name, revs, cfg["latest"], None)
        return devs[name]

    for n in cfgs:
        load(n)
    return devs


def file_of(dev, fname):
    """Device.create_file_path: own folder first, then the aliased device's folder, then data/common."""
    d = dev
    while d is not None:
        p = REPO / "spsdk" / "data" / "devices" / d.name / fname
        if p.exists():
            return p
        d = d.alias
    p = REPO / "spsdk" / "data" / "common" / fname
    return p if p.exists() else None


_TZ_CACHE = {}


def tz_size(dev, feats):
    spec = (feats.get("tz") or {}).get("reg_spec")
    if not spec or "tz" not in feats:
        return 0
    p = file_of(dev, spec)
    if p is None:
        return 0
    if p not in _TZ_CACHE:
        _TZ_CACHE[p] = len(yaml.safe_load(p.read_text(encoding="utf-8"))) * 4
    return _TZ_CACHE[p]


# ------------------------------------------------------------------------------------------------ MbiClasses
def mixin_facts():
    tree = parse(MIX)
    cl = classes(tree)

    def chain(n):
        out = []
        while n in cl:
            out.append(n)
            bases = [b.id for b in cl[n].bases if isinstance(b, ast.Name)]
            n = bases[0] if bases else None
        return out

    names = [n for n in cl if n not in ("Mbi_Mixin", "Mbi_ExportMixin") and chain(n)[-1] in ("Mbi_Mixin", "Mbi_ExportMixin")]
    facts = {}
    for n in names:
        ch = chain(n)
        is_data = ch[-1] == "Mbi_Mixin"
        parent = ch[1] if ch[1] not in ("Mbi_Mixin", "Mbi_ExportMixin") else None
        prov = {}
        for m in METHODS:
            prov[m] = next((c for c in ch[:-1] if m in own_names(cl[c])), None)
        # attributes: names bound by the class bodies of the ancestry (incl. the root base) + NEEDED_MEMBERS keys of data mixins
        attrs = set()
        for c in ch:
            attrs |= own_names(cl[c])
        needed = pre = None
        legacy = None
        for c in ch:
            if needed is None and class_assign(cl[c], "NEEDED_MEMBERS") is not None:
                v = class_assign(cl[c], "NEEDED_MEMBERS")
                needed = [k.value for k in v.keys if isinstance(k, ast.Constant)] if isinstance(v, ast.Dict) else []
            if pre is None and class_assign(cl[c], "PRE_PARSED") is not None:
                pre = ast.literal_eval(class_assign(cl[c], "PRE_PARSED"))
            if legacy is None and class_assign(cl[c], "COUNT_IN_LEGACY_CERT_BLOCK_LEN") is not None:
                legacy = ast.literal_eval(class_assign(cl[c], "COUNT_IN_LEGACY_CERT_BLOCK_LEN"))
        if is_data:
            attrs |= set(needed or [])
        facts[n] = dict(is_data=is_data, parent=parent, provider=prov, attrs=sorted(a for a in attrs if a in ATTRS),
                        pre=[p for p in (pre or []) if p in ATTRS] if is_data else [], legacy=bool(legacy) if legacy is not None else True,
                        needed=sorted(needed or []) if is_data else [])
    return names, facts


def gen_MbiClasses():
    names, facts = mixin_facts()
    mbi_tree = parse(MBI)
    image_types = {}
    for st in mbi_tree.body:
        if isinstance(st, ast.Assign) and isinstance(st.targets[0], ast.Name) and st.targets[0].id.endswith("_IMAGE") \
                and isinstance(st.value, ast.Tuple):
            image_types[st.targets[0].id] = ast.literal_eval(st.value.elts[0])
    devs = load_devices()
    shapes, rows, problems = [], [], []
    for name in sorted(devs):
        dev = devs[name]
        for rname, feats in dev.revisions:
            mbi = feats.get("mbi")
            if not mbi or not mbi.get("images"):
                continue
            fixed = mbi.get("fixed_image_type", -1)
            tzs = tz_size(dev, feats)
            for tgt, auths in mbi["images"].items():
                for auth, cn in auths.items():
                    d = mbi["mbi_classes"].get(cn)
                    if d is None:
                        problems.append(f"{name}/{rname}: class {cn} missing")
                        continue
                    it = image_types.get(d["image_type"])
                    mix = tuple(d["mixins"])
                    unknown = [m for m in mix if m not in facts]
                    if it is None or unknown:
                        problems.append(f"{name}/{rname}/{cn}: image type {d['image_type']} / unknown mixins {unknown}")
                        continue
                    sh = (it, mix)
                    if sh not in shapes:
                        shapes.append(sh)
                    rows.append((name, rname, tgt, auth, cn, shapes.index(sh), tzs, int(fixed)))
    o = ["namespace SpsdkVerif.Generated.MbiClasses", ""]
    o.append("/-- every mixin class of mbi_mixin.py (derived from Mbi_Mixin or Mbi_ExportMixin) -/")
    o.append("inductive MixinName where")
    for n in names:
        o.append(f"  | {n}")
    o.append("  deriving DecidableEq, Repr, Inhabited\n")
    o.append("inductive Method where")
    for m in METHODS:
        o.append(f"  | {m}")
    o.append("  deriving DecidableEq, Repr\n")
    o.append("inductive Attr where")
    for a in ATTRS:
        o.append(f"  | {a}")
    o.append("  deriving DecidableEq, Repr\n")
    o.append("open MixinName in\n/-- derived from Mbi_Mixin (true) or from Mbi_ExportMixin (false) -/\ndef isData : MixinName → Bool")
    for n in names:
        o.append(f"  | {n} => {'true' if facts[n]['is_data'] else 'false'}")
    o.append("\nopen MixinName in\n/-- the mixin class it derives from (none: directly from the root base) -/\ndef parent : MixinName → Option MixinName")
    for n in names:
        o.append(f"  | {n} => {'some ' + facts[n]['parent'] if facts[n]['parent'] else 'none'}")
    o.append("\nopen MixinName Method in\n/-- the class of the ancestry whose body defines the method (none: the root base's default) -/\n"
             "def provider : MixinName → Method → Option MixinName")
    for n in names:
        for m in METHODS:
            p = facts[n]["provider"][m]
            if p:
                o.append(f"  | {n}, {m} => some {p}")
    o.append("  | _, _ => none")
    o.append("\nopen MixinName Attr in\n/-- attributes `hasattr` finds on a class containing this mixin: names bound in the class bodies of its ancestry and, for\n"
             "    data mixins, the keys of NEEDED_MEMBERS (restricted to the attributes the model asks about) -/\ndef attrs : MixinName → List Attr")
    for n in names:
        o.append(f"  | {n} => [{', '.join(facts[n]['attrs'])}]")
    o.append("\nopen MixinName Attr in\ndef preParsed : MixinName → List Attr")
    for n in names:
        o.append(f"  | {n} => [{', '.join(facts[n]['pre'])}]")
    o.append("\nopen MixinName in\ndef countInLegacyCertBlockLen : MixinName → Bool")
    for n in names:
        o.append(f"  | {n} => {'true' if facts[n]['legacy'] else 'false'}")
    o.append("\nopen MixinName in\n/-- distinct (image type, ordered mixin list) of the device database -/\ndef shapes : List (Nat × List MixinName) := [")
    o.append(",\n".join(f"  ({it}, [{', '.join(mix)}])" for it, mix in shapes))
    o.append("]\n")
    o.append("structure Row where\n  family : String\n  revision : String\n  target : String\n  auth : String\n  clsName : String\n"
             "  shape : Nat\n  tzSize : Nat\n  fixedImageType : Int\n  deriving Repr\n")
    # rows in chunks (a single huge list literal elaborates slowly)
    chunk = 64
    parts = []
    for i in range(0, len(rows), chunk):
        nm = f"rows{i // chunk}"
        parts.append(nm)
        o.append(f"def {nm} : List Row := [")
        o.append(",\n".join(f"  ⟨{lean_str(f)}, {lean_str(r)}, {lean_str(t)}, {lean_str(a)}, {lean_str(cn)}, {sh}, {tz}, {fx}⟩"
                            for f, r, t, a, cn, sh, tz, fx in rows[i:i + chunk]))
        o.append("]\n")
    o.append("def rows : List Row := " + (" ++ ".join(parts) if parts else "[]") + "\n")
    o.append("/-- (shape index, TrustZone preset size, fixed image type) of every row, without the strings (for `decide`) -/")
    o.append("def rowKeys : List (Nat × Nat × Int) := [" + ", ".join(f"({sh}, {tz}, {fx})" for sh, tz, fx in
                                                                        sorted({(r[5], r[6], r[7]) for r in rows})) + "]\n")
    if problems:
        o.append("-- PROBLEMS: the database refers to something the extractor cannot resolve")
        for p in problems:
            o.append(f"-- {p}")
        o.append("def extractionProblems : Nat := " + str(len(problems)) + "\nexample : extractionProblems = 0 := by decide\n")
    o.append("end SpsdkVerif.Generated.MbiClasses")
    meta = {"mixins": names, "facts": facts, "image_types": image_types, "problems": problems,
            "shapes": [[it, list(mix)] for it, mix in shapes], "rows": [list(r) for r in rows]}
    emit("MbiClasses", "\n".join(o) + "\n", meta)


# ------------------------------------------------------------------------------------------------ IvtConsts
class Untr(Exception):
    pass


CONST_NAMES = {
    "IVT_IMAGE_LENGTH_OFFSET": "ivtImageLengthOffset", "IVT_IMAGE_FLAGS_OFFSET": "ivtImageFlagsOffset",
    "IVT_CRC_CERTIFICATE_OFFSET": "ivtCrcCertificateOffset", "IVT_LOAD_ADDR_OFFSET": "ivtLoadAddrOffset",
    "IVT_IMAGE_FLAGS_IMAGE_TYPE_MASK": "imageTypeMask", "IVT_IMAGE_FLAGS_TZ_TYPE_MASK": "tzTypeMask",
    "IVT_IMAGE_FLAGS_TZ_TYPE_SHIFT": "tzTypeShift", "IVT_IMAGE_FLAGS_IMG_VER_MASK": "imgVerMask",
    "IVT_IMAGE_FLAGS_IMG_VER_SHIFT": "imgVerShift", "IVT_IMAGE_FLAGS_SUB_TYPE_MASK": "subTypeMask",
    "IVT_IMAGE_FLAGS_SUB_TYPE_SHIFT": "subTypeShift", "_BOOT_IMAGE_VERSION_FLAG": "bootImageVersionFlag",
    "_RELOC_TABLE_FLAG": "relocTableFlag", "_HW_USER_KEY_EN_FLAG": "hwUserKeyEnFlag", "_KEY_STORE_FLAG": "keyStoreFlag",
}

# sub-expressions of create_flags that stand for a model parameter: unparse text -> (lean name, type)
ATOMS = {
    "int(self.IMAGE_TYPE[0])": ("imageType", "Nat"),
    "hasattr(self, 'trust_zone')": ("hasTrustZone", "Bool"),
    "self.trust_zone.type.tag": ("tzTag", "Nat"),
    "hasattr(self, 'image_subtype')": ("hasSubType", "Bool"),
    "self.image_subtype": ("subType", "Nat"),
    "hasattr(self, 'user_hw_key_enabled')": ("hasHwKey", "Bool"),
    "self.user_hw_key_enabled": ("hwKey", "Bool"),
    "hasattr(self, 'key_store')": ("hasKeyStore", "Bool"),
    "self.key_store": ("keyStoreSet", "Bool"),
    "len(self.key_store.export())": ("keyStoreLen", "Nat"),
    "hasattr(self, 'app_table')": ("hasAppTable", "Bool"),
    "self.app_table": ("appTableSet", "Bool"),
    "hasattr(self, 'image_version')": ("hasImageVersion", "Bool"),
    "self.image_version": ("imageVersion", "Nat"),
    "hasattr(self, 'image_version_to_image_type')": ("hasVersionToType", "Bool"),
    "self.image_version_to_image_type": ("versionToType", "Bool"),
}
ATOM_ORDER = ["imageType", "hasTrustZone", "tzTag", "hasSubType", "subType", "hasHwKey", "hwKey", "hasKeyStore", "keyStoreSet",
              "keyStoreLen", "hasAppTable", "appTableSet", "hasImageVersion", "imageVersion", "hasVersionToType", "versionToType"]


def tr_expr(node, consts, want, flags_name=None):
    """translate a Python expression over atoms / class constants / `flags` into Lean; want in {"Nat","Bool"}."""
    txt = ast.unparse(node)
    if txt in ATOMS:
        nm, ty = ATOMS[txt]
        if ty == want:
            return nm
        if ty == "Nat" and want == "Bool":
            return f"({nm} != 0)"
        raise Untr(f"atom {txt} used as {want}")
    if isinstance(node, ast.Name) and node.id == flags_name:
        if want == "Nat":
            return "flags"
        return "(flags != 0)"
    if isinstance(node, ast.Constant) and isinstance(node.value, int) and not isinstance(node.value, bool):
        if want == "Nat":
            return str(node.value)
        raise Untr("int constant in boolean position")
    if isinstance(node, ast.Attribute) and isinstance(node.value, ast.Name) and node.value.id in ("self", "cls") and node.attr in consts:
        if want == "Nat":
            return CONST_NAMES.get(node.attr, None) or str(consts[node.attr])
        raise Untr("class constant in boolean position")
    if isinstance(node, ast.BinOp) and type(node.op) in (ast.LShift, ast.RShift, ast.BitAnd, ast.BitOr):
        op = {ast.LShift: "<<<", ast.RShift: ">>>", ast.BitAnd: "&&&", ast.BitOr: "|||"}[type(node.op)]
        e = f"({tr_expr(node.left, consts, 'Nat', flags_name)} {op} {tr_expr(node.right, consts, 'Nat', flags_name)})"
        return e if want == "Nat" else f"({e} != 0)"
    if isinstance(node, ast.BoolOp) and want == "Bool":
        op = " && " if isinstance(node.op, ast.And) else " || "
        return "(" + op.join(tr_expr(v, consts, "Bool", flags_name) for v in node.values) + ")"
    if isinstance(node, ast.Compare) and len(node.ops) == 1 and want == "Bool":
        op = {ast.Gt: ">", ast.GtE: "≥", ast.Lt: "<", ast.LtE: "≤", ast.Eq: "==", ast.NotEq: "!="}.get(type(node.ops[0]))
        if op is None:
            raise Untr("comparison " + txt)
        a, b = tr_expr(node.left, consts, "Nat", flags_name), tr_expr(node.comparators[0], consts, "Nat", flags_name)
        return f"(decide ({a} {op} {b}))" if op in (">", "≥", "<", "≤") else f"({a} {op} {b})"
    if isinstance(node, ast.Call) and isinstance(node.func, ast.Name) and node.func.id == "bool" and len(node.args) == 1 and want == "Bool":
        return tr_expr(node.args[0], consts, "Bool", flags_name)
    raise Untr("unsupported expression: " + txt)


def tr_create_flags(fn, consts):
    """`flags = <expr>` followed by `if <cond>: [raise-guard] flags |= <expr> ...` and `return flags`."""
    lines = []
    body = [st for st in fn.body if not (isinstance(st, ast.Expr) and isinstance(st.value, ast.Constant))]
    if not (isinstance(body[0], ast.Assign) and ast.unparse(body[0].targets[0]) == "flags"):
        raise Untr("first statement is not `flags = ...`")
    lines.append(f"  let flags := {tr_expr(body[0].value, consts, 'Nat')}")

    def stmts(sts, cond):
        for st in sts:
            if isinstance(st, ast.If) and not st.orelse:
                # `if x is None: raise` guards do not change the value
                if all(isinstance(s, ast.Raise) for s in st.body):
                    continue
                c = tr_expr(st.test, consts, "Bool")
                stmts(st.body, c if cond is None else f"({cond} && {c})")
            elif (isinstance(st, ast.AugAssign) and ast.unparse(st.target) == "flags" and isinstance(st.op, ast.BitOr)) or \
                    (isinstance(st, ast.Assign) and len(st.targets) == 1 and ast.unparse(st.targets[0]) == "flags"
                     and isinstance(st.value, ast.BinOp) and isinstance(st.value.op, ast.BitOr)
                     and "flags" in (ast.unparse(st.value.left), ast.unparse(st.value.right))):
                # `flags |= x`, `flags = flags | x`, `flags = x | flags`
                val = st.value if isinstance(st, ast.AugAssign) else \
                    (st.value.right if ast.unparse(st.value.left) == "flags" else st.value.left)
                e = tr_expr(val, consts, "Nat")
                lines.append(f"  let flags := if {cond} then flags ||| {e} else flags" if cond else f"  let flags := flags ||| {e}")
            else:
                raise Untr("unsupported statement: " + ast.unparse(st)[:60])

    if not (isinstance(body[-1], ast.Return) and ast.unparse(body[-1].value) == "flags"):
        raise Untr("last statement is not `return flags`")
    stmts(body[1:-1], None)
    lines.append("  flags")
    params = " ".join(f"({n} : {dict((v[0], v[1]) for v in ATOMS.values())[n]})" for n in ATOM_ORDER)
    return f"def createFlags {params} : Nat :=\n" + "\n".join(lines)


def tr_getter(fn, consts, lean, ret):
    """classmethod getters: `flags = cls.get_flags_from_data(data)`; optional `if <cond>: return <e>`; `return <e>`."""
    body = [st for st in fn.body if not (isinstance(st, ast.Expr) and isinstance(st.value, ast.Constant))]
    flags_name = None
    out = []
    for st in body:
        if isinstance(st, ast.Assign) and isinstance(st.value, ast.Call) and ast.unparse(st.value.func) == "cls.get_flags_from_data":
            flags_name = ast.unparse(st.targets[0])
            continue
        break

    def sub(node):
        # inline `cls.get_flags_from_data(data)` as `flags`
        class R(ast.NodeTransformer):
            def visit_Call(self, n):  # noqa: N802
                if ast.unparse(n.func) == "cls.get_flags_from_data":
                    return ast.Name(id="__flags__", ctx=ast.Load())
                return self.generic_visit(n)
        return R().visit(node)

    rest = [st for st in body if not (isinstance(st, ast.Assign) and isinstance(st.value, ast.Call)
                                      and ast.unparse(st.value.func) == "cls.get_flags_from_data")]
    fname = flags_name or "__flags__"
    expr = None
    for st in reversed(rest):
        if isinstance(st, ast.Return):
            e = tr_expr(sub(st.value), consts, ret, fname)
            expr = e if expr is None else expr
            if expr is e:
                continue
        elif isinstance(st, ast.If) and not st.orelse and len(st.body) == 1 and isinstance(st.body[0], ast.Return) and expr is not None:
            expr = f"if {tr_expr(sub(st.test), consts, 'Bool', fname)} then {tr_expr(sub(st.body[0].value), consts, ret, fname)} else {expr}"
            continue
        raise Untr("unsupported statement in getter: " + ast.unparse(st)[:60])
    if expr is None:
        raise Untr("no return")
    return f"def {lean} (flags : Nat) : {ret} := {expr}"


def safe_bytes(node):
    """evaluate `bytes([1] + [0] * 15 + ...)`-style literals"""
    for n in ast.walk(node):
        if not isinstance(n, (ast.Call, ast.Name, ast.List, ast.BinOp, ast.Constant, ast.Add, ast.Mult, ast.Load)):
            raise ValueError("not a bytes literal expression")
        if isinstance(n, ast.Name) and n.id != "bytes":
            raise ValueError("name " + n.id)
    return bytes(eval(compile(ast.Expression(node), "<lit>", "eval"), {"__builtins__": {}, "bytes": bytes}))  # noqa: S307


def _is_int(v):
    return isinstance(v, int) and not isinstance(v, bool)


def find_calls(node, fname):
    return [n for n in ast.walk(node) if isinstance(n, ast.Call) and ast.unparse(n.func) == fname]


def gen_IvtConsts():
    mt = parse(MIX)
    cl = classes(mt)
    ivt = cl["Mbi_MixinIvt"]
    consts = int_consts(ivt)
    o = ["namespace SpsdkVerif.Generated.IvtConsts", ""]
    meta = {"consts": {}, "translated": {}}

    def d(name, val, doc=None):
        if doc:
            o.append(f"/-- {doc} -/")
        o.append(f"def {name} : Nat := {val}")
        meta["consts"][name] = val

    o.append("/-! ### Mbi_MixinIvt class constants -/")
    for py, ln in CONST_NAMES.items():
        if py in consts:
            d(ln, consts[py], f"`Mbi_MixinIvt.{py}`")
        else:
            o.append(f"-- MISSING: Mbi_MixinIvt.{py}")
    o.append("\n/-! ### flag getters and `create_flags`, translated from the AST -/")
    getters = [("get_image_type", "getImageType", "Nat"), ("get_tz_type", "getTzType", "Nat"), ("get_image_version", "getImageVersion", "Nat"),
               ("get_sub_type", "getSubType", "Nat"), ("get_hw_key_enabled", "getHwKeyEnabled", "Bool"),
               ("get_key_store_presented", "getKeyStorePresented", "Bool"), ("get_app_table_presented", "getAppTablePresented", "Bool")]
    for py, ln, ret in getters:
        try:
            fn = method(ivt, py)
            if fn is None:
                raise Untr("method not found")
            txt = tr_getter(fn, consts, ln, ret)
            o.append(f"/-- translated from `Mbi_MixinIvt.{py}` (line {fn.lineno}) -/")
            o.append(txt)
            meta["translated"][ln] = "translated"
        except Untr as exc:
            o.append(f"-- untranslatable: Mbi_MixinIvt.{py}: {exc}")
            meta["translated"][ln] = f"untranslatable: {exc}"
    try:
        fn = method(ivt, "create_flags")
        if fn is None:
            raise Untr("method not found")
        txt = tr_create_flags(fn, consts)
        o.append(f"/-- translated from `Mbi_MixinIvt.create_flags` (line {fn.lineno}); the parameters are the attribute reads of the body -/")
        o.append(txt)
        meta["translated"]["createFlags"] = "translated"
    except Untr as exc:
        o.append(f"-- untranslatable: Mbi_MixinIvt.create_flags: {exc}")
        meta["translated"]["createFlags"] = f"untranslatable: {exc}"

    o.append("\n/-! ### image types (mbi.py), TrustZone type tags (trustzone.py) -/")
    for st in parse(MBI).body:
        if isinstance(st, ast.Assign) and isinstance(st.targets[0], ast.Name) and st.targets[0].id.endswith("_IMAGE") and isinstance(st.value, ast.Tuple):
            nm = "".join(w.capitalize() for w in st.targets[0].id.lower().split("_"))
            d("type" + nm, ast.literal_eval(st.value.elts[0]), f"`{st.targets[0].id}`")
    tzc = classes(parse(TZ)).get("TrustZoneType")
    for st in (tzc.body if tzc else []):
        if isinstance(st, ast.Assign) and isinstance(st.value, ast.Tuple):
            d("tz" + st.targets[0].id.capitalize(), ast.literal_eval(st.value.elts[0]), f"`TrustZoneType.{st.targets[0].id}`")

    o.append("\n/-! ### HMAC, key store, counter IV, encrypted image layout -/")
    hm = int_consts(cl["Mbi_MixinHmac"])
    d("hmacOffset", hm.get("HMAC_OFFSET", 0), "`Mbi_MixinHmac.HMAC_OFFSET`")
    d("hmacSize", hm.get("HMAC_SIZE", 0), "`Mbi_MixinHmac.HMAC_SIZE`")
    d("hmacKeyLength", hm.get("_HMAC_KEY_LENGTH", 0), "`Mbi_MixinHmac._HMAC_KEY_LENGTH`")
    d("ctrInitVectorSize", int_consts(cl["Mbi_MixinCtrInitVector"]).get("_CTR_INIT_VECTOR_SIZE", 0), "`Mbi_MixinCtrInitVector._CTR_INIT_VECTOR_SIZE`")
    ksc = classes(parse(KS))["KeyStore"]
    d("keyStoreSize", int_consts(ksc).get("KEY_STORE_SIZE", 0), "`KeyStore.KEY_STORE_SIZE`")
    # img_len: total_len + signature_size + <encrypted IVT copy> + <IV>
    enc = cl["Mbi_ExportMixinAppTrustZoneCertBlockEncrypt"]
    lits = [n.value for n in sorted((n for n in ast.walk(method(enc, "img_len")) if isinstance(n, ast.Constant) and _is_int(n.value)),
                                    key=lambda n: (n.lineno, n.col_offset))]
    d("encIvtCopySize", lits[0] if len(lits) == 2 else 0, "first literal of `img_len` (size of the copy of the encrypted IVT)")
    d("encIvSize", lits[1] if len(lits) == 2 else 0, "second literal of `img_len` (counter IV)")
    pe = sorted({n.value for n in ast.walk(method(enc, "post_encrypt")) if isinstance(n, ast.Constant) and _is_int(n.value)})
    o.append(f"/-- integer literals of `post_encrypt` -/\ndef postEncryptLiterals : List Nat := {pe}")
    mp = sorted({n.value for n in ast.walk(method(cl["Mbi_MixinCtrInitVector"], "mix_parse")) if isinstance(n, ast.Constant) and _is_int(n.value)})
    o.append(f"/-- integer literals of `Mbi_MixinCtrInitVector.mix_parse` -/\ndef ctrIvParseLiterals : List Nat := {mp}")
    # minimal application size
    lits = sorted({n.value for n in ast.walk(method(cl["Mbi_MixinApp"], "mix_validate")) if isinstance(n, ast.Constant) and isinstance(n.value, int) and n.value > 12})
    d("minAppSize", lits[0] if len(lits) == 1 else 0, "`Mbi_MixinApp.mix_validate`: minimal application size")
    lits = sorted({n.value for n in ast.walk(method(ivt, "check_total_length")) if isinstance(n, ast.Constant) and isinstance(n.value, int) and n.value > 4})
    d("minIvtSize", lits[0] if len(lits) == 1 else 0, "`Mbi_MixinIvt.check_total_length`: minimal size of data with an IVT")
    try:
        k0 = safe_bytes(find_calls(method(ksc, "derive_hmac_key"), "aes_ecb_encrypt")[0].args[1])
        k1 = safe_bytes(find_calls(method(ksc, "derive_enc_image_key"), "aes_ecb_encrypt")[0].args[1])
    except (ValueError, IndexError):
        k0 = k1 = b""
    o.append(f"/-- plaintext of `KeyStore.derive_hmac_key` -/\ndef deriveHmacKeyConst : List UInt8 := {lean_bytes(k0)}")
    o.append(f"/-- plaintext of `KeyStore.derive_enc_image_key` -/\ndef deriveEncImageKeyConst : List UInt8 := {lean_bytes(k1)}")
    lits = sorted({n.value for n in ast.walk(method(ksc, "derive_hmac_key")) if isinstance(n, ast.Constant) and isinstance(n.value, int) and n.value > 16})
    d("userKeyLength", lits[0] if len(lits) == 1 else 0, "key length accepted by `KeyStore.derive_hmac_key`")

    o.append("\n/-! ### relocation table (mbi_classes.py) -/")
    ct = parse(CLS)
    cc = classes(ct)
    mk = sorted({n.value for n in ast.walk(method(cc["MultipleImageTable"], "reloc_table")) if isinstance(n, ast.Constant) and isinstance(n.value, int) and n.value > 0xFFFF})
    mk2 = sorted({n.value for n in ast.walk(method(cc["MultipleImageTable"], "parse")) if isinstance(n, ast.Constant) and isinstance(n.value, int) and n.value > 0xFFFF})
    d("relocMarkerExport", mk[0] if len(mk) == 1 else 0, "marker written by `MultipleImageTable.reloc_table`")
    d("relocMarkerParse", mk2[0] if len(mk2) == 1 else 0, "marker expected by `MultipleImageTable.parse`")
    hv = method(cc["MultipleImageTable"], "header_version")
    d("relocHeaderVersion", ast.literal_eval(hv.body[-1].value) if hv and isinstance(hv.body[-1], ast.Return) else 99, "`header_version`")
    d("ltiLoad", fold(class_assign(cc["MultipleImageEntry"], "LTI_LOAD"), {}), "`MultipleImageEntry.LTI_LOAD`")
    al = [n for n in find_calls(method(cc["MultipleImageEntry"], "export_image"), "align_block")]
    d("relocImageAlign", ast.literal_eval(al[0].args[1]) if al and len(al[0].args) > 1 else 0, "alignment of relocated images")

    o.append("\n/-! ### manifest (mbi_classes.py) -/")
    man = cc["MasterBootImageManifest"]
    mc = int_consts(man)
    o.append(f"def manifestMagic : List UInt8 := {lean_bytes(mc.get('MAGIC', b''))}")
    fmt = mc.get("FORMAT", "")
    d("manifestHeaderSize", struct.calcsize(fmt) if fmt else 0, f"calcsize({fmt!r})")
    o.append(f"def manifestFormat : String := {lean_str(fmt)}")
    d("manifestFormatVersion", mc.get("FORMAT_VERSION", 0))
    md = int_consts(cc["MasterBootImageManifestDigest"])
    d("manifestDigestPresentFlag", md.get("DIGEST_PRESENT_FLAG", 0))
    d("manifestHashTypeMask", md.get("HASH_TYPE_MASK", 0))

    o.append("\n/-! ### certificate block v1 header, RKHT (cert_blocks.py, rkht.py) -/")
    ch = int_consts(classes(parse(CB))["CertBlockHeader"])
    fmt = ch.get("FORMAT", "")
    d("certHeaderSize", struct.calcsize(fmt) if fmt else 0, f"calcsize({fmt!r})")
    o.append(f"def certHeaderFormat : String := {lean_str(fmt)}")
    o.append(f"def certHeaderSignature : List UInt8 := {lean_bytes(ch.get('SIGNATURE', b''))}")
    rk = int_consts(classes(parse(RK))["RKHTv1"])
    d("rkhtEntries", rk.get("RKHT_SIZE", 0))
    d("rkhSize", rk.get("RKH_SIZE", 0))
    c21 = int_consts(classes(parse(CB))["CertBlockV21"])
    o.append(f"def certV21Magic : List UInt8 := {lean_bytes(c21.get('MAGIC', b''))}")

    o.append("\n/-! ### BCA / FCF (mcxc) and the mc56 (Vx) layout -/")
    d("bcaOffset", int_consts(cl["Mbi_MixinBca"]).get("BCA_OFFSET", 0))
    d("fcfOffset", int_consts(cl["Mbi_MixinFcf"]).get("FCF_OFFSET", 0))
    d("bcaSize", int_consts(classes(parse(BCA))["BCA"]).get("SIZE", 0))
    d("fcfSize", int_consts(classes(parse(FCF))["FCF"]).get("SIZE", 0))
    for k, v in int_consts(cl["Mbi_MixinBcaTable"]).items():
        d("vx" + "".join(w.capitalize() for w in k.lower().split("_")), v, f"`Mbi_MixinBcaTable.{k}`")

    o.append("\n/-! ### CRC-32/MPEG-2 (crc.py) -/")
    crc = None
    for n in ast.walk(parse(CRC)):
        if isinstance(n, ast.Dict):
            for k, v in zip(n.keys, n.values):
                if k is not None and ast.unparse(k) == "CrcAlg.CRC32_MPEG" and isinstance(v, ast.Call):
                    crc = {kw.arg: ast.literal_eval(kw.value) for kw in v.keywords}
    crc = crc or {}
    d("crcPolynomial", crc.get("polynomial", 0))
    d("crcInitialValue", crc.get("initial_value", 0))
    d("crcFinalXor", crc.get("final_xor", 1))
    o.append(f"def crcReverse : Bool := {'true' if crc.get('reverse', True) else 'false'}")
    o.append("\nend SpsdkVerif.Generated.IvtConsts")
    emit("IvtConsts", "\n".join(o) + "\n", meta)


GENERATORS = {"MbiClasses": gen_MbiClasses, "IvtConsts": gen_IvtConsts}
