"""C06 generator: Generated/AhabConsts.lean from the CURRENT AHAB sources and device database.

Pure static reading (`ast` + `yaml.safe_load`); never imports spsdk.

Emitted (namespace SpsdkVerif.Generated.AhabConsts):
  * struct layouts: for every AHAB block class the `format()` string (resolved along `super().format()`), the byte widths of
    its fields and the argument names of the `pack(self.format(), ...)` call in `export`/`_export` (field order),
  * tags / versions / class constants (CONTAINER_SIZE, START_IMAGE_ADDRESS[_NAND], FLAGS_*_OFFSET/SIZE of the container and of
    the image-array entry V1/V2, HASH_LEN, IV_LEN, SRK KEY_SIZES / RSA_KEY_TYPE / ECC_KEY_TYPE, CONTAINER_ALIGNMENT,
    BINARY_IMAGE_ALIGNMENTS, enum tag tables),
  * `ImageArrayEntry.create_flags` (V1 and V2 constants), `create_meta`, `AHABContainer[V2].get_container_offset`
    translated statement by statement (py2lean),
  * the *range records* of the verify() trees: every `add_record_bit_range(name, value, bits)` / `add_record_range(name, value,
    min_val, max_val)` call of the listed verify functions as (record name, expression fed in, bits | min/max) - the model's verifier
    (Model/AhabVerify.lean) is driven by these tables, so feeding another field into a record changes the model,
  * per-chip rows of `features.ahab` after the alias / revision resolution of `spsdk/utils/database.py`.
The harness cross-checks formats (calcsize), tags, constants and chip rows against the live classes / `get_db` on every run.
"""
from __future__ import annotations

import ast
import copy
import struct

import yaml

from consteval import norm_struct
from extract import REPO, emit, parse
from py2lean import Env, Untranslatable, find_function, translate_function

D = "spsdk/image/ahab/"
FILES = ["ahab_abstract_interfaces.py", "ahab_data.py", "ahab_container.py", "ahab_iae.py", "ahab_sign_block.py",
         "ahab_srk.py", "ahab_signature.py", "ahab_blob.py", "ahab_certificate.py", "ahab_image.py"]


# ------------------------------------------------------------------------------------------------ database (replica)
def deep_update(d, u):
    for k, v in u.items():
        if isinstance(v, dict):
            d[k] = deep_update(d.get(k, {}), v)
        else:
            d[k] = v
    return d


class Db:
    """Replica of Device.load / Device._load_alias restricted to the features named in `keep`."""

    def __init__(self, keep):
        self.keep = keep
        self.root = REPO / "spsdk" / "data"
        self.defaults = yaml.safe_load((self.root / "common" / "database_defaults.yaml").read_text(encoding="utf-8"))
        self.cache = {}

    def names(self):
        return sorted(p.name for p in (self.root / "devices").iterdir() if (p / "database.yaml").exists())

    def _restrict(self, feats):
        return {k: v for k, v in (feats or {}).items() if k in self.keep}

    def load(self, name):
        if name in self.cache:
            return self.cache[name]
        cfg = yaml.safe_load((self.root / "devices" / name / "database.yaml").read_text(encoding="utf-8"))
        if cfg.get("alias"):
            base = self.load(cfg["alias"])
            dev = {"latest": cfg.get("latest", base["latest"]),
                   "revs": [{"name": r["name"], "is_latest": r["is_latest"], "features": copy.deepcopy(r["features"])}
                            for r in base["revs"]]}
            feats = self._restrict(cfg.get("features", {}))
            if feats:
                for r in dev["revs"]:
                    deep_update(r["features"], copy.deepcopy(feats))
            for rev_name, upd in (cfg.get("revisions") or {}).items():
                upd = upd or {}
                rev = next((r for r in dev["revs"] if r["name"] == rev_name), None)
                if rev is None:
                    alias_rev = upd.get("alias")
                    if not alias_rev:
                        raise ValueError(f"{name}: new revision {rev_name} without alias")
                    if alias_rev == "latest":
                        src = next(r for r in dev["revs"] if r["is_latest"])
                    else:
                        src = next(r for r in dev["revs"] if r["name"] == alias_rev)
                    rev = {"name": rev_name, "is_latest": dev["latest"] == rev_name, "features": copy.deepcopy(src["features"])}
                    dev["revs"].append(rev)
                rf = self._restrict(upd.get("features"))
                if rf:
                    deep_update(rev["features"], copy.deepcopy(rf))
        else:
            dev_features = self._restrict(cfg["features"])
            defaults = copy.deepcopy(self._restrict(self.defaults["features"]))
            for fname in dev_features:
                deep_update(defaults[fname], dev_features[fname])
                dev_features[fname] = defaults[fname]
            latest = cfg["latest"]
            dev = {"latest": latest, "revs": []}
            for rev_name, upd in cfg["revisions"].items():
                feats = copy.deepcopy(dev_features)
                rf = self._restrict((upd or {}).get("features"))
                if rf:
                    deep_update(feats, copy.deepcopy(rf))
                dev["revs"].append({"name": rev_name, "is_latest": rev_name == latest, "features": feats})
        self.cache[name] = dev
        return dev

    @staticmethod
    def get_rev(dev, name):
        if name == "latest":
            return next((r for r in dev["revs"] if r["is_latest"]), None)
        return next((r for r in dev["revs"] if r["name"] == name), None)


# ------------------------------------------------------------------------------------------------ class tables
class Src:
    def __init__(self):
        self.trees = {f: parse(D + f) for f in FILES}
        self.classes = {}       # name -> (ClassDef, file)
        self.modconst = {}      # module-level NAME -> python value (str/int) from ahab_data.py
        for f, t in self.trees.items():
            for n in t.body:
                if isinstance(n, ast.ClassDef):
                    self.classes[n.name] = (n, f)
                    for sub in n.body:      # nested enum classes (FlagsGdetBehavior, BlobKeySizes ...)
                        if isinstance(sub, ast.ClassDef):
                            self.classes[n.name + "." + sub.name] = (sub, f)
        for n in self.trees["ahab_data.py"].body:
            if isinstance(n, ast.Assign) and len(n.targets) == 1 and isinstance(n.targets[0], ast.Name):
                try:
                    self.modconst[n.targets[0].id] = ast.literal_eval(n.value)
                except (ValueError, SyntaxError):
                    pass
        self.enums = {}
        for cname, (c, _f) in self.classes.items():
            members = []
            for st in c.body:
                if isinstance(st, ast.Assign) and isinstance(st.value, ast.Tuple) and isinstance(st.targets[0], ast.Name):
                    try:
                        v = ast.literal_eval(st.value)
                    except (ValueError, SyntaxError):
                        continue
                    if len(v) >= 2 and isinstance(v[0], int) and isinstance(v[1], str):
                        members.append((st.targets[0].id, v[0], v[1]))
            if members:
                self.enums[cname] = members

    def chain(self, name):
        out = []
        while name in self.classes:
            out.append(name)
            bases = [b.id for b in self.classes[name][0].bases if isinstance(b, ast.Name)]
            name = bases[0] if bases else None
        return out

    def attr_node(self, cname, key):
        for c in self.chain(cname):
            for st in self.classes[c][0].body:
                tgt = val = None
                if isinstance(st, ast.Assign) and len(st.targets) == 1 and isinstance(st.targets[0], ast.Name):
                    tgt, val = st.targets[0].id, st.value
                elif isinstance(st, ast.AnnAssign) and isinstance(st.target, ast.Name) and st.value is not None:
                    tgt, val = st.target.id, st.value
                if tgt == key:
                    return val
        return None

    def value(self, cname, node):
        """Fold a class-attribute expression: ints, strings, Enum.MEMBER.tag, NAME of module constants, dict/list literals."""
        if node is None:
            return None
        try:
            return ast.literal_eval(node)
        except (ValueError, SyntaxError):
            pass
        if isinstance(node, ast.Name):
            if node.id in self.modconst:
                return self.modconst[node.id]
            sub = self.attr_node(cname, node.id)
            return self.value(cname, sub) if sub is not None else None
        if isinstance(node, ast.Attribute):
            # Enum.MEMBER.tag
            if node.attr == "tag" and isinstance(node.value, ast.Attribute) and isinstance(node.value.value, ast.Name):
                for m, tag, _l in self.enums.get(node.value.value.id, []):
                    if m == node.value.attr:
                        return tag
            # cls.CONST / self.CONST
            if isinstance(node.value, ast.Name) and node.value.id in ("cls", "self"):
                return self.value(cname, self.attr_node(cname, node.attr))
            return None
        if isinstance(node, ast.Call) and isinstance(node.func, ast.Attribute) and node.func.attr == "tags" \
                and isinstance(node.func.value, ast.Name):
            en = node.func.value.id
            if en in self.enums:
                return [t for _m, t, _l in self.enums[en]]
            sub = self.attr_node(cname, en)      # SIGN_ALGORITHM_ENUM = AHABSignAlgorithmV2
            if isinstance(sub, ast.Name) and sub.id in self.enums:
                return [t for _m, t, _l in self.enums[sub.id]]
            return None
        if isinstance(node, ast.BinOp):
            a, b = self.value(cname, node.left), self.value(cname, node.right)
            if isinstance(a, int) and isinstance(b, int):
                return {ast.Add: a + b, ast.Sub: a - b, ast.Mult: a * b, ast.LShift: a << b, ast.BitOr: a | b}.get(type(node.op))
            if isinstance(a, str) and isinstance(b, str) and isinstance(node.op, ast.Add):
                return a + b
            return None
        if isinstance(node, ast.Dict):
            out = {}
            for k, v in zip(node.keys, node.values):
                kk = self.value(cname, k)
                if kk is None and isinstance(k, ast.Attribute):
                    kk = k.attr
                out[kk] = self.value(cname, v)
            return out
        if isinstance(node, ast.JoinedStr):
            s = ""
            for part in node.values:
                if isinstance(part, ast.Constant):
                    s += str(part.value)
                elif isinstance(part, ast.FormattedValue):
                    v = self.value(cname, part.value)
                    if v is None:
                        return None
                    s += str(v)
            return s
        return None

    def const(self, cname, key):
        """class attribute `key` of cname; a class-body expression is evaluated in the class that DEFINES it (Python evaluates
        it once, at class creation), so names inside it do not see overrides of subclasses"""
        for c in self.chain(cname):
            for st in self.classes[c][0].body:
                tgt = val = None
                if isinstance(st, ast.Assign) and len(st.targets) == 1 and isinstance(st.targets[0], ast.Name):
                    tgt, val = st.targets[0].id, st.value
                elif isinstance(st, ast.AnnAssign) and isinstance(st.target, ast.Name) and st.value is not None:
                    tgt, val = st.target.id, st.value
                if tgt == key:
                    return self.value(c, val)
        return None

    def method(self, cname, meth, start_after=None):
        """(FunctionDef, defining class) of `meth` for cname, searching the base chain (optionally after class `start_after`)."""
        ch = self.chain(cname)
        if start_after is not None:
            ch = ch[ch.index(start_after) + 1:]
        for c in ch:
            for st in self.classes[c][0].body:
                if isinstance(st, ast.FunctionDef) and st.name == meth:
                    return st, c
        return None, None

    def fmt(self, cname, start_after=None):
        fn, owner = self.method(cname, "format", start_after)
        if fn is None:
            return None
        ret = next((s for s in ast.walk(fn) if isinstance(s, ast.Return)), None)
        if ret is None:
            return None

        def ev(e):
            if isinstance(e, ast.BinOp) and isinstance(e.op, ast.Add):
                a, b = ev(e.left), ev(e.right)
                return None if a is None or b is None else a + b
            if isinstance(e, ast.Call) and isinstance(e.func, ast.Attribute) and e.func.attr == "format" \
                    and isinstance(e.func.value, ast.Call) and isinstance(e.func.value.func, ast.Name) and e.func.value.func.id == "super":
                return self.fmt(cname, owner)
            v = self.value(cname, e)
            return v if isinstance(v, str) else None
        return ev(ret.value)

    def pack_args(self, cname, meths=("export", "_export")):
        """argument names of the first `pack(self.format(), a, b, ...)` call in the export method of cname."""
        for c in self.chain(cname):
            for st in self.classes[c][0].body:
                if not (isinstance(st, ast.FunctionDef) and st.name in meths):
                    continue
                al = local_aliases(st)
                for call in ast.walk(st):
                    if isinstance(call, ast.Call) and isinstance(call.func, (ast.Name, ast.Attribute)) \
                            and (call.func.id if isinstance(call.func, ast.Name) else call.func.attr) == "pack" and call.args:
                        a0 = _Subst(al).visit(copy.deepcopy(call.args[0]))
                        if isinstance(a0, ast.Call) and isinstance(a0.func, ast.Attribute) and a0.func.attr == "format":
                            return [expr_str(a, al) for a in call.args[1:]]
        return []


def local_aliases(fn):
    """{local name: value node} for the locals of `fn` that are bound exactly once by a plain assignment (never a parameter, loop
    variable, augmented or tuple target): `sw = self.sw_version; record(..., sw, ...)` reads the same as `record(..., self.sw_version, ...)`."""
    if fn is None:
        return {}
    counts, vals = {}, {}
    params = {a.arg for a in fn.args.args + fn.args.kwonlyargs + fn.args.posonlyargs}

    def bump(t, v):
        for n in ast.walk(t):
            if isinstance(n, ast.Name):
                counts[n.id] = counts.get(n.id, 0) + 1
                if n is t and v is not None:
                    vals[n.id] = v
    for st in ast.walk(fn):
        if isinstance(st, ast.Assign):
            for t in st.targets:
                bump(t, st.value if len(st.targets) == 1 else None)
        elif isinstance(st, ast.AnnAssign) and st.value is not None:
            bump(st.target, st.value)
        elif isinstance(st, (ast.AugAssign, ast.NamedExpr)):
            bump(st.target, None)
            counts[getattr(st.target, "id", "?")] = 2
        elif isinstance(st, (ast.For, ast.AsyncFor, ast.comprehension)):
            bump(st.target, None)
            for n in ast.walk(st.target):
                if isinstance(n, ast.Name):
                    counts[n.id] = 2
        elif isinstance(st, (ast.With, ast.AsyncWith)):
            for it in st.items:
                if it.optional_vars is not None:
                    bump(it.optional_vars, None)
    return {n: v for n, v in vals.items() if counts.get(n) == 1 and n not in params}


class _Subst(ast.NodeTransformer):
    def __init__(self, aliases, depth=0):
        self.aliases, self.depth = aliases, depth

    def visit_Name(self, node):
        if isinstance(node.ctx, ast.Load) and node.id in self.aliases and self.depth < 4:
            return _Subst(self.aliases, self.depth + 1).visit(copy.deepcopy(self.aliases[node.id]))
        return node


def expr_str(e, aliases=None) -> str:
    """canonical short text of the expression fed into a record / pack call (`self.` stripped, single-assignment locals replaced by
    the expression they name, numbers in decimal)."""
    if aliases and e is not None:
        e = _Subst(aliases).visit(copy.deepcopy(e))
    if isinstance(e, ast.IfExp):
        return expr_str(e.body) + "?" + expr_str(e.orelse)
    try:
        s = ast.unparse(e)
    except Exception:  # noqa: BLE001
        return "?"
    return s.replace("self.", "").replace(" ", "")


def fmt_widths(fmt: str):
    """byte widths of the fields of a little-endian struct format; ('s', n) for byte strings."""
    out, i, num = [], 0, ""
    if fmt[:1] in "<>=!@":
        i = 1
    while i < len(fmt):
        c = fmt[i]
        if c.isdigit():
            num += c
        else:
            n = int(num) if num else 1
            num = ""
            w = {"B": 1, "H": 2, "L": 4, "I": 4, "Q": 8, "b": 1, "h": 2, "l": 4, "q": 8}.get(c)
            if c == "s":
                out.append(("s", n))
            elif w is None:
                out.append(("?", 0))
            else:
                out.extend([("i", w)] * n)
        i += 1
    return out


# ------------------------------------------------------------------------------------------------ range records
def range_records(src: Src, cname: str, meth: str):
    """All add_record_bit_range / add_record_range calls inside cname.meth (nested functions included)."""
    fn, _ = src.method(cname, meth)
    out = []
    if fn is None:
        return out
    al = local_aliases(fn)
    calls = [c for c in ast.walk(fn) if isinstance(c, ast.Call) and isinstance(c.func, ast.Attribute)
             and c.func.attr in ("add_record_bit_range", "add_record_range")]
    calls.sort(key=lambda c: (c.lineno, c.col_offset))
    for c in calls:
        kw = {k.arg: k.value for k in c.keywords}
        args = list(c.args)
        name = src.value(cname, args[0]) if args else src.value(cname, kw.get("name"))
        val = args[1] if len(args) > 1 else kw.get("value")
        if c.func.attr == "add_record_bit_range":
            bits_node = args[2] if len(args) > 2 else kw.get("bit_range")
            bits = src.value(cname, bits_node) if bits_node is not None else 32
            out.append({"kind": "bits", "name": name, "value": expr_str(val, al), "bits": bits if isinstance(bits, int) else -1})
        else:
            mn = args[2] if len(args) > 2 else kw.get("min_val")
            mx = args[3] if len(args) > 3 else kw.get("max_val")
            mnv = src.value(cname, mn) if mn is not None else 0
            mxv = src.value(cname, mx) if mx is not None else (1 << 32) - 1
            out.append({"kind": "range", "name": name, "value": expr_str(val, al),
                        "min": mnv if isinstance(mnv, int) else expr_str(mn), "max": mxv if isinstance(mxv, int) else expr_str(mx)})
    return out


# ------------------------------------------------------------------------------------------------ translated functions
class _TagParam(ast.NodeTransformer):
    """`hash_type.tag` -> `hash_type` (the Lean parameter is the tag), `cls.X`/`self.X` stay (resolved through Env.consts)."""

    def __init__(self, params):
        self.params = params

    def visit_Attribute(self, node):
        if node.attr == "tag" and isinstance(node.value, ast.Name) and node.value.id in self.params:
            return ast.copy_location(ast.Name(id=node.value.id, ctx=ast.Load()), node)
        return self.generic_visit(node)


def translate(src: Src, cname: str, meth: str, lean: str, fallback_params, tag_params=(), param_types=None, ret="Int"):
    fn, owner = src.method(cname, meth)
    info = {"source": f"{D}{src.classes[owner][1] if owner else '?'}::{cname}.{meth}"}
    try:
        if fn is None:
            raise Untranslatable("method not found")
        env = Env()
        # class constants visible through cls./self. for THIS class (overrides of subclasses applied)
        for c in reversed(src.chain(cname)):
            for st in src.classes[c][0].body:
                if isinstance(st, ast.Assign) and len(st.targets) == 1 and isinstance(st.targets[0], ast.Name):
                    v = src.value(cname, st.value)
                    if isinstance(v, int) and not isinstance(v, bool):
                        env.consts[st.targets[0].id] = v
        fn2 = _TagParam(set(tag_params)).visit(copy.deepcopy(fn))
        ast.fix_missing_locations(fn2)
        pt = dict(param_types or {})
        for p in tag_params:
            pt[p] = "Int"
        text, sig = translate_function(fn2, lean, env, pt, ret)
        info.update(mode="translated", params=sig.params, line=fn.lineno)
        return f"/-- translated from `{info['source']}` (line {fn.lineno}) -/\n" + text, info
    except Untranslatable as exc:
        args = " ".join(f"({p} : {t})" for p, t in fallback_params)
        info.update(mode="untranslatable", reason=str(exc))
        return f"-- untranslatable: {info['source']}: {exc}\ndef {lean} {args} : PyRes {ret} := .error .other\n", info


# ------------------------------------------------------------------------------------------------ emit helpers
def lstr(s):
    return '"' + str(s).replace("\\", "\\\\").replace('"', '\\"') + '"'


def lnat(v):
    return str(int(v)) if isinstance(v, int) and not isinstance(v, bool) and v >= 0 else "0"


def lnats(vs):
    return "[" + ", ".join(lnat(v) for v in vs) + "]"


LAYOUT_CLASSES = [  # (lean prefix, class)
    ("hdr", "HeaderContainer"), ("container", "AHABContainer"), ("containerV2", "AHABContainerV2"),
    ("iae", "ImageArrayEntry"), ("iaeV2", "ImageArrayEntryV2"),
    ("sigBlock", "SignatureBlock"), ("sigBlockV2", "SignatureBlockV2"),
    ("srkRecord", "SRKRecord"), ("srkRecordV2", "SRKRecordV2"), ("srkTable", "SRKTable"), ("srkTableV2", "SRKTableV2"),
    ("srkTableArray", "SRKTableArray"), ("srkData", "SRKData"),
    ("signature", "ContainerSignature"), ("blob", "AhabBlob"), ("certificate", "AhabCertificate"),
]

VERIFY_SITES = [  # (lean name, class, method)
    ("recsHeader", "HeaderContainer", "_verify_header"),
    ("recsContainer", "AHABContainerBase", "_verify"),
    ("recsIae", "ImageArrayEntry", "verify"),
    ("recsSigBlock", "SignatureBlock", "verify"),
    ("recsSigBlockV2", "SignatureBlockV2", "verify"),
    ("recsSrkRecord", "SRKRecordBase", "_verify"),
    ("recsBlob", "AhabBlob", "verify"),
    ("recsCertificate", "AhabCertificate", "verify"),
    ("recsImage", "AHABImage", "verify"),
]


def gen_AhabConsts():
    src = Src()
    meta = {"layouts": {}, "consts": {}, "enums": {}, "records": {}, "functions": {}, "chips": [], "problems": []}
    o = ["import SpsdkVerif.Base.Py", "", "namespace SpsdkVerif.Generated.AhabConsts", "open SpsdkVerif", "",
         "/-- one block layout: struct format string, field widths in bytes (integers) with the byte-string fields given as",
         "    `strFields` (position in the field list, length), and the `pack(...)` argument names of the exporter -/",
         "structure Layout where", "  fmt : String", "  intWidths : List Nat", "  strFields : List (Nat × Nat)", "  size : Nat",
         "  packArgs : List String", "  deriving Repr, DecidableEq", "",
         "/-- a range record of a verify() function: name, the expression fed in, lower and upper bound -/",
         "structure RangeRec where", "  name : String", "  value : String", "  lo : Int", "  hi : Int",
         "  viaCheckRange : Bool   -- add_record_bit_range (uses misc.check_range) vs add_record_range (plain comparisons)",
         "  deriving Repr, DecidableEq", "",
         "structure Chip where", "  family : String", "  revision : String", "  resolved : String", "  containersMax : Nat",
         "  imagesMax : Nat", "  minOffsetAlign : Nat", "  imageSizeAlign : Nat", "  containerTypes : List Nat",
         "  allowEmptyHash : Bool", "  coreIds : List (Nat × String)", "  imageTypes : List (String × List (Nat × String))",
         "  imageTypesMapping : List (String × List Nat)", "  deriving Repr, DecidableEq", ""]
    # ---- layouts
    for pfx, cname in LAYOUT_CLASSES:
        if cname not in src.classes:
            meta["problems"].append(f"class {cname} missing")
            fmt = None
        else:
            fmt = src.fmt(cname)
        if fmt is None:
            meta["problems"].append(f"format of {cname} not resolvable")
            fmt = "<"
        try:
            fmt = norm_struct(fmt)          # spelling-independent: '<4I' == '<IIII' == '<LLLL'
        except Exception:  # noqa: BLE001
            pass
        ws = fmt_widths(fmt)
        ints = [w for k, w in ws if k == "i"]
        strs = [(i, w) for i, (k, w) in enumerate(ws) if k == "s"]
        try:
            size = struct.calcsize(fmt)
        except struct.error:
            size = 0
        pargs = (src.pack_args(cname, ("export", "_export", "get_signature_data") if cname == "AhabCertificate" else ("export", "_export"))
                 if cname in src.classes else [])
        meta["layouts"][cname] = {"fmt": fmt, "size": size, "pack_args": pargs, "lean": pfx + "Layout"}
        o.append(f"def {pfx}Layout : Layout := ⟨{lstr(fmt)}, {lnats(ints)}, [" + ", ".join(f"({i}, {w})" for i, w in strs)
                 + f"], {size}, [" + ", ".join(lstr(a) for a in pargs) + "]⟩")
    o.append("")
    # ---- scalar constants
    consts = [
        ("containerAlignment", src.modconst.get("CONTAINER_ALIGNMENT")),
        ("reserved", src.modconst.get("RESERVED")),
        ("containerSizeV1", src.const("AHABContainer", "CONTAINER_SIZE")),
        ("containerSizeV2", src.const("AHABContainerV2", "CONTAINER_SIZE")),
        ("containerTag", src.const("AHABContainer", "TAG")),
        ("containerVersionV1", src.const("AHABContainer", "VERSION")),
        ("containerVersionV2", src.const("AHABContainerV2", "VERSION")),
        ("startImageAddrV1", src.const("AHABContainer", "START_IMAGE_ADDRESS")),
        ("startImageAddrNandV1", src.const("AHABContainer", "START_IMAGE_ADDRESS_NAND")),
        ("startImageAddrV2", src.const("AHABContainerV2", "START_IMAGE_ADDRESS")),
        ("startImageAddrNandV2", src.const("AHABContainerV2", "START_IMAGE_ADDRESS_NAND")),
        ("sigBlockTag", src.const("SignatureBlock", "TAG")), ("sigBlockVersionV1", src.const("SignatureBlock", "VERSION")),
        ("sigBlockVersionV2", src.const("SignatureBlockV2", "VERSION")),
        ("srkTableTag", src.const("SRKTable", "TAG")), ("srkTableVersion", src.const("SRKTable", "VERSION")),
        ("srkRecordsCnt", src.const("SRKTable", "SRK_RECORDS_CNT")),
        ("srkRecordTag", src.const("SRKRecord", "TAG")),
        ("srkTableArrayTag", src.const("SRKTableArray", "TAG")), ("srkTableArrayVersion", src.const("SRKTableArray", "VERSION")),
        ("signatureTag", src.const("ContainerSignature", "TAG")), ("signatureVersion", src.const("ContainerSignature", "VERSION")),
        ("blobTag", src.const("AhabBlob", "TAG")), ("blobVersion", src.const("AhabBlob", "VERSION")),
        ("certificateTag", src.const("AhabCertificate", "TAG")), ("certificateVersion", src.const("AhabCertificate", "VERSION")),
        ("srkFlagsCaMask", src.const("SRKRecordBase", "FLAGS_CA_MASK")),
        ("iaeHashLen", src.const("ImageArrayEntry", "HASH_LEN")), ("iaeIvLen", src.const("ImageArrayEntry", "IV_LEN")),
        ("srkDataTag", src.const("SRKData", "TAG")), ("srkDataVersion", src.const("SRKData", "VERSION")),
        ("srkTableV2Version", src.const("SRKTableV2", "VERSION")),
        ("srkRecordV2ParamsLen", src.const("SRKRecordV2", "CRYPTO_PARAMS_LEN")),
        ("certPermBitSize", src.const("AhabCertificate", "PERM_BIT_SIZE")),
        ("certFuseVersionBitSize", src.const("AhabCertificate", "FUSE_VERSION_BIT_SIZE")),
        ("certPermissionDataSize", src.const("AhabCertificate", "PERMISSION_DATA_SIZE")),
        ("certUuidSize", src.const("AhabCertificate", "UUID_SIZE")),
    ]
    for key in ("FLAGS_SRK_SET_OFFSET", "FLAGS_SRK_SET_SIZE", "FLAGS_USED_SRK_ID_OFFSET", "FLAGS_USED_SRK_ID_SIZE",
                "FLAGS_SRK_REVOKE_MASK_OFFSET", "FLAGS_SRK_REVOKE_MASK_SIZE", "FLAGS_GDET_ENABLE_OFFSET", "FLAGS_GDET_ENABLE_SIZE"):
        consts.append(("c" + "".join(p.capitalize() for p in key.lower().split("_")), src.const("AHABContainer", key)))
    for key in ("FLAGS_CHECK_ALL_SIGNATURES_OFFSET", "FLAGS_CHECK_ALL_SIGNATURES_SIZE"):
        consts.append(("c" + "".join(p.capitalize() for p in key.lower().split("_")), src.const("AHABContainerV2", key)))
    iae_keys = ("FLAGS_TYPE_OFFSET", "FLAGS_TYPE_SIZE", "FLAGS_CORE_ID_OFFSET", "FLAGS_CORE_ID_SIZE", "FLAGS_HASH_OFFSET",
                "FLAGS_HASH_SIZE", "FLAGS_IS_ENCRYPTED_OFFSET", "FLAGS_IS_ENCRYPTED_SIZE", "FLAGS_BOOT_FLAGS_OFFSET",
                "FLAGS_BOOT_FLAGS_SIZE", "METADATA_START_CPU_ID_OFFSET", "METADATA_START_CPU_ID_SIZE", "METADATA_MU_CPU_ID_OFFSET",
                "METADATA_MU_CPU_ID_SIZE", "METADATA_START_PARTITION_ID_OFFSET", "METADATA_START_PARTITION_ID_SIZE")
    for ver, cname in (("V1", "ImageArrayEntry"), ("V2", "ImageArrayEntryV2")):
        for key in iae_keys:
            consts.append(("i" + "".join(p.capitalize() for p in key.lower().split("_")) + ver, src.const(cname, key)))
    for name, v in consts:
        if not isinstance(v, int) or isinstance(v, bool) or v < 0:
            meta["problems"].append(f"constant {name} not resolvable ({v!r})")
            v = 0
        meta["consts"][name] = v
        o.append(f"def {name} : Nat := {v}")
    o.append("")
    # container version lists (VERSION of HeaderContainer subclasses may be int or list)
    srk_ver = src.const("SRKRecord", "VERSION")
    o.append(f"def srkRecordVersions : List Nat := {lnats(srk_ver if isinstance(srk_ver, list) else [])}")
    meta["consts"]["srkRecordVersions"] = srk_ver
    # ---- enums
    for lean, en in (("tags", "AHABTags"), ("hashAlgV1", "AHABSignHashAlgorithmV1"), ("hashAlgV2", "AHABSignHashAlgorithmV2"),
                     ("signAlgV1", "AHABSignAlgorithmV1"), ("signAlgV2", "AHABSignAlgorithmV2"), ("srkSets", "FlagsSrkSet"),
                     ("targetMemories", "AhabTargetMemory"), ("gdetBehavior", "AHABContainer.FlagsGdetBehavior"),
                     ("blobKeySizes", "AhabBlob.BlobKeySizes")):
        ms = src.enums.get(en, [])
        if not ms:
            meta["problems"].append(f"enum {en} missing")
        meta["enums"][en] = [[m, t, l] for m, t, l in ms]
        o.append(f"def {lean} : List (String × Nat × String) := [" + ", ".join(f"({lstr(m)}, {lnat(t)}, {lstr(l)})" for m, t, l in ms) + "]")
    # BINARY_IMAGE_ALIGNMENTS: {AhabTargetMemory.X: n}
    bia = []
    for n in src.trees["ahab_data.py"].body:
        if isinstance(n, ast.Assign) and isinstance(n.targets[0], ast.Name) and n.targets[0].id == "BINARY_IMAGE_ALIGNMENTS" \
                and isinstance(n.value, ast.Dict):
            for k, v in zip(n.value.keys, n.value.values):
                label = next((l for m, _t, l in src.enums.get("AhabTargetMemory", []) if isinstance(k, ast.Attribute) and m == k.attr), "?")
                try:
                    bia.append((label, int(ast.literal_eval(v))))
                except (ValueError, SyntaxError):
                    meta["problems"].append("BINARY_IMAGE_ALIGNMENTS value not literal")
    meta["consts"]["BINARY_IMAGE_ALIGNMENTS"] = bia
    o.append("def binaryImageAlignments : List (String × Nat) := [" + ", ".join(f"({lstr(l)}, {v})" for l, v in bia) + "]")
    # SRK key tables
    ks = src.const("SRKRecordBase", "KEY_SIZES") or {}
    rsa = src.const("SRKRecordBase", "RSA_KEY_TYPE") or {}
    ecc = src.const("SRKRecordBase", "ECC_KEY_TYPE") or {}
    try:
        ks_l = sorted((int(k), int(v[0]), int(v[1])) for k, v in ks.items())
        rsa_l = sorted((int(k), int(v)) for k, v in rsa.items())
        ecc_l = sorted((str(k), int(v)) for k, v in ecc.items())
    except (TypeError, ValueError):
        meta["problems"].append("SRK key tables not literal")
        ks_l, rsa_l, ecc_l = [], [], []
    meta["consts"].update(KEY_SIZES=ks_l, RSA_KEY_TYPE=rsa_l, ECC_KEY_TYPE=ecc_l)
    o.append("/-- key-size code -> (length of parameter 1, length of parameter 2) -/")
    o.append("def srkKeySizes : List (Nat × Nat × Nat) := [" + ", ".join(f"({a}, {b}, {c})" for a, b, c in ks_l) + "]")
    o.append("def srkRsaKeyType : List (Nat × Nat) := [" + ", ".join(f"({a}, {b})" for a, b in rsa_l) + "]")
    o.append("def srkEccKeyType : List (String × Nat) := [" + ", ".join(f"({lstr(a)}, {b})" for a, b in ecc_l) + "]")
    o.append("")
    # ---- verify range records
    for lean, cname, meth in VERIFY_SITES:
        recs = range_records(src, cname, meth) if cname in src.classes else []
        if not recs:
            meta["problems"].append(f"no range records found in {cname}.{meth}")
        meta["records"][lean] = recs
        rows = []
        for r in recs:
            if r["kind"] == "bits":
                lo, hi = 0, (1 << r["bits"]) - 1 if r["bits"] >= 0 else -1
            else:
                lo = r["min"] if isinstance(r["min"], int) else 0
                hi = r["max"] if isinstance(r["max"], int) else -1    # symbolic bound: the model substitutes it by name
            val = r["value"] if r["kind"] == "bits" or isinstance(r["max"], int) else r["value"] + "≤" + str(r["max"])
            if r["kind"] == "range" and not isinstance(r["min"], int):
                val = str(r["min"]) + "≤" + val
            rows.append(f"⟨{lstr(r['name'])}, {lstr(val)}, ({lo} : Int), ({hi} : Int), {'true' if r['kind'] == 'bits' else 'false'}⟩")
        o.append(f"def {lean} : List RangeRec := [" + ", ".join(rows) + "]")
    o.append("")
    # ---- translated functions
    for text, info, lean in (
        translate(src, "ImageArrayEntry", "create_meta", "createMeta",
                  [("start_cpu_id", "Int"), ("mu_cpu_id", "Int"), ("start_partition_id", "Int")]) + ("createMeta",),
        translate(src, "ImageArrayEntry", "create_flags", "createFlagsV1",
                  [("image_type", "Int"), ("core_id", "Int"), ("hash_type", "Int"), ("is_encrypted", "Bool"), ("boot_flags", "Int")],
                  tag_params=("hash_type",)) + ("createFlagsV1",),
        translate(src, "ImageArrayEntryV2", "create_flags", "createFlagsV2",
                  [("image_type", "Int"), ("core_id", "Int"), ("hash_type", "Int"), ("is_encrypted", "Bool"), ("boot_flags", "Int")],
                  tag_params=("hash_type",)) + ("createFlagsV2",),
        translate(src, "AHABContainer", "get_container_offset", "containerOffsetV1", [("ix", "Int")]) + ("containerOffsetV1",),
        translate(src, "AHABContainerV2", "get_container_offset", "containerOffsetV2", [("ix", "Int")]) + ("containerOffsetV2",),
    ):
        o.append(text)
        meta["functions"][lean] = info
    # ---- chips
    db = Db({"ahab"})
    rows = []
    for n in db.names():
        try:
            d = db.load(n)
        except Exception as exc:  # noqa: BLE001
            meta["problems"].append(f"device {n}: {exc}")
            continue
        lat = db.get_rev(d, "latest")
        if lat is None or "ahab" not in lat["features"]:
            continue
        for rname in [r["name"] for r in d["revs"]] + ["latest"]:
            rev = db.get_rev(d, rname)
            f = rev["features"].get("ahab")
            if f is None:
                meta["problems"].append(f"{n}/{rname}: no ahab feature in this revision")
                continue
            try:
                core = sorted((int(v[0]), str(v[1])) for v in (f.get("core_ids") or {}).values())
                its = sorted((str(g), sorted((int(v[0]), str(v[1])) for v in grp.values())) for g, grp in (f.get("image_types") or {}).items())
                mp = sorted((str(g), [int(x) for x in v]) for g, v in (f.get("image_types_mapping") or {}).items())
                row = {"family": n, "revision": rname, "resolved": rev["name"],
                       "containers_max_cnt": int(f["containers_max_cnt"]), "oem_images_max_cnt": int(f["oem_images_max_cnt"]),
                       "valid_offset_minimal_alignment": int(f.get("valid_offset_minimal_alignment", 4)),
                       "container_image_size_alignment": int(f.get("container_image_size_alignment", 1)),
                       "container_types": [int(x) for x in f["container_types"]], "allow_empty_hash": bool(f["allow_empty_hash"]),
                       "core_ids": core, "image_types": its, "image_types_mapping": mp}
            except (KeyError, TypeError, ValueError) as exc:
                meta["problems"].append(f"{n}/{rname}: {type(exc).__name__} {exc}")
                continue
            rows.append(row)
    meta["chips"] = rows
    o.append("def chips : List Chip := [")
    o.append(",\n".join(
        f"  ⟨{lstr(r['family'])}, {lstr(r['revision'])}, {lstr(r['resolved'])}, {r['containers_max_cnt']}, {r['oem_images_max_cnt']}, "
        f"{r['valid_offset_minimal_alignment']}, {r['container_image_size_alignment']}, {lnats(r['container_types'])}, "
        f"{str(r['allow_empty_hash']).lower()}, [" + ", ".join(f"({t}, {lstr(l)})" for t, l in r["core_ids"]) + "], ["
        + ", ".join(f"({lstr(g)}, [" + ", ".join(f"({t}, {lstr(l)})" for t, l in m) + "])" for g, m in r["image_types"]) + "], ["
        + ", ".join(f"({lstr(g)}, {lnats(v)})" for g, v in r["image_types_mapping"]) + "]⟩" for r in rows))
    o.append("]")
    o.append("\nend SpsdkVerif.Generated.AhabConsts")
    meta["source"] = [D + f for f in FILES] + ["spsdk/data/devices/*/database.yaml", "spsdk/data/common/database_defaults.yaml"]
    emit("AhabConsts", "\n".join(o) + "\n", meta)


# ------------------------------------------------------------------------------------------------ Phase 3: utils/verifier.py
def _rcond(test):
    """Classify one `if` test of Verifier.add_record_bit_range / add_record_range (value-level reading, both spellings of a
    comparison are recognised); anything else becomes `.unknown` and the agreement theorem fails (no silent downgrade)."""
    def nm(n, name):
        return isinstance(n, ast.Name) and n.id == name
    if isinstance(test, ast.Compare) and len(test.ops) == 1:
        l, op, r = test.left, test.ops[0], test.comparators[0]
        if isinstance(op, ast.Is) and nm(l, "value") and isinstance(r, ast.Constant) and r.value is None:
            return ".isNone"
        if isinstance(op, ast.Eq) and nm(l, "value") and isinstance(r, ast.Constant) and r.value is None:
            return ".isNone"
        if (isinstance(op, ast.Lt) and nm(l, "value") and nm(r, "min_val")) or (isinstance(op, ast.Gt) and nm(l, "min_val") and nm(r, "value")):
            return ".ltMin"
        if (isinstance(op, ast.Gt) and nm(l, "value") and nm(r, "max_val")) or (isinstance(op, ast.Lt) and nm(l, "max_val") and nm(r, "value")):
            return ".gtMax"
    if isinstance(test, ast.UnaryOp) and isinstance(test.op, ast.Not) and isinstance(test.operand, ast.Call):
        c = test.operand
        if isinstance(c.func, ast.Name) and c.func.id == "check_range" and len(c.args) == 1 and nm(c.args[0], "value"):
            kw = {k.arg: k.value for k in c.keywords}
            if set(kw) == {"end"} and ast.dump(kw["end"]) == ast.dump(ast.parse("(1 << bit_range) - 1", mode="eval").body):
                return ".notInBitRange"
    return '.unknown "' + ast.unparse(test).replace('"', "'") + '"'


def _branch_result(body):
    """the VerifierResult of the single `self.add_record(name, VerifierResult.X, ...)` call of a branch"""
    calls = [c for st in body for c in ast.walk(st) if isinstance(c, ast.Call) and isinstance(c.func, ast.Attribute) and c.func.attr == "add_record"]
    if len(calls) != 1 or len(calls[0].args) < 2:
        return "?"
    a = calls[0].args[1]
    return a.attr if isinstance(a, ast.Attribute) and isinstance(a.value, ast.Name) and a.value.id == "VerifierResult" else "?"


def _branches(fn):
    out = []
    stmts = [s for s in fn.body if not (isinstance(s, ast.Expr) and isinstance(s.value, ast.Constant))]
    if len(stmts) != 1 or not isinstance(stmts[0], ast.If):
        return [('.unknown "body is not one if-chain"', "?")]
    node = stmts[0]
    while True:
        out.append((_rcond(node.test), _branch_result(node.body)))
        if len(node.orelse) == 1 and isinstance(node.orelse[0], ast.If):
            node = node.orelse[0]
            continue
        out.append((".otherwise", _branch_result(node.orelse) if node.orelse else "NONE"))
        return out


def gen_AhabVerifierRecs():
    """`Verifier.add_record_bit_range` / `add_record_range` (spsdk/utils/verifier.py) as branch tables + their default arguments,
    and the default arguments of `misc.check_range`."""
    tree = parse("spsdk/utils/verifier.py")
    cls = next(n for n in tree.body if isinstance(n, ast.ClassDef) and n.name == "Verifier")
    fns = {n.name: n for n in cls.body if isinstance(n, ast.FunctionDef)}
    meta = {"functions": {}}
    o = ["namespace SpsdkVerif.Generated.AhabVerifierRecs", "",
         "inductive RCond where", "  | isNone | notInBitRange | ltMin | gtMax | otherwise", "  | unknown (src : String)",
         "  deriving Repr, DecidableEq", ""]

    def defaults(fn):
        args = fn.args.args[1:]
        ds = [None] * (len(args) - len(fn.args.defaults)) + list(fn.args.defaults)
        res = {}
        for a, d in zip(args, ds):
            if d is not None:
                try:
                    res[a.arg] = eval(compile(ast.Expression(d), "<default>", "eval"), {"__builtins__": {}}, {})  # literals / arithmetic only
                except Exception:  # noqa: BLE001
                    res[a.arg] = None
        return res

    for lean, name in (("bitRangeBranches", "add_record_bit_range"), ("rangeBranches", "add_record_range")):
        fn = fns.get(name)
        br = _branches(fn) if fn is not None else [('.unknown "missing"', "?")]
        meta["functions"][name] = {"branches": br, "defaults": {k: v for k, v in (defaults(fn) if fn else {}).items() if isinstance(v, (int, bool))}}
        o.append(f"/-- the if-chain of `Verifier.{name}`: (condition, VerifierResult of the record added) -/")
        o.append(f"def {lean} : List (RCond × String) := [" + ", ".join(f'({c}, "{r}")' for c, r in br) + "]")
    d1 = defaults(fns["add_record_bit_range"]) if "add_record_bit_range" in fns else {}
    d2 = defaults(fns["add_record_range"]) if "add_record_range" in fns else {}
    mt = parse("spsdk/utils/misc.py")
    cr = next((n for n in mt.body if isinstance(n, ast.FunctionDef) and n.name == "check_range"), None)
    d3 = defaults_plain(cr) if cr is not None else {}
    o += ["", f"def bitRangeDefaultBits : Int := {d1.get('bit_range') if isinstance(d1.get('bit_range'), int) else -1}",
          f"def rangeDefaultMin : Int := {d2.get('min_val') if isinstance(d2.get('min_val'), int) else -1}",
          f"def rangeDefaultMax : Int := {d2.get('max_val') if isinstance(d2.get('max_val'), int) else -1}",
          f"def checkRangeDefaultStart : Int := {d3.get('start') if isinstance(d3.get('start'), int) else -1}",
          f"def checkRangeDefaultEnd : Int := {d3.get('end') if isinstance(d3.get('end'), int) else -1}",
          "", "end SpsdkVerif.Generated.AhabVerifierRecs"]
    meta["check_range_defaults"] = {k: v for k, v in d3.items() if isinstance(v, int)}
    emit("AhabVerifierRecs", "\n".join(o) + "\n", meta)


def defaults_plain(fn):
    args = fn.args.args
    ds = [None] * (len(args) - len(fn.args.defaults)) + list(fn.args.defaults)
    res = {}
    for a, d in zip(args, ds):
        if d is not None:
            try:
                res[a.arg] = eval(compile(ast.Expression(d), "<default>", "eval"), {"__builtins__": {}}, {})
            except Exception:  # noqa: BLE001
                res[a.arg] = None
    return res


GENERATORS = {"AhabConsts": gen_AhabConsts, "AhabVerifierRecs": gen_AhabVerifierRecs}
