"""C08 generator: tables and length tests of spsdk/crypto/keys.py -> Generated/KeysTables.lean.

Pure static reading (ast).  What is extracted from the *current* source:
  * `EccCurve` members (declaration order), `ECDSASignature.COORDINATE_LENGTHS` (dict order),
    `PrivateKeyRsa.SUPPORTED_KEY_SIZES`, `KeyEccCommon.default_hash_algorithm` table,
  * the integer/boolean expressions of the length sniffing, translated to Lean over `Nat`:
      - PublicKeyRsa.recreate_public_numbers : `key_size // 8`, the window test
      - PublicKeyEcc.recreate_from_data.get_curve : the loop body (raw test, `+= 7`, DER window test)
      - ECDSASignature.get_ecc_curve : the two tests of the loop body
      - ECDSASignature.get_encoding : the raw-length test
      - KeyEccCommon.coordinate_size / signature_size, the coordinate size used by verify_signature.
If the source no longer has the recognised *shape* (a refactor), the pinned definition is emitted instead and the
fact is recorded in the meta file (`fallback`): the hand model keeps compiling and the correspondence sweep is then
the only tie for that part.  A changed *constant/operator* inside the recognised shape changes the generated Lean
and with it the theorems of Properties/C08.lean.
"""
from __future__ import annotations

import ast

from consteval import ModuleEnv, NotConst
from extract import emit, parse

SRC = "spsdk/crypto/keys.py"
CERT_SRC = "spsdk/crypto/certificate.py"


class Shape(Exception):
    pass


def _dotted(n):
    if isinstance(n, ast.Name):
        return n.id
    if isinstance(n, ast.Attribute):
        b = _dotted(n.value)
        return None if b is None else b + "." + n.attr
    return None


_CMP = {ast.Eq: "=", ast.NotEq: "≠", ast.Lt: "<", ast.LtE: "≤", ast.Gt: ">", ast.GtE: "≥"}


def tr(e, names: dict) -> str:
    """Translate an int/bool expression over non-negative integers to a Lean `Nat`/`Bool` term."""
    if isinstance(e, ast.Constant) and isinstance(e.value, bool):
        return "true" if e.value else "false"
    if isinstance(e, ast.Constant) and isinstance(e.value, int) and e.value >= 0:
        return f"({e.value} : Nat)"
    d = _dotted(e)
    if d is not None:
        if d in names:
            return names[d]
        raise Shape(f"unknown name {d}")
    if isinstance(e, ast.Call):
        fn = _dotted(e.func)
        if fn == "math.ceil" and len(e.args) == 1 and isinstance(e.args[0], ast.BinOp) and isinstance(e.args[0].op, ast.Div) \
                and isinstance(e.args[0].right, ast.Constant) and isinstance(e.args[0].right.value, int) and e.args[0].right.value > 0:
            c = e.args[0].right.value
            return f"(({tr(e.args[0].left, names)} + {c - 1}) / {c})"
        raise Shape(f"call {fn}")
    if isinstance(e, ast.BinOp):
        a, b = tr(e.left, names), tr(e.right, names)
        if isinstance(e.op, ast.Add):
            return f"({a} + {b})"
        if isinstance(e.op, ast.Mult):
            return f"({a} * {b})"
        if isinstance(e.op, ast.FloorDiv):
            return f"({a} / {b})"
        raise Shape("operator " + type(e.op).__name__)  # `-` is not total on Nat: not supported on purpose
    if isinstance(e, ast.BoolOp):
        parts = [tr(v, names) for v in e.values]
        return "(" + (" && " if isinstance(e.op, ast.And) else " || ").join(parts) + ")"
    if isinstance(e, ast.UnaryOp) and isinstance(e.op, ast.Not):
        return f"(!{tr(e.operand, names)})"
    if isinstance(e, ast.Compare):
        out, left = [], e.left
        for op, right in zip(e.ops, e.comparators):
            if isinstance(op, ast.In):
                if isinstance(right, ast.Call) and _dotted(right.func) == "range" and len(right.args) == 2:
                    x = tr(left, names)
                    out.append(f"(decide ({tr(right.args[0], names)} ≤ {x}) && decide ({x} < {tr(right.args[1], names)}))")
                elif isinstance(right, ast.Call) and _dotted(right.func) in ("cls.COORDINATE_LENGTHS.values", "ECDSASignature.COORDINATE_LENGTHS.values",
                                                                           "self.COORDINATE_LENGTHS.values"):
                    out.append(f"((coordinateLengths.map (·.2)).contains {tr(left, names)})")
                else:
                    raise Shape("in <unsupported>")
            elif type(op) in _CMP:
                out.append(f"(decide ({tr(left, names)} {_CMP[type(op)]} {tr(right, names)}))")
            else:
                raise Shape("comparison " + type(op).__name__)
            left = right
        return "(" + " && ".join(out) + ")"
    raise Shape("expression " + type(e).__name__)


def find(tree, qual):
    node = tree
    for part in qual.split("."):
        for ch in ast.walk(node) if node is not tree else ast.iter_child_nodes(node):
            if isinstance(ch, (ast.ClassDef, ast.FunctionDef)) and ch.name == part and ch is not node:
                node = ch
                break
        else:
            raise Shape(f"{qual}: {part} not found")
    return node


def body_wo_doc(fn):
    b = fn.body
    if b and isinstance(b[0], ast.Expr) and isinstance(b[0].value, ast.Constant) and isinstance(b[0].value.value, str):
        b = b[1:]
    return b


def class_assign(tree, cls, name):
    c = find(tree, cls)
    for st in c.body:
        if isinstance(st, ast.Assign) and any(isinstance(t, ast.Name) and t.id == name for t in st.targets):
            return st.value
        if isinstance(st, ast.AnnAssign) and isinstance(st.target, ast.Name) and st.target.id == name and st.value is not None:
            return st.value
    raise Shape(f"{cls}.{name} not found")


# ------------------------------------------------------------------------------------------------ pieces
def g_curves(tree):
    c = find(tree, "EccCurve")
    out = []
    for st in c.body:
        if isinstance(st, ast.Assign) and isinstance(st.value, ast.Constant) and isinstance(st.value.value, str):
            out.append((st.targets[0].id, st.value.value))
    if not out:
        raise Shape("EccCurve has no members")
    return out


def g_coordlens(tree, curves):
    v = class_assign(tree, "ECDSASignature", "COORDINATE_LENGTHS")
    if not isinstance(v, ast.Dict):
        raise Shape("COORDINATE_LENGTHS is not a dict literal")
    byname = dict(curves)
    out = []
    for k, val in zip(v.keys, v.values):
        d = _dotted(k)
        if d is None or not d.startswith("EccCurve.") or d.split(".", 1)[1] not in byname or not isinstance(val, ast.Constant):
            raise Shape("COORDINATE_LENGTHS entry")
        out.append((byname[d.split(".", 1)[1]], int(val.value)))
    return out


def g_rsa_sizes(tree):
    v = class_assign(tree, "PrivateKeyRsa", "SUPPORTED_KEY_SIZES")
    if not isinstance(v, (ast.List, ast.Tuple)) or not all(isinstance(x, ast.Constant) and isinstance(x.value, int) for x in v.elts):
        raise Shape("SUPPORTED_KEY_SIZES")
    return [x.value for x in v.elts]


def g_default_hash(tree):
    fn = find(tree, "KeyEccCommon.default_hash_algorithm")
    for n in ast.walk(fn):
        if isinstance(n, ast.Dict) and n.keys and all(isinstance(k, ast.Constant) and isinstance(k.value, int) for k in n.keys):
            out = []
            for k, v in zip(n.keys, n.values):
                d = _dotted(v)
                if d is None or not d.startswith("EnumHashAlgorithm."):
                    raise Shape("default_hash_algorithm value")
                out.append((k.value, d.split(".", 1)[1].lower()))
            return out
    raise Shape("default_hash_algorithm table")


def g_rsa_window(tree):
    fn = find(tree, "PublicKeyRsa.recreate_public_numbers")
    loops = [s for s in body_wo_doc(fn) if isinstance(s, ast.For)]
    if len(loops) != 1 or _dotted(loops[0].iter) != "PrivateKeyRsa.SUPPORTED_KEY_SIZES" or _dotted(loops[0].target) != "key_size":
        raise Shape("recreate_public_numbers loop")
    b = loops[0].body
    if not (len(b) == 2 and isinstance(b[0], ast.Assign) and _dotted(b[0].targets[0]) == "key_size_bytes" and isinstance(b[1], ast.If)
            and not b[1].orelse):
        raise Shape("recreate_public_numbers loop body")
    ksb = tr(b[0].value, {"key_size": "key_size"})
    win = tr(b[1].test, {"key_size_bytes": "key_size_bytes", "data_len": "data_len"})
    # the two slices must be data[:key_size_bytes] / data[key_size_bytes:]
    src = ast.unparse(b[1])
    if "data[:key_size_bytes]" not in src or "data[key_size_bytes:]" not in src:
        raise Shape("recreate_public_numbers slices")
    return ksb, win


def g_ecc_get_curve(tree):
    fn = find(tree, "PublicKeyEcc.recreate_from_data.get_curve")
    loops = [s for s in body_wo_doc(fn) if isinstance(s, ast.For)]
    if len(loops) != 1:
        raise Shape("get_curve loop")
    names = {"curve_obj.key_size": "key_size", "data_length": "data_length"}
    lines, seen_size = [], False
    for st in loops[0].body:
        if isinstance(st, ast.Assign) and _dotted(st.targets[0]) == "curve_obj":
            continue
        if isinstance(st, ast.Assign) and _dotted(st.targets[0]) == "curve_sign_size":
            lines.append(f"let curve_sign_size := {tr(st.value, names)}")
            names["curve_sign_size"] = "curve_sign_size"
            seen_size = True
        elif isinstance(st, ast.AugAssign) and _dotted(st.target) == "curve_sign_size" and isinstance(st.op, ast.Add):
            lines.append(f"let curve_sign_size := curve_sign_size + {tr(st.value, names)}")
        elif isinstance(st, ast.If) and not st.orelse and len(st.body) == 1 and isinstance(st.body[0], ast.Return) \
                and isinstance(st.body[0].value, ast.Tuple) and len(st.body[0].value.elts) == 2 \
                and isinstance(st.body[0].value.elts[1], ast.Constant) and isinstance(st.body[0].value.elts[1].value, bool) \
                and _dotted(st.body[0].value.elts[0]) == "cur":
            flag = "true" if st.body[0].value.elts[1].value else "false"
            lines.append(f"if {tr(st.test, names)} then some {flag} else")
        elif isinstance(st, ast.Expr) and isinstance(st.value, ast.Constant):
            continue
        else:
            raise Shape("get_curve loop statement " + type(st).__name__)
    if not seen_size:
        raise Shape("get_curve: curve_sign_size")
    return "\n  ".join(lines + ["none"])


def g_sig_curve(tree):
    fn = find(tree, "ECDSASignature.get_ecc_curve")
    loops = [s for s in body_wo_doc(fn) if isinstance(s, ast.For)]
    if len(loops) != 1 or _dotted(loops[0].iter.func if isinstance(loops[0].iter, ast.Call) else loops[0].iter) not in (
            "cls.COORDINATE_LENGTHS.items", "ECDSASignature.COORDINATE_LENGTHS.items"):
        raise Shape("get_ecc_curve loop")
    tgt = loops[0].target
    if not (isinstance(tgt, ast.Tuple) and [_dotted(x) for x in tgt.elts] == ["curve", "coord_len"]):
        raise Shape("get_ecc_curve loop target")
    tests = []
    for st in loops[0].body:
        if isinstance(st, ast.If) and not st.orelse and len(st.body) == 1 and isinstance(st.body[0], ast.Return) and _dotted(st.body[0].value) == "curve":
            tests.append(tr(st.test, {"signature_length": "signature_length", "coord_len": "coord_len"}))
        else:
            raise Shape("get_ecc_curve loop statement")
    if not tests:
        raise Shape("get_ecc_curve: no tests")
    return "(" + " || ".join(tests) + ")"


def g_sig_sniff(tree):
    fn = find(tree, "ECDSASignature.get_encoding")
    b = body_wo_doc(fn)
    if not (len(b) >= 2 and isinstance(b[0], ast.Assign) and _dotted(b[0].targets[0]) == "signature_length"
            and ast.unparse(b[0].value) == "len(signature)"):
        raise Shape("get_encoding: signature_length")
    ifs = [s for s in b if isinstance(s, ast.If)]
    if not ifs or not (len(ifs[0].body) == 1 and isinstance(ifs[0].body[0], ast.Return) and _dotted(ifs[0].body[0].value) == "SPSDKEncoding.NXP"):
        raise Shape("get_encoding: first test")
    if b.index(ifs[0]) != 1:
        raise Shape("get_encoding: the raw test is no longer first")
    return tr(ifs[0].test, {"signature_length": "signature_length"})


def g_ret_expr(tree, qual, names):
    fn = find(tree, qual)
    b = body_wo_doc(fn)
    if len(b) != 1 or not isinstance(b[0], ast.Return):
        raise Shape(qual + " body")
    return tr(b[0].value, names)


def g_verify_coord(tree):
    fn = find(tree, "PublicKeyEcc.verify_signature")
    for st in body_wo_doc(fn):
        if isinstance(st, ast.Assign) and _dotted(st.targets[0]) == "coordinate_size":
            return tr(st.value, {"self.key.key_size": "key_size"})
    raise Shape("verify_signature: coordinate_size")



SP_SRC = "spsdk/crypto/signature_provider.py"
UT_SRC = "spsdk/crypto/utils.py"


def g_key_len_curve(tree, curves):
    """module-level get_ecc_curve(key_length): chain of `if test: return EccCurve.X` then raise."""
    fn = None
    for st in tree.body:
        if isinstance(st, ast.FunctionDef) and st.name == "get_ecc_curve":
            fn = st
    if fn is None:
        raise Shape("get_ecc_curve (module level) not found")
    byname = dict(curves)
    lines = []
    for st in body_wo_doc(fn):
        if isinstance(st, ast.If) and not st.orelse and len(st.body) == 1 and isinstance(st.body[0], ast.Return):
            d = _dotted(st.body[0].value)
            if d is None or not d.startswith("EccCurve.") or d.split(".", 1)[1] not in byname:
                raise Shape("get_ecc_curve return value")
            lines.append(f'if {tr(st.test, {"key_length": "key_length"})} then some "{byname[d.split(".", 1)[1]]}" else')
        elif isinstance(st, ast.Raise):
            break
        else:
            raise Shape("get_ecc_curve statement")
    if not lines:
        raise Shape("get_ecc_curve: no tests")
    return "\n  ".join(lines + ["none"])


def g_hash_from_sig_size(tree):
    fn = find(tree, "get_hash_type_from_signature_size")
    out = []
    for st in body_wo_doc(fn):
        if isinstance(st, ast.If) and isinstance(st.test, ast.Compare) and len(st.test.ops) == 1 and isinstance(st.test.ops[0], ast.Eq) \
                and isinstance(st.test.comparators[0], ast.Constant) and isinstance(st.body[0], ast.Return):
            d = _dotted(st.body[0].value)
            if d is None or not d.startswith("EnumHashAlgorithm."):
                raise Shape("get_hash_type_from_signature_size value")
            out.append((int(st.test.comparators[0].value), d.split(".", 1)[1].lower()))
    if not out:
        raise Shape("get_hash_type_from_signature_size")
    return out


def g_str_list(tree, cls, name):
    v = class_assign(tree, cls, name)
    if not isinstance(v, (ast.List, ast.Tuple)) or not all(isinstance(x, ast.Constant) and isinstance(x.value, str) for x in v.elts):
        raise Shape(f"{cls}.{name}")
    return [x.value for x in v.elts]


def g_init_params(tree, cls):
    """(named parameters of __init__ without self, has **kwargs)"""
    fn = find(tree, cls + ".__init__")
    a = fn.args
    return [x.arg for x in a.posonlyargs + a.args + a.kwonlyargs if x.arg != "self"], a.kwarg is not None, (a.kwarg.arg if a.kwarg else "")


def g_cert_pad(tree):
    """How `Certificate.parse` gets rid of the zero padding of the NXP (4-byte aligned) encoding.

    Returns (mode, stripped byte values, needs_extra_data):
      mode 0 = retry loop: `while True: try: return load(data) except ValueError: if <tests>: data = data[:-1] else: raise` -
               ONE byte is removed per failed attempt, only while the loader keeps failing;
      mode 1 = unconditional strip (`data.rstrip(...)` / `.strip(...)` anywhere in `parse`) BEFORE the loader sees the data.
    The stripped byte(s) are read BY VALUE (consteval); `needs_extra_data` = the loop also tests for the loader's "ExtraData" error kind.
    """
    env = ModuleEnv(tree)
    fn = find(tree, "Certificate.parse")

    def const(node):
        try:
            return env.eval(node, cls="Certificate")
        except NotConst as exc:
            raise Shape(f"Certificate.parse: pad byte is not constant ({exc})")

    for n in ast.walk(fn):
        if isinstance(n, ast.Call) and isinstance(n.func, ast.Attribute) and n.func.attr in ("rstrip", "strip"):
            if len(n.args) == 0:
                vals = sorted(b" \t\n\r\x0b\x0c")
            elif len(n.args) == 1:
                v = const(n.args[0])
                if not isinstance(v, (bytes, bytearray)):
                    raise Shape("Certificate.parse: strip argument is not bytes")
                vals = sorted(set(v))
            else:
                raise Shape("Certificate.parse: strip call")
            return 1, vals, False
    loops = [n for n in ast.walk(fn) if isinstance(n, ast.While)]
    if len(loops) != 1:
        raise Shape("Certificate.parse: expected exactly one retry loop (or a strip call)")
    tries = [s for s in loops[0].body if isinstance(s, ast.Try)]
    if len(loops[0].body) != 1 or len(tries) != 1 or len(tries[0].handlers) != 1 or _dotted(tries[0].handlers[0].type) != "ValueError":
        raise Shape("Certificate.parse: retry loop body")
    t = tries[0]
    if not (len(t.body) == 1 and isinstance(t.body[0], ast.Return) and isinstance(t.body[0].value, ast.Call)
            and (_dotted(t.body[0].value.func) or "").endswith("load_der_x509_certificate")):
        raise Shape("Certificate.parse: the loop does not return load_der_x509_certificate(data)")
    hb = t.handlers[0].body
    if not (len(hb) == 1 and isinstance(hb[0], ast.If) and len(hb[0].orelse) == 1 and isinstance(hb[0].orelse[0], ast.Raise)):
        raise Shape("Certificate.parse: handler is not `if …: strip else: raise`")
    iff = hb[0]
    b = iff.body
    if not (len(b) == 1 and isinstance(b[0], ast.Assign) and isinstance(b[0].value, ast.Subscript) and isinstance(b[0].value.slice, ast.Slice)
            and b[0].value.slice.lower is None and b[0].value.slice.step is None and b[0].value.slice.upper is not None
            and const(b[0].value.slice.upper) == -1 and _dotted(b[0].targets[0]) == _dotted(b[0].value.value)):
        raise Shape("Certificate.parse: the loop does not remove exactly one trailing byte")
    tests = iff.test.values if isinstance(iff.test, ast.BoolOp) and isinstance(iff.test.op, ast.And) else [iff.test]
    vals, extra = None, False
    for tst in tests:
        src = ast.unparse(tst)
        if isinstance(tst, ast.Compare) and len(tst.ops) == 1 and isinstance(tst.ops[0], ast.Eq) and isinstance(tst.left, ast.Subscript) \
                and isinstance(tst.left.slice, ast.Slice) and tst.left.slice.upper is None and tst.left.slice.lower is not None \
                and const(tst.left.slice.lower) == -1:
            v = const(tst.comparators[0])
            if not isinstance(v, (bytes, bytearray)) or len(v) != 1:
                raise Shape("Certificate.parse: pad byte comparison")
            vals = [v[0]]
        elif isinstance(tst, ast.Compare) and len(tst.ops) == 1 and isinstance(tst.ops[0], ast.In) and "exc.args" in src:
            if "ExtraData" not in str(const(tst.left)):
                raise Shape("Certificate.parse: error-kind test")
            extra = True
        elif src in ("len(exc.args)", "exc.args", "len(exc.args) > 0", "len(exc.args) >= 1"):
            continue
        else:
            raise Shape("Certificate.parse: unknown test in the retry condition: " + src)
    if vals is None:
        raise Shape("Certificate.parse: the retry condition does not test the last byte")
    return 0, vals, extra


PINNED = {
    "curves": [("SECP256R1", "secp256r1"), ("SECP384R1", "secp384r1"), ("SECP521R1", "secp521r1")],
    "coordlens": [("secp256r1", 32), ("secp384r1", 48), ("secp521r1", 66)],
    "rsa_sizes": [2048, 3072, 4096],
    "default_hash": [(256, "sha256"), (384, "sha384"), (521, "sha512")],
    "rsa_window": ("(key_size / (8 : Nat))",
                   "((decide ((key_size_bytes + (3 : Nat)) ≤ data_len)) && (decide (data_len ≤ (key_size_bytes + (4 : Nat)))))"),
    "ecc_get_curve": "let curve_sign_size := (((key_size + 7) / 8) * (2 : Nat))\n  if ((decide (curve_sign_size = data_length))) then some false else\n  "
                     "let curve_sign_size := curve_sign_size + (7 : Nat)\n  "
                     "if ((decide (curve_sign_size ≤ data_length)) && (decide (data_length ≤ (curve_sign_size + (2 : Nat))))) then some true else\n  none",
    "sig_curve": "(((decide (signature_length = (coord_len * (2 : Nat))))) || ((decide (((coord_len * (2 : Nat)) + (3 : Nat)) ≤ signature_length) && "
                 "decide (signature_length < ((coord_len * (2 : Nat)) + (9 : Nat))))))",
    "sig_sniff": "(((coordinateLengths.map (·.2)).contains (signature_length / (2 : Nat))))",
    "coordinate_size": "((key_size + 7) / 8)",
    "signature_size": "(coordinate_size * (2 : Nat))",
    "verify_coord": "((key_size + 7) / 8)",
    "rsa_signature_size": "(key_size / (8 : Nat))",
    "key_len_curve": "if ((decide (key_length ≤ (32 : Nat))) || (decide (key_length = (64 : Nat)))) then some \"secp256r1\" else\n  "
                     "if ((decide (key_length ≤ (48 : Nat))) || (decide (key_length = (96 : Nat)))) then some \"secp384r1\" else\n  "
                     "if (decide (key_length ≤ (66 : Nat))) then some \"secp521r1\" else\n  none",
    "hash_from_sig_size": [(64, "sha256"), (96, "sha384"), (132, "sha512")],
    "sp_reserved": ["type", "identifier", "search_paths", "pss_padding"],
    "proxy_reserved": ["type", "search_paths", "data"],
    "plainfile_init": (["file_path", "password", "hash_alg", "search_paths", "pss_padding"], True, "kwargs"),
    "proxy_init": (["host", "port", "url_prefix", "timeout", "prehash"], True, "kwargs"),
    "cert_pad": (0, [0], True),
    "rsa_pub_signature_size": "(key_size / (8 : Nat))",
    "plainfile_siglen": "self.private_key.signature_size",
}


def gen_KeysTables() -> None:
    meta = {"source": SRC, "fallback": {}, "values": {}}
    try:
        tree = parse(SRC)
    except (OSError, SyntaxError) as exc:
        tree = None
        meta["fallback"]["*"] = f"unreadable: {exc}"

    def get(key, fn):
        if tree is None:
            return PINNED[key]
        try:
            return fn()
        except Shape as exc:
            meta["fallback"][key] = str(exc)
            return PINNED[key]

    curves = get("curves", lambda: g_curves(tree))
    coordlens = get("coordlens", lambda: g_coordlens(tree, curves))
    rsa_sizes = get("rsa_sizes", lambda: g_rsa_sizes(tree))
    default_hash = get("default_hash", lambda: g_default_hash(tree))
    ksb, win = get("rsa_window", lambda: g_rsa_window(tree))
    ecc_get_curve = get("ecc_get_curve", lambda: g_ecc_get_curve(tree))
    sig_curve = get("sig_curve", lambda: g_sig_curve(tree))
    sig_sniff = get("sig_sniff", lambda: g_sig_sniff(tree))
    coordinate_size = get("coordinate_size", lambda: g_ret_expr(tree, "KeyEccCommon.coordinate_size", {"self.key.key_size": "key_size"}))
    signature_size = get("signature_size", lambda: g_ret_expr(tree, "KeyEccCommon.signature_size", {"self.coordinate_size": "coordinate_size"}))
    verify_coord = get("verify_coord", lambda: g_verify_coord(tree))

    rsa_signature_size = get("rsa_signature_size", lambda: g_ret_expr(tree, "PrivateKeyRsa.signature_size", {"self.key.key_size": "key_size"}))
    key_len_curve = get("key_len_curve", lambda: g_key_len_curve(tree, curves))
    rsa_pub_signature_size = get("rsa_pub_signature_size", lambda: g_ret_expr(tree, "PublicKeyRsa.signature_size", {"self.key.key_size": "key_size"}))
    try:
        sp_tree, ut_tree = parse(SP_SRC), parse(UT_SRC)
    except (OSError, SyntaxError) as exc:
        sp_tree = ut_tree = None
        meta["fallback"]["signature_provider/utils"] = f"unreadable: {exc}"

    def get2(key, fn, t):
        if t is None:
            return PINNED[key]
        try:
            return fn()
        except Shape as exc:
            meta["fallback"][key] = str(exc)
            return PINNED[key]

    hash_from_sig_size = get2("hash_from_sig_size", lambda: g_hash_from_sig_size(ut_tree), ut_tree)
    sp_reserved = get2("sp_reserved", lambda: g_str_list(sp_tree, "SignatureProvider", "reserved_keys"), sp_tree)
    proxy_reserved = get2("proxy_reserved", lambda: g_str_list(sp_tree, "HttpProxySP", "reserved_keys"), sp_tree)
    plainfile_init = get2("plainfile_init", lambda: g_init_params(sp_tree, "PlainFileSP"), sp_tree)
    proxy_init = get2("proxy_init", lambda: g_init_params(sp_tree, "HttpProxySP"), sp_tree)

    try:
        cert_tree = parse(CERT_SRC)
    except (OSError, SyntaxError) as exc:
        cert_tree = None
        meta["fallback"]["certificate"] = f"unreadable: {exc}"
    cert_pad = get2("cert_pad", lambda: g_cert_pad(cert_tree), cert_tree)

    def g_plainfile_siglen():
        fn = find(sp_tree, "PlainFileSP.signature_length")
        b = body_wo_doc(fn)
        if len(b) != 1 or not isinstance(b[0], ast.Return) or _dotted(b[0].value) is None:
            raise Shape("PlainFileSP.signature_length body")
        return _dotted(b[0].value)

    plainfile_siglen = get2("plainfile_siglen", g_plainfile_siglen, sp_tree)

    def strlist(xs):
        return "[" + ", ".join('"%s"' % x for x in xs) + "]"

    L = ["", "namespace SpsdkVerif.Generated.KeysTables", "",
         "/-- `EccCurve` member values in declaration order (`list(EccCurve)`) -/",
         f"def curveNames : List String := {strlist(v for _, v in curves)}", "",
         "/-- `ECDSASignature.COORDINATE_LENGTHS` in dict order: (curve value, coordinate length) -/",
         "def coordinateLengths : List (String × Nat) := [" + ", ".join(f'("{n}", {v})' for n, v in coordlens) + "]", "",
         "/-- `PrivateKeyRsa.SUPPORTED_KEY_SIZES` -/",
         "def rsaSupportedKeySizes : List Nat := [" + ", ".join(str(x) for x in rsa_sizes) + "]", "",
         "/-- `KeyEccCommon.default_hash_algorithm`: key size in bits -> hash -/",
         "def eccDefaultHash : List (Nat × String) := [" + ", ".join(f'({k}, "{v}")' for k, v in default_hash) + "]", "",
         "/-- `PublicKeyRsa.recreate_public_numbers`: `key_size_bytes = …` -/",
         f"def rsaKeySizeBytes (key_size : Nat) : Nat := {ksb}", "",
         "/-- `PublicKeyRsa.recreate_public_numbers`: the length window test of the loop -/",
         f"def rsaRawWindow (key_size_bytes data_len : Nat) : Bool :=\n  {win}", "",
         "/-- `PublicKeyEcc.recreate_from_data.get_curve`: one loop iteration; `some false` = raw, `some true` = DER, `none` = next curve -/",
         f"def eccGetCurveStep (key_size data_length : Nat) : Option Bool :=\n  {ecc_get_curve}", "",
         "/-- `ECDSASignature.get_ecc_curve`: one loop iteration (either test returns the curve) -/",
         f"def sigCurveStep (signature_length coord_len : Nat) : Bool :=\n  {sig_curve}", "",
         "/-- `ECDSASignature.get_encoding`: the first test (raw `r‖s` by length) -/",
         f"def sigSniffNxp (signature_length : Nat) : Bool :=\n  {sig_sniff}", "",
         "/-- `KeyEccCommon.coordinate_size` -/",
         f"def coordinateSize (key_size : Nat) : Nat := {coordinate_size}", "",
         "/-- `KeyEccCommon.signature_size` -/",
         f"def signatureSize (coordinate_size : Nat) : Nat := {signature_size}", "",
         "/-- `PublicKeyEcc.verify_signature`: `coordinate_size = …` -/",
         f"def verifyCoordinateSize (key_size : Nat) : Nat := {verify_coord}", "",
         "/-- `PrivateKeyRsa.signature_size` (also `PublicKeyRsa.signature_size`) -/",
         f"def rsaSignatureSize (key_size : Nat) : Nat := {rsa_signature_size}", "",
         "/-- `PublicKeyRsa.signature_size` (generated separately from the private key's) -/",
         f"def rsaPubSignatureSize (key_size : Nat) : Nat := {rsa_pub_signature_size}", "",
         "/-- what `PlainFileSP.signature_length` returns (attribute path) -/",
         f"def plainFileSigLenAttr : String := \"{plainfile_siglen}\"", "",
         "/-- module-level `get_ecc_curve(key_length)` (used by nxpcrypto `reconstruct_key`): curve value or `none` = SPSDKError -/",
         f"def keyLenCurve (key_length : Nat) : Option String :=\n  {key_len_curve}", "",
         "/-- `utils.get_hash_type_from_signature_size` -/",
         "def hashFromSigSize : List (Nat × String) := [" + ", ".join(f'({k}, "{v}")' for k, v in hash_from_sig_size) + "]", "",
         "/-- `SignatureProvider.reserved_keys` / `HttpProxySP.reserved_keys` -/",
         f"def spReservedKeys : List String := {strlist(sp_reserved)}",
         f"def proxyReservedKeys : List String := {strlist(proxy_reserved)}", "",
         "/-- named parameters of `PlainFileSP.__init__` / `HttpProxySP.__init__` (without self), whether `**kwargs` exists and its name -/",
         f"def plainFileInitParams : List String := {strlist(plainfile_init[0])}",
         f"def plainFileHasKwargs : Bool := {'true' if plainfile_init[1] else 'false'}",
         f"def plainFileKwargsName : String := \"{plainfile_init[2]}\"",
         f"def proxyInitParams : List String := {strlist(proxy_init[0])}",
         f"def proxyKwargsName : String := \"{proxy_init[2]}\"", "",
         "/-- `Certificate.parse` (certificate.py): how the zero padding of the NXP encoding is removed before / while loading the DER form.",
         "    mode 0 = retry loop (one trailing byte removed per failed load attempt), 1 = unconditional strip of every trailing pad byte;",
         "    the byte values that may be removed; whether the retry also requires the loader's `ExtraData` error kind -/",
         f"def certPadMode : Nat := {cert_pad[0]}",
         "def certPadBytes : List Nat := [" + ", ".join(str(x) for x in cert_pad[1]) + "]",
         f"def certPadNeedsExtraData : Bool := {'true' if cert_pad[2] else 'false'}", "",
         "end SpsdkVerif.Generated.KeysTables", ""]
    meta["values"] = {"curves": curves, "coordinate_lengths": coordlens, "rsa_key_sizes": rsa_sizes, "ecc_default_hash": default_hash,
                      "cert_pad": {"mode": cert_pad[0], "bytes": list(cert_pad[1]), "needs_extra_data": cert_pad[2]}}
    emit("KeysTables", "\n".join(L), meta)


GENERATORS = {"KeysTables": gen_KeysTables}
