"""C15 generator: Generated/DatConsts.lean from the CURRENT debug-authentication sources and device database.

Never imports spsdk.  Two ways of reading, both independent of HOW the source spells things:

  * **by value through a sandbox** (`Sandbox`): the three modules spsdk/dat/debug_credential.py, dac_packet.py, dar_packet.py are
    compiled from their AST with every `import` removed and every function annotation stripped, and executed in a namespace in
    which unknown names are permissive dummies and a handful of names are small stubs (struct functions that RECORD their calls,
    key objects that are just byte strings, a hash that remembers its algorithm, a database that answers from a probe table, an
    opaque SRK table).  The generator then *probes* the real classes with distinctive values and reads off
      - versions, key-size -> minor-version maps, the field layout of export() / _get_data_to_sign() of the three credential
        classes (recorded `pack` format, normalised with consteval.struct_fields, zipped with the arguments identified by value;
        symbolic widths found by varying the sizes of the stub objects), the layout parse() reads (recorded `unpack_from` calls by
        offset, each value followed into the attribute of the returned object that receives it),
      - RotMetaRSA geometry, RotMetaFlags export / constructor / parse tables, RotMetaEcc item width and hash tables,
      - DAC export / parse layout and the RoT-hash-length table, DAR common data / signed message / exported packet per protocol
        version, the accept / refuse table of create_from_yaml_config, what the EdgeLock v2 wrapper does with the permission data.
    Control flow, helper methods, constant hoisting, struct spellings ("2H" / "HH", "L" / "I"), dict order, annotations, comments,
    messages and method order cannot change what is generated; behaviour can.
      - (phase 3) the AHAB certificate behind the EdgeLock v2 credential (`probe_cert`: ahab_abstract_interfaces.py + ahab_certificate.py
        in the sandbox; field tables of get_signature_data() / export() / parse(export()), inverted-permission check) and the payload of
        the EdgeLock v2 response (`probe_dat_msg`: MessageDat of signed_msg.py).
  * **statically** (consteval / YAML): class constants of the certificate (sizes, PERM_OEM) and the device
    database (replica of Device.load/_load_alias; cross-checked against the live database by harness/props/C15.py on every run).

A probe that raises becomes an `.unknown` / empty stand-in (a broken obligation), never a crash of the generator.
"""
from __future__ import annotations

import abc
import ast
import builtins
import collections
import copy
import dataclasses
import math
import re
import struct
import types

import yaml

from consteval import ModuleEnv, NotConst, struct_fields
from extract import REPO, emit, parse

DC = "spsdk/dat/debug_credential.py"
DAC = "spsdk/dat/dac_packet.py"
DAR = "spsdk/dat/dar_packet.py"
CERT = "spsdk/image/ahab/ahab_certificate.py"


# ------------------------------------------------------------------------------------------------ ast helpers
def _cls(tree, name):
    for n in (tree.body if tree else []):
        if isinstance(n, ast.ClassDef) and n.name == name:
            return n
    return None


def _fun(cls, name):
    if cls is None:
        return None
    for n in cls.body:
        if isinstance(n, ast.FunctionDef) and n.name == name:
            return n
    return None


def _lit(node):
    try:
        return ast.literal_eval(node)
    except (ValueError, SyntaxError, TypeError):
        return None


def pairs(d):
    """a table the code only indexes: sorted by key"""
    if not isinstance(d, dict):
        return "[]"
    try:
        return "[" + ", ".join(f"({int(k)}, {int(v)})" for k, v in sorted(d.items())) + "]"
    except (TypeError, ValueError):
        return "[]"


def _b(x):
    return "true" if x else "false"


def _strs(xs):
    return "[" + ", ".join('"%s"' % str(x).replace("\\", "\\\\").replace('"', "'") for x in xs) + "]"


def _hexb(b):
    return "[" + ", ".join(str(x) for x in bytes(b)) + "]"


# ------------------------------------------------------------------------------------------------ sandbox
class Dummy:
    """permissive stand-in for anything imported that the probes do not need"""

    def __init__(self, name="?"):
        object.__setattr__(self, "_n", name)

    def __getattr__(self, a):
        if a.startswith("__") and a.endswith("__"):
            raise AttributeError(a)
        return Dummy(f"{self._n}.{a}")

    def __call__(self, *a, **k):
        if len(a) == 1 and not k and isinstance(a[0], (types.FunctionType, type)):
            return a[0]  # used as a decorator
        return Dummy(f"{self._n}()")

    def __getitem__(self, k):
        return Dummy(f"{self._n}[]")

    def __iter__(self):
        return iter(())

    def __bool__(self):
        return False

    def __repr__(self):
        return f"<Dummy {self._n}>"

    def __mro_entries__(self, bases):
        return (object,)

    def __or__(self, o):
        return self

    __ror__ = __or__


class _NS(dict):
    def __missing__(self, k):
        if hasattr(builtins, k):
            return getattr(builtins, k)
        return Dummy(k)


class _Strip(ast.NodeTransformer):
    def visit_FunctionDef(self, n):
        self.generic_visit(n)
        n.returns = None
        a = n.args
        for x in a.posonlyargs + a.args + a.kwonlyargs + ([a.vararg] if a.vararg else []) + ([a.kwarg] if a.kwarg else []):
            x.annotation = None
        return n

    def visit_Import(self, n):
        return None

    def visit_ImportFrom(self, n):
        return None


class SPSDKError(Exception):
    pass


class SPSDKKeyError(SPSDKError, KeyError):
    pass


class SPSDKValueError(SPSDKError, ValueError):
    pass


class SPSDKTypeError(SPSDKError, TypeError):
    pass


class SPSDKNotImplementedError(SPSDKError, NotImplementedError):
    pass


class HB(bytes):
    """digest stand-in: zero bytes of the digest size that remember algorithm and data"""
    SIZES = {"sha1": 20, "sha224": 28, "sha256": 32, "sha384": 48, "sha512": 64}

    def __new__(cls, alg, data):
        o = super().__new__(cls, cls.SIZES[alg])
        o.alg, o.data = alg, bytes(data)
        return o


class _EnumHash:
    SHA256 = "sha256"

    @staticmethod
    def from_label(label):
        if not isinstance(label, str) or label.lower() not in HB.SIZES:
            raise SPSDKKeyError(f"no hash {label}")
        return label.lower()


class Key:
    """public key stand-in: what matters is what it exports"""

    def __init__(self, raw=b"", key_size=0, coordinate_size=0, signature_size=0):
        self.raw, self.key_size, self.coordinate_size, self.signature_size = bytes(raw), key_size, coordinate_size, signature_size

    def export(self, *a, **k):
        return self.raw

    @classmethod
    def parse(cls, data):
        return Key(raw=data)

    def __eq__(self, o):
        return isinstance(o, Key) and o.raw == self.raw

    def __hash__(self):
        return hash(self.raw)


class KeyRsa(Key):
    pass


class KeyEcc(Key):
    pass


class SrkTable:
    """opaque SRK table: `len16 | body`; four keys whose export / signature sizes are set by the probe"""
    KEYS = []

    def __init__(self, raw=b""):
        self.raw = bytes(raw) if isinstance(raw, (bytes, bytearray)) else b"\x02\x00"   # built from records: content irrelevant

    @classmethod
    def parse(cls, data):
        n = int.from_bytes(data[:2], "little")
        return cls(data[:n])

    def export(self):
        return self.raw

    def __len__(self):
        return len(self.raw)

    def verify(self):
        return types.SimpleNamespace(validate=lambda: None)

    def update_fields(self):
        pass

    def get_source_keys(self):
        return list(self.KEYS)

    def compute_srk_hash(self, *a):
        return HB("sha256", self.raw)

    def __eq__(self, o):
        return isinstance(o, SrkTable) and o.raw == self.raw


class Rec:
    """what the struct stubs saw"""

    def __init__(self):
        self.packs, self.unpacks = [], []

    def clear(self):
        del self.packs[:], self.unpacks[:]


class Sandbox:
    def __init__(self):
        self.rec = Rec()
        self.db = {}          # answers of get_db(...).get_bool/get_int: key -> value
        self.keys = {}        # extract_public_key(path) -> Key
        rec = self.rec

        def pack(fmt, *a):
            out = struct.pack(fmt, *a)
            rec.packs.append((fmt, a, out))
            return out

        def unpack_from(fmt, buffer, offset=0):
            res = struct.unpack_from(fmt, buffer, offset)
            rec.unpacks.append((fmt, bytes(buffer), offset, res))
            return res

        def unpack(fmt, buffer):
            res = struct.unpack(fmt, buffer)
            rec.unpacks.append((fmt, bytes(buffer), 0, res))
            return res

        sb = self

        class DbStub:
            name = "latest"
            features = {"dat": {}, "signing": {}}

            def get_bool(self, feature, key, default=None):
                return bool(sb.db.get(key, default if default is not None else False))

            def get_int(self, feature, key, default=None):
                return int(sb.db.get(key, default if default is not None else 0))

            def get_str(self, feature, key, default=None):
                return str(sb.db.get(key, default))

        def get_hash(data, algorithm="sha256"):
            return HB(algorithm if isinstance(algorithm, str) else "sha256", data)

        def extract_public_key(file_path=None, password=None, search_paths=None, **kw):
            return sb.keys[file_path]

        def value_to_int(v, default=None):
            return int(v, 0) if isinstance(v, str) else int(v)

        self.stubs = dict(
            pack=pack, unpack=unpack, unpack_from=unpack_from, calcsize=struct.calcsize, abc=abc, math=math, os=Dummy("os"),
            dataclass=dataclasses.dataclass, OrderedDict=collections.OrderedDict,
            SPSDKError=SPSDKError, SPSDKKeyError=SPSDKKeyError, SPSDKValueError=SPSDKValueError, SPSDKTypeError=SPSDKTypeError,
            SPSDKNotImplementedError=SPSDKNotImplementedError,
            Endianness=types.SimpleNamespace(LITTLE=types.SimpleNamespace(value="little"), BIG=types.SimpleNamespace(value="big")),
            EnumHashAlgorithm=_EnumHash, get_hash=get_hash, PublicKey=Key, PublicKeyRsa=KeyRsa, PublicKeyEcc=KeyEcc,
            extract_public_key=extract_public_key, value_to_int=value_to_int, get_db=lambda *a, **k: DbStub(),
            DatabaseManager=types.SimpleNamespace(DAT="dat", SIGNING="signing"), SRKTable=SrkTable,
            get_signature_provider=lambda *a, **k: Dummy("sp"))
        self.mods = {}

    def load(self, rel, extra=None):
        tree = _Strip().visit(ast.parse((REPO / rel).read_text(encoding="utf-8")))
        ast.fix_missing_locations(tree)
        ns = _NS(self.stubs)
        ns.update(extra or {})
        ns["__name__"] = "sandbox_" + rel.rsplit("/", 1)[-1][:-3]
        ns["__builtins__"] = builtins
        import sys
        sys.modules.setdefault(ns["__name__"], types.ModuleType(ns["__name__"]))   # dataclasses looks the module up
        exec(compile(tree, rel, "exec"), ns)  # noqa: S102  (source under verification, imports removed, no I/O names bound)
        self.mods[rel] = ns
        return ns


def attempt(meta, name, fn, default):
    try:
        return fn()
    except Exception as exc:  # noqa: BLE001  (any failure of a probe = opaque stand-in)
        meta.setdefault("probe_errors", {})[name] = f"{type(exc).__name__}: {exc}"[:300]
        return default


FLD = {"H": ".u16", "I": ".u32"}


def fmt_fields(fmt):
    """struct format -> [(code, size)] little endian only (else None)"""
    order, fields = struct_fields(fmt)
    if order != "<":
        return None
    out = []
    for c, n in fields:
        out.append((c, n if c == "s" else {"H": 2, "I": 4, "B": 1, "Q": 8}.get(c, 0)))
    return out


def lean_layout(entries):
    return "[" + ", ".join(f"({f}, {a})" for f, a in entries) + "]"


UNK = [(".unknown", ".unknown")]


def decompose(out, packs, raws, width_name, arg_name):
    """Walk the produced bytes: recorded pack outputs (in call order) and known raw byte strings.
    -> [(kind, code, size, value)] with kind 'pack' | 'raw'; None when something cannot be attributed."""
    res, pos, pi = [], 0, 0
    while pos < len(out):
        if pi < len(packs) and out.startswith(packs[pi][2], pos) and packs[pi][2]:
            fmt, args, data = packs[pi]
            ff = fmt_fields(fmt)
            if ff is None or len(ff) != len(args):
                return None
            for (c, n), a in zip(ff, args):
                res.append(("pack", c, n, a))
            pos += len(data)
            pi += 1
            continue
        hit = None
        for r in sorted(raws, key=len, reverse=True):
            if r and out.startswith(r, pos):
                hit = r
                break
        if hit is None:
            return None
        res.append(("raw", "s", len(hit), hit))
        pos += len(hit)
    return res


# ------------------------------------------------------------------------------------------------ probe values
def distinct(n, seed):
    """n non-zero bytes, different for different seeds"""
    return bytes(((i * 7 + seed * 29) % 251) + 1 for i in range(n))


INTS = {"socc": 0x11223344, "cc_socu": 0x55667788, "cc_vu": 0x99AABBCC, "cc_beacon": 0xDDEEFF01}
INT_ARG = {"socc": ".socc", "cc_socu": ".ccSocu", "cc_vu": ".ccVu", "cc_beacon": ".beacon"}


class RotMetaStub:
    def __init__(self, raw):
        self.raw = bytes(raw)

    def export(self):
        return self.raw

    def __len__(self):
        return len(self.raw)

    def calculate_hash(self):
        raise SPSDKError("stub")

    def __eq__(self, o):
        return hasattr(o, "export") and o.export() == self.raw


def mk_dc(ns, clsname, ver, rot_meta, rk, dk, sig, uuid=None):
    return ns[clsname](version=ns["ProtocolVersion"](ver), socc=INTS["socc"], uuid=uuid if uuid is not None else distinct(16, 1), rot_meta=rot_meta,
                       dck_pub=dk, cc_socu=INTS["cc_socu"], cc_vu=INTS["cc_vu"], cc_beacon=INTS["cc_beacon"], rot_pub=rk, signature=sig)


def versions_of(ns):
    out = []
    for v in ns["ProtocolVersion"].VERSIONS:
        m = re.fullmatch(r"(\d+)\.(\d+)", str(v))
        if m:
            out.append((int(m.group(1)), int(m.group(2))))
    return sorted(set(out))


def pack_layout(sb, ns, clsname, probes, method):
    """probes: [(ver, rot_meta, rk, dk, sig)] -> ([(code, [size per probe], [value per probe])], instances)"""
    cols = None
    for (ver, rm, rk, dk, sig) in probes:
        inst = mk_dc(ns, clsname, ver, rm, rk, dk, sig)
        sb.rec.clear()
        out = getattr(inst, method)()
        parts = decompose(out, list(sb.rec.packs), [], None, None)
        if parts is None:
            raise ValueError("output cannot be attributed to the recorded pack calls")
        if cols is None:
            cols = [(c, [n], [v]) for (_k, c, n, v) in parts]
        else:
            if len(parts) != len(cols) or any(p[1] != c[0] for p, c in zip(parts, cols)):
                raise ValueError("layout differs between probes")
            for (_k, _c, n, v), col in zip(parts, cols):
                col[1].append(n)
                col[2].append(v)
    return cols


def name_cols(cols, probes, ns, by_version):
    """[(code, sizes, values)] -> [(DatFld, DatArg)]; widths that follow the version only are collected in `by_version`"""
    pv = ns["ProtocolVersion"]
    majors = [pv(p[0]).major for p in probes]
    minors = [pv(p[0]).minor for p in probes]
    cand = {".lenRotMeta": [len(p[1].export()) for p in probes], ".rotCoord2": [2 * p[2].coordinate_size for p in probes],
            ".dckCoord2": [2 * p[3].coordinate_size for p in probes], ".lenDck": [len(p[3].raw) for p in probes],
            ".lenSig": [len(p[4]) for p in probes], ".lenRotPub": [len(p[2].raw) for p in probes]}
    out = []
    for code, sizes, values in cols:
        # argument
        arg = ".unknown"
        if code in ("H", "I"):
            if values == majors and values != minors:
                arg = ".major"
            elif values == minors and values != majors:
                arg = ".minor"
            else:
                for k, v in INTS.items():
                    if values == [v] * len(values):
                        arg = INT_ARG[k]
        elif code == "s":
            for a, vals in ((".uuid", [distinct(16, 1)] * len(probes)), (".rotMeta", [p[1].export() for p in probes]), (".rotPub", [p[2].raw for p in probes]),
                            (".dck", [p[3].raw for p in probes]), (".sig", [p[4] for p in probes])):
                if [bytes(v) for v in values] == [bytes(v) for v in vals]:
                    arg = a
        # field
        if code in FLD:
            fld = FLD[code]
        elif code == "s":
            w = None
            if len(set(sizes)) == 1 and all(c != sizes for c in cand.values()):
                w = f"(.fixed {sizes[0]})"
            else:
                hits = [k for k, c in cand.items() if c == sizes]
                # a width equal to the length of the field's own argument is named after that argument
                own = {".rotMeta": ".lenRotMeta", ".dck": ".lenDck", ".sig": ".lenSig", ".rotPub": ".lenRotPub"}.get(arg)
                if own in hits:
                    w = own
                elif len(hits) == 1:
                    w = hits[0]
                elif not hits:
                    by_version.setdefault(tuple(sizes), []).append(arg)
                    w = ("byver", tuple(sizes))
            fld = ("bytes", w)
        else:
            fld = ".unknown"
        out.append((fld, arg))
    return out


def finish_layout(named, rsa_key=None, rsa_sig=None):
    res = []
    for fld, arg in named:
        if isinstance(fld, tuple):
            w = fld[1]
            if isinstance(w, tuple):
                w = ".rsaKey" if w[1] == rsa_key else ".rsaSig" if w[1] == rsa_sig else ".unknown"
            fld = f"(.bytes {w or '.unknown'})"
        res.append((fld, arg))
    return res


# ------------------------------------------------------------------------------------------------ parse side
def parse_layout(sb, ns, clsname, insts, cand_fn, before=None):
    """insts: consistent credentials; the layout parse() reads, by offset -> [(DatFld, DatArg)]"""
    per = []
    for inst in insts:
        if before:
            before(inst)
        data = inst.export()
        sb.rec.clear()
        parsed = ns[clsname].parse(data)
        ent = {}
        for fmt, buf, off, res in sb.rec.unpacks:
            ff = fmt_fields(fmt)
            if ff is None or len(ff) != len(res):
                raise ValueError("unpack format not understood")
            if buf == data:
                base = 0
            else:
                base = data.find(buf)
                if base < 0 or data.find(buf, base + 1) >= 0:
                    raise ValueError("an unpacked slice cannot be located in the input")
            p = base + off
            for (c, n), v in zip(ff, res):
                ent.setdefault(p, (c, n, v))
                p += n
        offs = sorted(ent)
        rows, pos = [], 0
        for o in offs:
            c, n, v = ent[o]
            if o < pos:
                continue      # read twice (e.g. the version words): first reading counts
            if o > pos:
                rows.append(("gap", o - pos, data[pos:o]))
            rows.append((c, n, v))
            pos = o + n
        if pos < len(data):
            rows.append(("gap", len(data) - pos, data[pos:]))
        named = []
        for c, n, v in rows:
            args = set()
            if c == "gap":
                if pyeq(lambda: parsed.rot_meta.export() == v and inst.rot_meta.export() == v):
                    args.add(".rotMeta")
                named.append(("s", n, args))
                continue
            if c in ("H", "I"):
                for a, want, got in ((".major", inst.version.major, lambda: parsed.version.major), (".minor", inst.version.minor, lambda: parsed.version.minor),
                                     (".socc", inst.socc, lambda: parsed.socc), (".ccSocu", inst.cc_socu, lambda: parsed.cc_socu),
                                     (".ccVu", inst.cc_vu, lambda: parsed.cc_vu), (".beacon", inst.cc_beacon, lambda: parsed.cc_beacon)):
                    if v == want and pyeq(lambda g=got, w=want: g() == w):
                        args.add(a)
            elif c == "s":
                for a, want, got in ((".uuid", inst.uuid, lambda: parsed.uuid), (".dck", inst.dck_pub.raw, lambda: parsed.dck_pub.raw),
                                     (".rotPub", inst.rot_pub.raw, lambda: parsed.rot_pub.raw), (".sig", inst.signature, lambda: parsed.signature),
                                     (".rotMeta", inst.rot_meta.export(), lambda: parsed.rot_meta.export())):
                    if bytes(v) == bytes(want) and pyeq(lambda g=got, w=want: bytes(g()) == bytes(w)):
                        args.add(a)
            named.append((c, n, args))
        per.append(named)
    if any(len(p) != len(per[0]) or [x[0] for x in p] != [x[0] for x in per[0]] for p in per):
        raise ValueError("parse layout differs between probes")
    # an attribute is attributed to a position only if every probe agrees (distinguishes major / minor when one probe has them equal)
    for i in range(len(per[0])):
        common = set.intersection(*[p[i][2] for p in per])
        arg = common.pop() if len(common) == 1 else ".unknown"
        for p in per:
            p[i] = (p[i][0], p[i][1], arg)
    cand = cand_fn(insts)
    out = []
    for i, (c, _n, arg) in enumerate(per[0]):
        sizes = [p[i][1] for p in per]
        if c in FLD:
            out.append((FLD[c], arg))
        elif c == "s":
            if len(set(sizes)) == 1 and all(v != sizes for v in cand.values()):
                out.append((f"(.bytes (.fixed {sizes[0]}))", arg))
            else:
                hits = [k for k, v in cand.items() if v == sizes]
                if arg == ".rotMeta" and ".lenRotMeta" in hits:
                    hits = [".lenRotMeta"]
                out.append((f"(.bytes {hits[0] if len(hits) == 1 else '.unknown'})", arg))
        else:
            out.append((".unknown", arg))
    return out


def pyeq(f):
    try:
        return bool(f())
    except Exception:  # noqa: BLE001
        return False


# ------------------------------------------------------------------------------------------------ RotMeta probes
def probe_rotmeta_rsa(ns):
    R = ns["RotMetaRSA"]
    size = len(R([]).export())
    data = distinct(size, 3)
    items = R.parse(data).rot_items
    count = len(items)
    widths = {len(i) for i in items}
    item = widths.pop() if len(widths) == 1 else 0
    if item and (b"".join(items) != data[:count * item] or R(items).export() != data[:count * item] + bytes(size - count * item)):
        item = 0
    # all-zero items are dropped, the others keep their order
    if item and count >= 2:
        z = data[:item] + bytes(item) + data[2 * item:]
        if R.parse(z).rot_items != [i for k, i in enumerate(items) if k != 1]:
            item = 0
    min_len = None
    for n in range(0, size + 65):
        try:
            R.parse(distinct(n, 5))
            min_len = n
            break
        except SPSDKError:
            continue
    return size, count, item, min_len if min_len is not None else 0


def probe_rsa_max_keys(sb, ns):
    R = ns["RotMetaRSA"]
    best = 0
    for n in range(1, 10):
        sb.keys = {f"k{i}": KeyRsa(distinct(259, i)) for i in range(n)}
        try:
            R.load_from_config({"rot_meta": [f"k{i}" for i in range(n)], "rot_id": 0})
            best = n
        except SPSDKError:
            break
    return best


def probe_flags(ns):
    F = ns["RotMetaFlags"]
    exp, ctor, lens = [], [], set()
    for u in range(16):
        for c in range(16):
            try:
                b = F(u, c).export()
            except SPSDKError:
                continue
            ctor.append((u, c))
            lens.add(len(b))
            exp.append(((u, c), int.from_bytes(b, "little")))
    n = lens.pop() if len(lens) == 1 else 0
    for bad in (n - 1, n + 1):
        try:
            F.parse(bytes([0x80] * max(bad, 0)))
            n = 0
        except SPSDKError:
            pass
    words = []
    valid = [w for _, w in exp]
    for u in range(16):
        for c in range(16):
            w = (u << 8) | (c << 4)
            words += [w | (1 << 31), w]
    for w in valid:
        for bit in list(range(0, 4)) + list(range(12, 31)):
            words.append(w | (1 << bit))
    x = 0x9E3779B9
    for _ in range(300):
        x = (x * 1103515245 + 12345) & 0xFFFFFFFF
        words.append(x)
        words.append(x | (1 << 31))
    res, seen = [], set()
    for w in words:
        if w in seen:
            continue
        seen.add(w)
        try:
            f = F.parse(w.to_bytes(n or 4, "little"))
            res.append((w, (f.used_root_cert, f.cnt_root_cert)))
        except SPSDKError:
            res.append((w, None))
    return {"export": exp, "ctor": ctor, "len": n, "parse": res}


def probe_ecc_item_width(ns, hash_tbl):
    F, E = ns["RotMetaFlags"], ns["RotMetaEcc"]
    out = {}
    for coord in sorted(hash_tbl or {}):
        sub = E._get_subclass(coord)
        data = F(1, 3).export() + distinct(400, coord)
        items = sub.parse(data).rot_items
        ws = {len(i) for i in items}
        if len(items) == 3 and len(ws) == 1 and b"".join(items) == data[len(F(1, 3).export()):][:3 * len(items[0])]:
            w = ws.pop()
            one = sub.parse(F(0, 1).export() + distinct(200, 9))
            if one.rot_items == [] and sub(F(1, 3), items).export() == data[:len(F(1, 3).export()) + 3 * w]:
                out[coord] = w
    return out


def _hash_code(f):
    try:
        h = f()
        return int(h.alg[3:]) if isinstance(h, HB) else 1
    except SPSDKError:
        return 0
    except Exception:  # noqa: BLE001
        return 1


def probe_ecc_table_hash(ns):
    F, E = ns["RotMetaFlags"], ns["RotMetaEcc"]
    out = {}
    for w in (16, 20, 32, 48, 64, 66):
        codes = set()
        for cnt in (2, 3, 4):
            rm = E(F(0, cnt), [distinct(w, 10 + i) for i in range(cnt)])
            codes.add(_hash_code(rm.calculate_hash))
            if codes and max(codes) > 1:
                h = rm.calculate_hash()
                if h.data != b"".join(rm.rot_items):
                    codes.add(1)
        out[w] = codes.pop() if len(codes) == 1 else 1
    return out


def probe_single_key_hash(ns, coord_tbl):
    klass = ns["DebugCredentialCertificateEcc"]
    out = {}
    bits_of = {32: 256, 48: 384, 66: 521, 24: 192}
    for coord in sorted(set((coord_tbl or {}).values()) | {24}):
        rk = KeyEcc(distinct(2 * coord, 11), key_size=bits_of.get(coord, coord * 8), coordinate_size=coord)
        inst = mk_dc(ns, "DebugCredentialCertificateEcc", "2.0", RotMetaStub(b"\x10\x01\x00\x80"), rk, rk, distinct(2 * coord, 12))
        code = _hash_code(inst.calculate_hash)
        if code > 1 and inst.calculate_hash().data != rk.raw:
            code = 1
        out[coord] = code
    del klass
    return out


# ------------------------------------------------------------------------------------------------ creation
KINDS = [(0, 2048), (0, 4096), (1, 256), (1, 384), (1, 521)]


def _key_of(kind, bits, seed):
    if kind == 0:
        return KeyRsa(distinct(bits // 8 + 3, seed), key_size=bits)
    c = (bits + 7) // 8
    return KeyEcc(distinct(2 * c, seed), key_size=bits, coordinate_size=c)


def probe_create(sb, ns):
    D = ns["DebugCredentialCertificate"]
    pv = ns["ProtocolVersion"]
    names = {"DebugCredentialCertificateRsa": 0, "DebugCredentialCertificateEcc": 1, "DebugCredentialEdgeLockEnclave": 2}
    out = []
    for ele in (False, True):
        sb.db = {"socc": 0x4D58005E if ele else 4, "based_on_ele": ele, "ele_cnt_version": 1, "pss_padding": False}
        for rk, rb in KINDS:
            for dk, dbits in KINDS:
                for ver in [None] + [f"{a}.{b}" for a, b in versions_of(ns)]:
                    for ul in (0, 15, 16, 17):
                        n = 4 if ele else 2
                        sb.keys = {f"rot{i}": _key_of(rk, rb, 20 + i) for i in range(n)}
                        sb.keys["dck"] = _key_of(dk, dbits, 30)
                        cfg = {"family": "fam", "uuid": "ab" * ul, "cc_socu": 1, "cc_vu": 2, "cc_beacon": 3, "rot_meta": [f"rot{i}" for i in range(n)], "rot_id": 1,
                               "rotk": "rot1", "dck": "dck"}
                        try:
                            v = pv(ver) if ver else pv.from_public_key(sb.keys["rot1"])
                            cls = names.get(D._get_class("fam", v).__name__)
                        except Exception:  # noqa: BLE001
                            continue
                        if cls is None:
                            continue
                        try:
                            d = D.create_from_yaml_config(dict(cfg), version=pv(ver) if ver else None)
                            res = 0 if names.get(type(d).__name__) == cls else 2
                        except SPSDKError:
                            res = 1
                        except Exception:  # noqa: BLE001
                            res = 2
                        row = [cls, v.major, v.minor, ul, rk, rb, dk, dbits, res]
                        if row not in out:
                            out.append(row)
    sb.db = {}
    return sorted(out)


# ------------------------------------------------------------------------------------------------ challenge
DAC_INTS = {"socc": 0x11223344, "rotid_rkh_revocation": 0x0A0B0C0D, "cc_soc_pinned": 0x21222324, "cc_soc_default": 0x31323334, "cc_vu": 0x41424344}
DAC_ARG = {"socc": ".socc", "rotid_rkh_revocation": ".revocation", "cc_soc_pinned": ".socPinned", "cc_soc_default": ".socDefault", "cc_vu": ".ccVu",
           "uuid": ".uuid", "rotid_rkth_hash": ".rkthHash", "challenge": ".challenge"}


def probe_dac(sb, ns):
    class DcStub:
        @staticmethod
        def get_family_ambassador(socc):
            return "fam"

        @staticmethod
        def dat_based_on_ele(family):
            return bool(sb.db.get("based_on_ele", False))
    dn = sb.load(DAC, {"DebugCredentialCertificate": DcStub, "ProtocolVersion": ns["ProtocolVersion"]})
    A = dn["DebugAuthenticationChallenge"]
    pv = ns["ProtocolVersion"]
    # hash width table
    tbl = []
    for e in (False, True):
        for s_ in (False, True):
            sb.db = {"based_on_ele": e, "dat_is_using_sha256_always": s_}
            for a in range(4):
                for b in range(4):
                    tbl.append(((e, s_, a, b), int(A.get_rot_hash_length("fam", a, b))))
    sb.db = {}

    def mk(ver, ul, hl, cl, seed):
        return A(version=pv(ver), uuid=distinct(ul, seed), rotid_rkth_hash=distinct(hl, seed + 1), challenge=distinct(cl, seed + 2), **DAC_INTS)
    # export: two probes with different lengths of the byte strings (raw concatenation vs fixed struct field)
    cols = None
    insts = [mk("2.1", 16, 48, 32, 1), mk("2.2", 10, 20, 30, 5)]
    for inst in insts:
        sb.rec.clear()
        outb = inst.export()
        parts = decompose(outb, list(sb.rec.packs), [inst.uuid, inst.rotid_rkth_hash, inst.challenge], None, None)
        if parts is None:
            raise ValueError("DAC export cannot be attributed")
        if cols is None:
            cols = [(k, c, [n], [v]) for k, c, n, v in parts]
        else:
            if len(parts) != len(cols):
                raise ValueError("DAC export layout differs between probes")
            for (k, c, n, v), col in zip(parts, cols):
                col[2].append(n)
                col[3].append(v)
    exp = []
    for k, c, sizes, values in cols:
        arg = ".unknown"
        if c in ("H", "I"):
            if values == [i.version.major for i in insts] and values != [i.version.minor for i in insts]:
                arg = ".major"
            elif values == [i.version.minor for i in insts]:
                arg = ".minor"
            for nm, v in DAC_INTS.items():
                if values == [v] * 2:
                    arg = DAC_ARG[nm]
            exp.append((FLD.get(c, ".unknown"), arg))
        else:
            for nm in ("uuid", "rotid_rkth_hash", "challenge"):
                if [bytes(v) for v in values] == [getattr(i, nm) for i in insts]:
                    arg = DAC_ARG[nm]
            own = [len(v) for v in values]
            exp.append((".raw" if sizes == own and k == "raw" or (sizes == own and len(set(sizes)) > 1) else f"(.bytes (.fixed {sizes[0]}))" if len(set(sizes)) == 1 else ".unknown", arg))
    # parse: consistent challenges for two versions with different hash widths
    def hl_of(a, b):
        return dict(tbl)[(False, False, a, b)]
    pins = [mk("2.1", 16, hl_of(2, 1), 32, 11), mk("2.2", 16, hl_of(2, 2), 32, 15)]
    per = []
    for inst in pins:
        data = inst.export()
        sb.rec.clear()
        p = A.parse(data)
        ent = {}
        for fmt, buf, off, res in sb.rec.unpacks:
            ff = fmt_fields(fmt)
            base = 0 if buf == data else data.find(buf)
            if ff is None or base < 0:
                raise ValueError("DAC unpack not understood")
            q = base + off
            for (c, n), v in zip(ff, res):
                ent.setdefault(q, (c, n, v))
                q += n
        rows, pos = [], 0
        for o in sorted(ent):
            if o != pos:
                raise ValueError("DAC parse does not read contiguously")
            c, n, v = ent[o]
            args = set()
            if c in ("H", "I"):
                for a, want, got in ((".major", inst.version.major, p.version.major), (".minor", inst.version.minor, p.version.minor)):
                    if v == want == got:
                        args.add(a)
                for nm, want in DAC_INTS.items():
                    if v == want == getattr(p, nm):
                        args.add(DAC_ARG[nm])
            else:
                for nm in ("uuid", "rotid_rkth_hash", "challenge"):
                    if bytes(v) == getattr(inst, nm) == getattr(p, nm):
                        args.add(DAC_ARG[nm])
            rows.append((c, n, args))
            pos = o + n
        if pos != len(data):
            raise ValueError("DAC parse does not consume the challenge")
        per.append(rows)
    layout = []
    for i in range(len(per[0])):
        common = set.intersection(*[p[i][2] for p in per])
        arg = common.pop() if len(common) == 1 else ".unknown"
        c = per[0][i][0]
        sizes = [p[i][1] for p in per]
        if c in FLD:
            layout.append((FLD[c], arg))
        elif len(set(sizes)) == 1:
            layout.append((f"(.bytes (.fixed {sizes[0]}))", arg))
        elif sizes == [hl_of(2, 1), hl_of(2, 2)]:
            layout.append(("(.bytes .hashLength)", arg))
        else:
            layout.append(("(.bytes .unknown)", arg))
    # swapped version words: words (1, 2) on the wire -> version 2.1, hash width taken for (major 1, minor 2)
    sb.db = {"dac_version_is_swapped": True}
    swap = False
    try:
        w = hl_of(1, 2)
        data = struct.pack("<2HL16sL", 1, 2, 7, distinct(16, 1), 9) + distinct(w, 2) + struct.pack("<3L", 1, 2, 3) + distinct(32, 3)
        p = A.parse(data)
        swap = (p.version.major, p.version.minor) == (2, 1) and p.challenge == distinct(32, 3) and p.rotid_rkth_hash == distinct(w, 2)
    except Exception:  # noqa: BLE001
        swap = False
    sb.db = {}
    return {"export": exp, "parse": layout, "hash": tbl, "swap": swap}


# ------------------------------------------------------------------------------------------------ response
def probe_dar(sb, ns):
    rn = sb.load(DAR, {"DebugCredentialCertificate": ns["DebugCredentialCertificate"], "ProtocolVersion": ns["ProtocolVersion"],
                       "DebugCredentialEdgeLockEnclaveV2": ns["DebugCredentialEdgeLockEnclaveV2"]})
    vm = rn["_version_mapping"]
    DCM, SIG = b"<<credential-bytes>>", b"<<signature>>"
    BEACON = 0xA1B2C3D4
    res = {}
    for ver, klass in vm.items():
        m = re.fullmatch(r"(\d+)\.(\d+)", str(ver))
        if not m:
            continue
        shapes = []
        for ul, seed in ((16, 1), (10, 5)):
            dac = types.SimpleNamespace(uuid=distinct(ul, seed), challenge=distinct(32, seed + 1), version=None, socc=0)
            cred = types.SimpleNamespace(export=lambda: DCM, uuid=distinct(16, 40), version=None, socc=0)
            signed = []
            sp = types.SimpleNamespace(sign=lambda d, s=signed: (s.append(bytes(d)), SIG)[1])
            inst = object.__new__(klass)
            inst.debug_credential, inst.auth_beacon, inst.dac, inst.sign_provider, inst.family, inst.revision = cred, BEACON, dac, sp, "fam", "latest"
            sb.rec.clear()
            common = inst._get_common_data()
            parts = decompose(common, list(sb.rec.packs), [DCM, dac.uuid, cred.uuid, dac.challenge], None, None)
            if parts is None:
                raise ValueError("common data cannot be attributed")
            lay = []
            for k, c, n, v in parts:
                if c in ("H", "I"):
                    lay.append((FLD[c], ".authBeacon" if v == BEACON else ".unknown", n))
                else:
                    arg = ".dcExport" if v == DCM else ".dacUuid" if bytes(v) == dac.uuid else ".unknown"
                    lay.append(("raw" if k == "raw" else "s", arg, n))
            msg = inst._get_data_for_signature()
            exp = inst.export()
            ok_msg = msg == common + dac.challenge
            ok_exp = exp == common + SIG and signed and signed[-1] == msg
            shapes.append((lay, ok_msg, ok_exp))
        lay = []
        for a, b in zip(shapes[0][0], shapes[1][0]):
            if a[0] == "raw" or a[0] in (".u16", ".u32"):
                lay.append((".raw" if a[0] == "raw" else a[0], a[1] if a[1] == b[1] else ".unknown"))
            else:
                lay.append((f"(.bytes (.fixed {a[2]}))" if a[2] == b[2] else ".raw" if (a[2], b[2]) == (16, 10) else ".unknown", a[1] if a[1] == b[1] else ".unknown"))
        if len(shapes[0][0]) != len(shapes[1][0]):
            lay = UNK
        res[(int(m.group(1)), int(m.group(2)))] = (lay, all(s[1] for s in shapes), all(s[2] for s in shapes))
    rsa = [v for k, v in sorted(res.items()) if k[0] == 1]
    ecc = [v for k, v in sorted(res.items()) if k[0] == 2]
    base = rsa[0][0] if rsa else UNK
    eccl = ecc[0][0] if ecc else UNK
    uses = [(k, v[0] == eccl and v[0] != base) for k, v in sorted(res.items())]
    uniform = all(v[0] in (base, eccl) for v in res.values()) and all(v[0] == base for v in rsa) and all(v[0] == eccl for v in ecc)
    sign = [(".raw", ".skip"), (".raw", ".dacChallenge")] if res and all(v[1] for v in res.values()) else UNK
    export = [(".raw", ".skip"), (".raw", ".signature")] if res and all(v[2] for v in res.values()) else UNK
    return {"base": base, "ecc": eccl, "sign": sign, "export": export, "uses": uses, "uniform": uniform}


# ------------------------------------------------------------------------------------------------ database
def deep_update(d, u):
    for k, v in u.items():
        if isinstance(v, dict):
            d[k] = deep_update(d.get(k, {}), v)
        else:
            d[k] = v
    return d


class Db:
    """Replica of spsdk/utils/database.py Device.load / _load_alias restricted to the features in `keep`."""

    def __init__(self, keep):
        self.keep = keep
        self.root = REPO / "spsdk" / "data"
        self.defaults = yaml.safe_load((self.root / "common" / "database_defaults.yaml").read_text(encoding="utf-8"))
        self.cache = {}

    def names(self):
        return sorted(p.name for p in (self.root / "devices").iterdir() if (p / "database.yaml").exists())

    def _restrict(self, feats):
        return {k: v for k, v in (feats or {}).items() if k in self.keep}

    def load(self, name):
        if name in self.cache:
            return self.cache[name]
        cfg = yaml.safe_load((self.root / "devices" / name / "database.yaml").read_text(encoding="utf-8"))
        if cfg.get("alias"):
            base = self.load(cfg["alias"])
            dev = {"latest": cfg.get("latest", base["latest"]),
                   "revs": [{"name": r["name"], "is_latest": r["is_latest"], "features": copy.deepcopy(r["features"])} for r in base["revs"]]}
            feats = self._restrict(cfg.get("features", {}))
            if feats:
                for r in dev["revs"]:
                    deep_update(r["features"], copy.deepcopy(feats))
            for rev_name, upd in (cfg.get("revisions") or {}).items():
                upd = upd or {}
                rev = next((r for r in dev["revs"] if r["name"] == rev_name), None)
                if rev is None:
                    alias_rev = upd.get("alias")
                    if not alias_rev:
                        raise ValueError(f"{name}: new revision {rev_name} without alias")
                    src = next(r for r in dev["revs"] if (r["is_latest"] if alias_rev == "latest" else r["name"] == alias_rev))
                    rev = {"name": rev_name, "is_latest": dev["latest"] == rev_name, "features": copy.deepcopy(src["features"])}
                    dev["revs"].append(rev)
                rf = self._restrict(upd.get("features"))
                if rf:
                    deep_update(rev["features"], copy.deepcopy(rf))
        else:
            dev_features = self._restrict(cfg["features"])
            defaults = copy.deepcopy(self._restrict(self.defaults["features"]))
            for fname in dev_features:
                deep_update(defaults[fname], dev_features[fname])
                dev_features[fname] = defaults[fname]
            latest = cfg["latest"]
            dev = {"latest": latest, "revs": []}
            for rev_name, upd in cfg["revisions"].items():
                feats = copy.deepcopy(dev_features)
                rf = self._restrict((upd or {}).get("features"))
                if rf:
                    deep_update(feats, copy.deepcopy(rf))
                dev["revs"].append({"name": rev_name, "is_latest": rev_name == latest, "features": feats})
        self.cache[name] = dev
        return dev


def _to_int(v):
    if isinstance(v, bool):
        return int(v)
    if isinstance(v, int):
        return v
    if isinstance(v, str):
        return int(v.replace("_", ""), 0)
    raise ValueError(v)


def db_rows(meta):
    rows = []
    try:
        db = Db({"dat", "signing"})
        for name in db.names():
            try:
                dev = db.load(name)
            except Exception as exc:  # noqa: BLE001  (a broken device file must not stop the other rows)
                meta.setdefault("db_errors", []).append(f"{name}: {type(exc).__name__}: {exc}")
                continue
            revs = [(r["name"], r) for r in dev["revs"]]
            latest = next((r for r in dev["revs"] if r["is_latest"]), None)
            if latest is not None:
                revs.append(("latest", latest))
            for rev_name, r in revs:
                dat = r["features"].get("dat")
                if dat is None:
                    continue
                sg = r["features"].get("signing") or {}
                rows.append((name, rev_name, _to_int(dat.get("socc", 0)), bool(dat.get("based_on_ele", False)),
                             _to_int(dat.get("ele_cnt_version", 1)), bool(dat.get("dat_is_using_sha256_always", False)),
                             bool(dat.get("rot_not_part_of_dac", False)), bool(dat.get("rot_could_be_invalid", False)),
                             bool(dat.get("dac_version_is_swapped", False)), bool(sg.get("pss_padding", False))))
    except Exception as exc:  # noqa: BLE001
        meta.setdefault("db_errors", []).append(f"{type(exc).__name__}: {exc}")
    rows.sort(key=lambda t: (t[0], t[1]))
    return rows


def _b(x):
    return "true" if x else "false"


# ------------------------------------------------------------------------------------------------ EdgeLock v2
def probe_cert(sb):
    """AhabCertificate by value: the three field tables (signed data / export / parse) as [(code, role)]"""
    denv = ModuleEnv(parse("spsdk/image/ahab/ahab_data.py"))
    consts = {}
    for k in ("LITTLE_ENDIAN", "UINT8", "UINT16", "UINT32", "UINT64", "RESERVED"):
        consts[k] = denv.value(k)

    class _Tags:
        def __getattr__(self, a):
            return types.SimpleNamespace(tag=0xA7, label=a)

    class Blob:
        """opaque self-delimiting sub-container: 2-byte length + body"""
        def __init__(self, raw=b"", **kw):
            self.raw = bytes(raw)
            self.signature_data = kw.get("signature_data", b"")
            self.srk_data = None
        def export(self):
            return self.raw
        def __len__(self):
            return len(self.raw)
        @classmethod
        def parse(cls, data, *a, **k):
            n = struct.unpack_from("<H", data, 0)[0]
            return cls(data[:n])
        def update_fields(self):
            pass
        def sign(self, data):
            pass
        def __eq__(self, o):
            return isinstance(o, Blob) and o.raw == self.raw
        def __bool__(self):
            return True

    def blob(n, seed):
        return Blob(struct.pack("<H", n + 2) + distinct(n, seed))

    def extend_block(data, length, padding=0):
        if len(data) > length:
            raise SPSDKError("extend_block: data longer than the block")
        return bytes(data) + bytes([padding]) * (length - len(data))

    class BaseClass:
        pass

    extra = dict(consts, BaseClass=BaseClass, AHABTags=_Tags(), extend_block=extend_block, SPSDKParsingError=SPSDKError, SPSDKLengthError=SPSDKError,
                 ContainerSignature=Blob, SRKData=Blob, SRKRecordV2=Blob, Optional=Dummy("Optional"), Union=Dummy("Union"), FlagsSrkSet=Dummy("FlagsSrkSet"), Any=Dummy("Any"))
    ai = sb.load("spsdk/image/ahab/ahab_abstract_interfaces.py", extra)
    extra2 = dict(extra, HeaderContainer=ai["HeaderContainer"], HeaderContainerData=ai["HeaderContainerData"])
    ns = sb.load(CERT, extra2)
    C = ns["AhabCertificate"]
    probes = []
    inv_checked = []
    for k in range(2):
        perm, fuse = 0x2B + 0x11 * k, 0x5C + 7 * k
        pd, uu = distinct(C.PERMISSION_DATA_SIZE, 90 + k), distinct(C.UUID_SIZE, 92 + k)
        rec, dat, sig = blob(30 + 8 * k, 94 + k), blob(70 + 12 * k, 96 + k), blob(64 + 32 * k, 98 + k)
        rec.srk_data = dat
        c = C(permissions=perm, permissions_data=pd, fuse_version=fuse, uuid=uu, public_key_0=rec)
        c.signature_0 = sig
        fixed = C.fixed_length()
        c.signature_offset = fixed + len(rec) + len(dat)
        c.length = c.signature_offset + len(sig)
        want = {"version": c.version, "length": c.length, "tag": c.tag, "signature_offset": c.signature_offset, "~permissions": ~perm & 0xFF,
                "permissions": perm, "permission_data": pd, "fuse_version": fuse, "uuid": uu, "key0.record": rec.raw, "key0.data": dat.raw,
                "signature0": sig.raw}
        res = {}
        for meth in ("get_signature_data", "export"):
            sb.rec.clear()
            out = getattr(c, meth)()
            parts = decompose(out, list(sb.rec.packs), [rec.raw, dat.raw, sig.raw], None, None)
            if parts is None:
                raise ValueError("certificate bytes cannot be attributed")
            row = []
            for kind, code, n, v in parts:
                names = [nm for nm, w in want.items() if (bytes(w) == bytes(v) if isinstance(v, (bytes, bytearray)) else (not isinstance(w, bytes) and w == v))]
                if not names and v == consts["RESERVED"]:
                    names = ["reserved"]
                fc = "raw" if kind == "raw" else (f"{n}s" if code == "s" else code)
                row.append((fc, names))
            res[meth] = row
        data = c.export()
        sb.rec.clear()
        p = C.parse(data + distinct(5, 7))
        got = {"length": p.length, "signature_offset": p.signature_offset, "permissions": p._permissions, "permission_data": p.permission_data,
               "fuse_version": p.fuse_version, "uuid": p._uuid}
        # the unpack of the fixed part: the recorded call whose buffer is the first `fixed` bytes
        row = None
        for fmt, buf, off, vals in sb.rec.unpacks:
            ff = fmt_fields(fmt)
            if ff and buf == data[:fixed] and off == 0 and len(ff) == len(vals) and len(ff) > 3:
                row = []
                ff_fixed = ff
                for (code, n), v in zip(ff, vals):
                    fc = f"{n}s" if code == "s" else code
                    names = [nm for nm in got if nm in want and ((bytes(v) == bytes(want[nm]) and bytes(got[nm]) == bytes(v)) if isinstance(v, (bytes, bytearray))
                             else (not isinstance(want[nm], bytes) and v == want[nm] and got[nm] == v))]
                    row.append((fc, names))
        if row is None:
            raise ValueError("no unpack of the fixed part seen")
        # the inverted-permissions byte is checked: a credential whose byte is off by one bit is refused, the untouched one is not
        ipos = sum(n for (_c, n) in ff_fixed[:[i for i, (_fc, nm) in enumerate(res["export"]) if "~permissions" in nm][0]]) if any(
            "~permissions" in nm for _fc, nm in res["export"]) else None
        if ipos is not None:
            bad = bytearray(data)
            bad[ipos] ^= 0x10
            try:
                C.parse(bytes(bad))
                inv_checked.append(False)
            except SPSDKError:
                inv_checked.append(True)
        else:
            inv_checked.append(False)
        tail = []
        if p.public_key_0 == rec: tail.append(("raw", ["key0.record"]))
        if p.public_key_0.srk_data == dat: tail.append(("raw", ["key0.data"]))
        if p.signature_0 == sig: tail.append(("raw", ["signature0"]))
        res["parse"] = row + tail
        probes.append(res)
    out = {}
    for meth in ("get_signature_data", "export", "parse"):
        rows = [p[meth] for p in probes]
        if any(len(r) != len(rows[0]) or [x[0] for x in r] != [x[0] for x in rows[0]] for r in rows):
            raise ValueError("layout differs between probes")
        fin = []
        for i, (fc, _) in enumerate(rows[0]):
            common = set.intersection(*[set(r[i][1]) for r in rows])
            fin.append((fc, common.pop() if len(common) == 1 else ("_" if meth == "parse" and not common else "?")))
        out[meth] = fin
    out["inv_checked"] = bool(inv_checked) and all(inv_checked)
    return out


def probe_dat_msg(sb):
    """MessageDat (payload of the EdgeLock v2 response) by value: export_payload() / parse_payload() field tables, payload length"""
    denv = ModuleEnv(parse("spsdk/image/ahab/ahab_data.py"))
    consts = {k: denv.value(k) for k in ("LITTLE_ENDIAN", "UINT8", "UINT16", "UINT32", "UINT64", "RESERVED")}

    class BaseClass:
        pass

    class _EM(type):
        def __new__(m, name, bases, d):
            for k, v in list(d.items()):
                if isinstance(v, tuple) and v and isinstance(v[0], int) and not k.startswith("_"):
                    d[k] = types.SimpleNamespace(tag=v[0], label=v[1] if len(v) > 1 else k)
            return super().__new__(m, name, bases, d)

    class SpsdkEnum(metaclass=_EM):
        @classmethod
        def from_label(cls, label):
            for v in vars(cls).values():
                if isinstance(v, types.SimpleNamespace) and v.label == label:
                    return v.tag
            raise SPSDKError("label")

        @classmethod
        def get_label(cls, tag):
            for v in vars(cls).values():
                if isinstance(v, types.SimpleNamespace) and v.tag == tag:
                    return v.label
            raise SPSDKError("tag")

    extra = dict(consts, BaseClass=BaseClass, SPSDKParsingError=SPSDKError, SPSDKLengthError=SPSDKError, SpsdkEnum=SpsdkEnum, SpsdkSoftEnum=SpsdkEnum,
                 abstractmethod=(lambda f: f))
    rel = "spsdk/image/ahab/signed_msg.py"
    # names looked up inside class bodies do not go through the permissive namespace: pre-seed every free name with a dummy
    for rel_ in ("spsdk/image/ahab/ahab_abstract_interfaces.py", rel):
        for n in ast.walk(ast.parse((REPO / rel_).read_text(encoding="utf-8"))):
            if isinstance(n, ast.Name) and n.id not in extra and n.id not in sb.stubs and not hasattr(builtins, n.id):
                extra[n.id] = Dummy(n.id)
    ai = sb.load("spsdk/image/ahab/ahab_abstract_interfaces.py", extra)
    extra = dict(extra, Container=ai["Container"], HeaderContainer=ai["HeaderContainer"], HeaderContainerData=ai["HeaderContainerData"])
    M = sb.load(rel, extra)["MessageDat"]
    exp_rows, par_rows, lens = [], [], []
    for k in range(2):
        ch, bc = distinct(32, 3 + k), 0xA1B2 + 0x1111 * k
        out = M(issue_date=0x1234, challenge_vector=ch + b"\xEE" * (8 * k), authentication_beacon=bc).export_payload()
        lens.append(len(out))
        pos = out.find(ch)
        if pos < 0:
            raise ValueError("challenge vector not found in the payload")
        row = []
        for seg, what in ((out[:pos], "b"), (ch, "c"), (out[pos + 32:], "b")):
            if not seg:
                continue
            if what == "c":
                row.append(("(.bytes (.fixed 32))", ".dacChallenge"))
            elif seg == bc.to_bytes(len(seg), "little") and len(seg) in (2, 4):
                row.append((".u16" if len(seg) == 2 else ".u32", ".authBeacon"))
            else:
                row.append((".unknown", ".unknown"))
        exp_rows.append(row)
        data = distinct(48, 11 + k)
        m2 = M(issue_date=0x1234)
        m2.parse_payload(data)
        cpos = data.find(bytes(m2.challenge_vector)) if len(m2.challenge_vector) == 32 else -1
        hits = [(w, data.find(m2.authentication_beacon.to_bytes(w, "little"))) for w in (4, 2) if m2.authentication_beacon < 256 ** w]
        hits = [(w, p) for w, p in hits if p >= 0 and (w == 4 or m2.authentication_beacon >= 256)]
        if cpos < 0 or not hits:
            par_rows.append([(".unknown", ".unknown")])
            continue
        w, bpos = hits[0]
        items = sorted([(cpos, 32, ("(.bytes (.fixed 32))", ".dacChallenge")), (bpos, w, (".u16" if w == 2 else ".u32", ".authBeacon"))])
        ok = items[0][0] == 0 and items[1][0] == items[0][1]
        par_rows.append([it[2] for it in items] if ok else [(".unknown", ".unknown")])
    if exp_rows[0] != exp_rows[1] or par_rows[0] != par_rows[1] or lens[0] != lens[1]:
        raise ValueError("payload layout differs between probes")
    return {"export": exp_rows[0], "parse": par_rows[0], "len": lens[0]}


def v2_section(sb, ns, out, meta):
    """What the model of the v2 credential depends on (the byte widths come from C06's Generated/AhabConsts.certificateLayout)."""
    try:
        ctree = parse(CERT)
    except (OSError, SyntaxError) as exc:
        ctree = None
        meta.setdefault("errors", []).append(f"{CERT}: {exc}")
    # the same three sites BY VALUE (sandboxed AhabCertificate run on distinctive values): (struct code, role) per field, in byte order
    unk = [("?", "?")]
    cv = attempt(meta, "AHAB certificate by value", lambda: probe_cert(sb), {"get_signature_data": unk, "export": unk, "parse": unk, "inv_checked": False})

    roles = {"version": ".version", "length": ".length", "tag": ".tag", "signature_offset": ".sigOffset", "~permissions": ".invPerm", "permissions": ".perm",
             "permission_data": ".permData", "fuse_version": ".fuse", "reserved": ".reserved", "uuid": ".uuid", "key0.record": ".keyRecord",
             "key0.data": ".keyData", "signature0": ".sig0", "_": ".dropped"}

    def _cw(c):
        m = re.fullmatch(r"(\d+)s", c)
        return f"(.bytes {m.group(1)})" if m else {"B": ".u8", "H": ".u16", "raw": ".raw"}.get(c, ".unknown")

    def _sf(rows):
        return "[" + ", ".join(f"({_cw(a)}, {roles.get(b, '.unknown')})" for a, b in rows) + "]"
    out.append(f"def certSignFields : List (CertW × CertRole) := {_sf(cv['get_signature_data'])}  -- AhabCertificate.get_signature_data(), probed: what is written where")
    out.append(f"def certExportFields : List (CertW × CertRole) := {_sf(cv['export'])}  -- AhabCertificate.export(), probed")
    out.append(f"def certParseFields : List (CertW × CertRole) := {_sf(cv['parse'])}  -- AhabCertificate.parse(export()), probed: the attribute each position ends up in (_ = dropped / only checked)")
    out.append(f"def certInvChecked : Bool := {_b(cv['inv_checked'])}  -- parse() refuses a certificate whose inverted-permissions byte does not match (probed)")
    dm = attempt(meta, "MessageDat by value", lambda: probe_dat_msg(sb), {"export": UNK, "parse": UNK, "len": 0})
    out.append(f"def datMsgExport : List (DatFld × DatArg) := {lean_layout(dm['export'])}  -- MessageDat.export_payload() (payload of the EdgeLock v2 response), probed")
    out.append(f"def datMsgParse : List (DatFld × DatArg) := {lean_layout(dm['parse'])}  -- MessageDat.parse_payload(), probed by offset")
    out.append(f"def datMsgPayloadLen : Nat := {dm['len']}  -- len(export_payload()), also for an over-long challenge vector")
    cenv = ModuleEnv(ctree) if ctree else None

    def _class_const(_c, k):
        try:
            return cenv.cls("AhabCertificate").value(k)
        except (NotConst, AttributeError):
            return None
    consts = {k: _class_const(None, k) for k in ("PERMISSION_DATA_SIZE", "UUID_SIZE")}
    out.append(f"def certPermDataSize : Nat := {consts['PERMISSION_DATA_SIZE'] if isinstance(consts['PERMISSION_DATA_SIZE'], int) else 0}")
    out.append(f"def certUuidSize : Nat := {consts['UUID_SIZE'] if isinstance(consts['UUID_SIZE'], int) else 0}")
    perm_oem = _class_const(None, "PERM_OEM")
    out.append(f"def certPermDebug : Nat := {perm_oem.get('debug', 0) if isinstance(perm_oem, dict) else 0}  -- PERM_OEM['debug']")
    # DebugCredentialEdgeLockEnclaveV2 (probed): what the wrapper does with the permission data of the certificate it is given
    def wrapper():
        V2 = ns["DebugCredentialEdgeLockEnclaveV2"]

        class Rec2:
            def get_public_key(self):
                return Key(b"k")
        V2.__init__.__globals__["SRKRecordV2"] = Rec2
        keeps = zeroes = True
        props = True
        for socc, socu, beacon in ((0x11223344, 0x55667788, 0x99AABBCC), (0x80000001, 7, 0)):
            cert = types.SimpleNamespace(permission_data=struct.pack("<LLL", socc, socu, beacon), _uuid=distinct(16, 1), public_key_0=Rec2())
            d = V2(cert)
            got = struct.unpack("<LLL", cert.permission_data[:12])
            keeps &= got == (socc, socu, beacon)
            zeroes &= got == (0, socu, beacon)
            props &= (d.socc, d.socu, d.beacon) == got
            d.socu = 0x01020304
            props &= struct.unpack("<LLL", cert.permission_data[:12]) == (got[0], 0x01020304, got[2])
            d.beacon = 0x0A0B
            props &= struct.unpack("<LLL", cert.permission_data[:12]) == (got[0], 0x01020304, 0x0A0B)
            d.socc = 0x7172
            props &= struct.unpack("<LLL", cert.permission_data[:12]) == (0x7172, 0x01020304, 0x0A0B)
        # create_from_yaml_config: permission data handed to AhabCertificate.load_from_config
        seen = {}

        class CertStub:
            @staticmethod
            def load_from_config(config=None, search_paths=None, **kw):
                seen.update(config)
                return types.SimpleNamespace(permission_data=bytes(config["permission_data"]), _uuid=None, public_key_0=Rec2())
        V2.create_from_yaml_config.__func__.__globals__["AhabCertificate"] = CertStub
        sb.db = {"socc": 0x4D58005E}
        V2.create_from_yaml_config({"family": "fam", "cc_socu": "0x0FFF"})
        sb.db = {}
        create_ok = bytes(seen.get("permission_data", b"")) == struct.pack("<LLL", 0x4D58005E, 0xFFF, 0) and seen.get("permissions") == ["debug"]
        return keeps, zeroes, props, create_ok
    keeps, zeroes, props, create_ok = attempt(meta, "EdgeLock v2 wrapper", wrapper, (False, False, False, False))
    out.append(f"def v2CtorKeepsSocc : Bool := {_b(keeps)}  -- DebugCredentialEdgeLockEnclaveV2(certificate) leaves socc || socu || beacon of the permission data as they are")
    out.append(f"def v2CtorZeroesSocc : Bool := {_b(zeroes)}  -- ... overwrites the SoC class with 0")
    out.append(f"def v2PermPropsOk : Bool := {_b(props)}  -- socc / socu / beacon read and write words 0 / 1 / 2 of the permission data (`<LLL`)")
    out.append(f"def v2CreatePermOk : Bool := {_b(create_ok)}  -- create_from_yaml_config asks for permission ['debug'] and permission data socc || cc_socu || 0")
    out.append("")


# ------------------------------------------------------------------------------------------------ main
def gen_DatConsts():
    meta = {"sources": [DC, DAC, DAR, CERT, "spsdk/data/devices/*/database.yaml"], "method": "sandbox probes + static reading"}
    out = ["import SpsdkVerif.Base.Py", "import SpsdkVerif.Base.DatTypes", "", "namespace SpsdkVerif.Generated.DatConsts", "open SpsdkVerif", ""]
    sb = Sandbox()
    ns = attempt(meta, "load debug_credential", lambda: sb.load(DC), None)
    tree = parse(DC)
    env = attempt(meta, "consteval", lambda: ModuleEnv(tree), None)

    def cconst(cls, name):
        try:
            return env.cls(cls).value(name)
        except (NotConst, AttributeError):
            return None

    # ---- protocol versions, key size -> minor version
    versions = attempt(meta, "versions", lambda: versions_of(ns), [])
    out.append("def versions : List (Nat × Nat) := [" + ", ".join(f"({a}, {b})" for a, b in versions) + "]  -- ProtocolVersion.VERSIONS (sorted)")
    meta["versions"] = [f"{a}.{b}" for a, b in versions]

    def key_map(kcls, major):
        d = {}
        for bits in (512, 1024, 2048, 3072, 4096, 8192, 160, 192, 224, 256, 320, 384, 512, 521):
            try:
                v = ns["ProtocolVersion"].from_public_key(kcls(key_size=bits))
                if v.major == major:
                    d[bits] = v.minor
            except Exception:  # noqa: BLE001
                pass
        return d
    out.append(f"def rsaMinorOfBits : List (Nat × Nat) := {pairs(attempt(meta, 'rsaMinorOfBits', lambda: key_map(KeyRsa, 1), None))}  -- from_public_key (RSA), probed")
    out.append(f"def eccMinorOfBits : List (Nat × Nat) := {pairs(attempt(meta, 'eccMinorOfBits', lambda: key_map(KeyEcc, 2), None))}  -- from_public_key (ECC), probed")
    coord_tbl = cconst("DebugCredentialCertificateEcc", "COORDINATE_SIZE")
    hash_tbl = cconst("RotMetaEcc", "HASH_SIZES")
    out.append(f"def eccCoordSize : List (Nat × Nat) := {pairs(coord_tbl)}  -- DebugCredentialCertificateEcc.COORDINATE_SIZE (by value, sorted)")
    out.append(f"def eccHashBits : List (Nat × Nat) := {pairs(hash_tbl)}  -- RotMetaEcc.HASH_SIZES (coordinate size -> SHA-2 width; by value, sorted)")

    # ---- pack side of the three credential classes
    rsa_versions = [f"{a}.{b}" for a, b in versions if a == 1]
    ecc_versions = [f"{a}.{b}" for a, b in versions if a == 2][:2]

    def free_probes(vers, kcls):
        ps = []
        for k, v in enumerate(vers):
            ps.append((v, RotMetaStub(distinct(128 if kcls is KeyRsa and k == 0 else 41 + 6 * k, 2 + k)), kcls(distinct(301 + 10 * k, 4 + k), coordinate_size=33 + k),
                       kcls(distinct(317 + 10 * k, 6 + k), coordinate_size=37 + k), distinct(89 + 4 * k, 8 + k)))
        return ps

    layouts = {}
    rsa_key = rsa_sig = None

    def do_class(pfx, clsname, vers, kcls):
        nonlocal rsa_key, rsa_sig
        probes = free_probes(vers, kcls)
        byv = {}
        exp = name_cols(pack_layout(sb, ns, clsname, probes, "export"), probes, ns, byv)
        sgn = name_cols(pack_layout(sb, ns, clsname, probes, "_get_data_to_sign"), probes, ns, byv)
        if pfx == "rsa":
            for sizes, args in byv.items():
                if set(args) == {".sig"}:
                    rsa_sig = sizes
                elif set(args) <= {".dck", ".rotPub"} and args:
                    rsa_key = sizes if rsa_key in (None, sizes) else "conflict"
        return finish_layout(exp, rsa_key, rsa_sig), finish_layout(sgn, rsa_key, rsa_sig)

    for pfx, clsname, vers, kcls in (("rsa", "DebugCredentialCertificateRsa", rsa_versions, KeyRsa), ("ecc", "DebugCredentialCertificateEcc", ecc_versions, KeyEcc),
                                     ("ele", "DebugCredentialEdgeLockEnclave", ecc_versions, KeyEcc)):
        layouts[pfx] = attempt(meta, pfx + " export layout", lambda a=(pfx, clsname, vers, kcls): do_class(*a), (UNK, UNK))
    minors = [int(v.split(".")[1]) for v in rsa_versions]
    ks = dict(zip(minors, rsa_key)) if isinstance(rsa_key, tuple) else None
    ss = dict(zip(minors, rsa_sig)) if isinstance(rsa_sig, tuple) else None
    out.append(f"def rsaKeySize : List (Nat × Nat) := {pairs(ks)}  -- width of the two key fields of the RSA credential by minor version (probed)")
    out.append(f"def rsaSigSize : List (Nat × Nat) := {pairs(ss)}  -- width of its signature field by minor version (probed)")
    out.append(f"def rsaSizeIndexedByMinor : Bool := {_b(ks is not None and ss is not None)}")
    out.append("")
    for pfx in ("rsa", "ecc", "ele"):
        out.append(f"def {pfx}Export : List (DatFld × DatArg) := {lean_layout(layouts[pfx][0])}")
        out.append(f"def {pfx}Sign : List (DatFld × DatArg) := {lean_layout(layouts[pfx][1])}")
    out.append("")

    # ---- RotMeta classes (needed for consistent credentials below)
    rsa_geo = attempt(meta, "RotMetaRSA geometry", lambda: probe_rotmeta_rsa(ns), (0, 0, 0, 0))
    item_tbl = attempt(meta, "RotMetaEcc item width", lambda: probe_ecc_item_width(ns, hash_tbl), {})
    flags = attempt(meta, "RotMetaFlags", lambda: probe_flags(ns), None)

    # ---- parse side
    def rsa_insts():
        res = []
        for k, v in enumerate(rsa_versions):
            mi = int(v.split(".")[1])
            rm = ns["RotMetaRSA"]([distinct(rsa_geo[2], 20 + i + 3 * k) for i in range(2 + k)])
            res.append(mk_dc(ns, "DebugCredentialCertificateRsa", v, rm, KeyRsa(distinct(ks[mi], 30 + k)), KeyRsa(distinct(ks[mi], 32 + k)), distinct(ss[mi], 34 + k)))
        return res

    def ecc_insts():
        res = []
        for k, v in enumerate(ecc_versions):
            c = coord_tbl[int(v.split(".")[1])]
            sub = ns["RotMetaEcc"]._get_subclass(c)
            rm = sub(ns["RotMetaFlags"](1, 3 + k), [distinct(item_tbl[c], 40 + i + 5 * k) for i in range(3 + k)])
            res.append(mk_dc(ns, "DebugCredentialCertificateEcc", v, rm, KeyEcc(distinct(2 * c, 50 + k), coordinate_size=c), KeyEcc(distinct(2 * c, 52 + k), coordinate_size=c),
                             distinct(2 * c, 54 + k)))
        return res

    def ele_insts():
        res = []
        for k, v in enumerate(ecc_versions):
            keys = [KeyEcc(distinct(70 + 2 * i + 9 * k, 60 + i), signature_size=100 + 3 * i + 7 * k) for i in range(4)]
            SrkTable.KEYS = keys
            body = distinct(60 + 8 * k, 70 + k)
            tbl = SrkTable(struct.pack("<H", len(body) + 2) + body)
            rm = ns["RotMetaEdgeLockEnclave"](ns["RotMetaFlags"](2, 4), tbl)
            inst = mk_dc(ns, "DebugCredentialEdgeLockEnclave", v, rm, keys[2], KeyEcc(distinct(len(keys[2].raw), 80 + k)), distinct(keys[2].signature_size, 82 + k))
            inst._srk_keys = keys
            res.append(inst)
        return res

    def parse_of(pfx, clsname, mk, cand_fn):
        # (the SRK stub hands out the keys of the credential that is being parsed)
        before = (lambda inst: setattr(SrkTable, "KEYS", inst._srk_keys)) if pfx == "ele" else None
        return attempt(meta, pfx + " parse layout", lambda: parse_layout(sb, ns, clsname, mk(), cand_fn, before), UNK)

    rsa_cand = lambda insts: {".rsaKey": [len(i.dck_pub.raw) for i in insts], ".rsaSig": [len(i.signature) for i in insts]}  # noqa: E731
    ecc_cand = lambda insts: {".hashSize2": [2 * coord_tbl[i.version.minor] for i in insts], ".lenRotMeta": [len(i.rot_meta.export()) for i in insts]}  # noqa: E731
    ele_cand = lambda insts: {".lenRotPub": [len(i.rot_pub.raw) for i in insts], ".rotSigSize": [i.rot_pub.signature_size for i in insts],  # noqa: E731
                              ".lenRotMeta": [len(i.rot_meta.export()) for i in insts]}
    out.append(f"def rsaParse : List (DatFld × DatArg) := {lean_layout(parse_of('rsa', 'DebugCredentialCertificateRsa', rsa_insts, rsa_cand))}  -- what parse() reads, by offset")
    out.append(f"def eccParse : List (DatFld × DatArg) := {lean_layout(parse_of('ecc', 'DebugCredentialCertificateEcc', ecc_insts, ecc_cand))}")
    out.append(f"def eleParse : List (DatFld × DatArg) := {lean_layout(parse_of('ele', 'DebugCredentialEdgeLockEnclave', ele_insts, ele_cand))}")
    out.append("")

    # ---- RotMeta tables
    if flags is None:
        flags = {"export": [], "ctor": [], "len": 0, "parse": []}
    out.append("def flagsExportTbl : List ((Nat × Nat) × Nat) := [" + ", ".join(f"(({u}, {c}), {w})" for (u, c), w in flags["export"]) + "]"
               "  -- RotMetaFlags(used, cnt).export() as a little-endian word, every pair 0..15 the constructor accepts")
    out.append("def flagsCtorOk : List (Nat × Nat) := [" + ", ".join(f"({u}, {c})" for u, c in flags["ctor"]) + "]  -- pairs 0..15 x 0..15 accepted by RotMetaFlags(...)")
    out.append(f"def flagsLen : Nat := {flags['len']}  -- length of the exported flags; parse refuses every other length")
    out.append("/-- RotMetaFlags.parse(word): `some (used, cnt)`, `none` = refused with an SPSDK error (probe words: every pair with and without the marker bit,\n"
               "    stray bits, pseudo-random words) -/")
    out.append("def flagsParseProbes : List (Nat × Option (Nat × Nat)) := [" + ", ".join(
        f"({w}, {'none' if r is None else f'some ({r[0]}, {r[1]})'})" for w, r in flags["parse"]) + "]")
    out.append(f"def rotMetaRsaSize : Nat := {rsa_geo[0]}  -- len(RotMetaRSA([]).export())")
    out.append(f"def rotMetaRsaCount : Nat := {rsa_geo[1]}  -- items RotMetaRSA.parse returns for an all-non-zero table")
    out.append(f"def rotMetaRsaItem : Nat := {rsa_geo[2]}  -- their width (0 = export and parse disagree)")
    out.append(f"def rotMetaRsaMinLen : Nat := {rsa_geo[3]}  -- shortest input RotMetaRSA.parse accepts")
    mx = attempt(meta, "RotMetaRSA max keys", lambda: probe_rsa_max_keys(sb, ns), 0)
    out.append(f"def rotMetaRsaMaxKeys : Nat := {mx}  -- most keys RotMetaRSA.load_from_config accepts")
    out.append(f"def eccItemWidthTbl : List (Nat × Nat) := {pairs(item_tbl)}  -- coordinate size -> width of one CRTK table item read by RotMetaEcc<n>.parse")
    th = attempt(meta, "RotMetaEcc table hash", lambda: probe_ecc_table_hash(ns), {})
    out.append(f"def eccTableHashTbl : List (Nat × Nat) := {pairs(th)}  -- item width -> SHA-2 width of calculate_hash (0 = SPSDK error, 1 = other error)")
    sk = attempt(meta, "single key hash", lambda: probe_single_key_hash(ns, coord_tbl), {})
    out.append(f"def eccSingleKeyHashTbl : List (Nat × Nat) := {pairs(sk)}  -- coordinate size -> SHA-2 width of the single-key fallback (0 / 1 = error as above)")
    out.append("")

    # ---- what create_from_yaml_config accepts
    cp = attempt(meta, "create probes", lambda: probe_create(sb, ns), [])
    out.append("/-- (class 0 rsa / 1 ecc / 2 ele, major, minor, uuid length, RoT key kind 0 rsa / 1 ecc, bits, DCK kind, bits, result 0 created / 1 SPSDK error / 2 other) -/")
    out.append("def createProbes : List (List Nat) := [" + ", ".join("[" + ", ".join(str(x) for x in r) + "]" for r in cp) + "]")
    out.append("")

    # ---- DAC
    dac = attempt(meta, "DAC", lambda: probe_dac(sb, ns), None) or {"export": UNK, "parse": UNK, "hash": [], "swap": False}
    out.append(f"def dacParseLayout : List (DatFld × DatArg) := {lean_layout(dac['parse'])}  -- what DebugAuthenticationChallenge.parse reads, by offset")
    out.append(f"def dacExport : List (DatFld × DatArg) := {lean_layout(dac['export'])}")
    out.append("/-- get_rot_hash_length for (based_on_ele, dat_is_using_sha256_always, major, minor), versions 0..3 x 0..3 -/")
    out.append("def dacHashLenTbl : List ((Bool × Bool × Nat × Nat) × Nat) := [" + ", ".join(
        f"(({_b(e)}, {_b(s)}, {a}, {b}), {v})" for (e, s, a, b), v in dac["hash"]) + "]")
    out.append(f"def dacSwapOk : Bool := {_b(dac['swap'])}  -- dac_version_is_swapped: the two version words are exchanged after the hash width has been taken from the wire order")
    out.append("")

    # ---- DAR
    dar = attempt(meta, "DAR", lambda: probe_dar(sb, ns), None) or {"base": UNK, "ecc": UNK, "sign": UNK, "export": UNK, "uses": [], "uniform": False}
    out.append(f"def darCommonBase : List (DatFld × DatArg) := {lean_layout(dar['base'])}  -- _get_common_data() of the response class of the RSA versions")
    out.append(f"def darCommonEcc : List (DatFld × DatArg) := {lean_layout(dar['ecc'])}  -- ... of the ECC versions")
    out.append(f"def darSignLayout : List (DatFld × DatArg) := {lean_layout(dar['sign'])}  -- _get_data_for_signature(); (.raw, .skip) = the common data")
    out.append(f"def darExportLayout : List (DatFld × DatArg) := {lean_layout(dar['export'])}  -- export(); (.raw, .signature) = signature of the signed message")
    out.append("def darVersionUsesEcc : List ((Nat × Nat) × Bool) := [" + ", ".join(f"(({a}, {b}), {_b(e)})" for (a, b), e in dar["uses"]) + "]  -- _version_mapping (sorted)")
    out.append(f"def darUniform : Bool := {_b(dar['uniform'])}  -- every version's class produces one of the two common layouts, the same signed message and packet shape")
    out.append("")

    # ---- EdgeLock enclave v2
    v2_section(sb, ns, out, meta)

    # ---- database
    rows = db_rows(meta)
    out.append("def rows : List DatRow := [")
    out.append(",\n".join(f'  ⟨"{f}", "{r}", {s}, {_b(e)}, {cv}, {_b(sh)}, {_b(np)}, {_b(ci)}, {_b(sw)}, {_b(pss)}⟩'
                          for f, r, s, e, cv, sh, np, ci, sw, pss in rows))
    out.append("]")
    meta["rows"] = len(rows)
    meta["families"] = sorted({r[0] for r in rows})
    out.append("")
    out.append("end SpsdkVerif.Generated.DatConsts")
    emit("DatConsts", "\n".join(out) + "\n", meta)


GENERATORS = {"DatConsts": gen_DatConsts}
