"""C15 generator: Generated/DatConsts.lean from the CURRENT debug-authentication sources and device database.

Pure static reading (`ast`, `yaml.safe_load`); never imports spsdk.

Emitted (namespace SpsdkVerif.Generated.DatConsts; types from Base/DatTypes.lean):
  * `versions`, `rsaMinorOfBits`, `eccMinorOfBits`          - ProtocolVersion.VERSIONS / from_public_key maps
  * `rsaKeySize`, `rsaSigSize`, `eccCoordSize`, `eccHashBits` - the size dictionaries of the credential classes
  * `rsaExport/rsaSign`, `eccExport/eccSign`, `eleExport/eleSign`
        - `get_data_format()` (f-string pieces, with / without signature) zipped with the argument list of the
          `pack(...)` call of `export()` / `_get_data_to_sign()`  : List (DatFld × DatArg)
  * `rsaParse`, `eccParseHead/eccParseTail`, `eleParseHead/eleParseTail`
        - the format used by `parse()` zipped with the unpack *targets*, each target resolved to the constructor attribute
          it is passed to (class `Canon`: local variable names do not matter); `*ParseFields` = keywords of `cls(...)`
  * `flagsExport/flagsValidate/flagsUsed/flagsCnt/flagsMarker` - RotMetaFlags.export/validate/parse translated to Lean
          by tools/extract/py2lean.py after rewriting `self.x` to a parameter `x` (documented below)
  * `rotMetaRsaSize/Count/Item`                              - literals of RotMetaRSA.export/parse
  * `dacHead/dacTail` (+ targets), `dacExport`, `dacRotHashLength` (translated `get_rot_hash_length`)
  * `darCommonBase`, `darCommonEcc`, `darSignTail`, `darExportTail`, `darVersionUsesEcc`
  * `rows` : List DatRow - every (family, revision incl. "latest") having the `dat` feature, after the same
          alias / revision / defaults resolution as spsdk/utils/database.py (cross-checked against the live
          database by harness/props/C15.py on every run).
"""
from __future__ import annotations

import ast
import copy
import re

import yaml

import py2lean
from extract import REPO, emit, parse
from py2lean import Env, Untranslatable, translate_function

DC = "spsdk/dat/debug_credential.py"
DAC = "spsdk/dat/dac_packet.py"
DAR = "spsdk/dat/dar_packet.py"


# ------------------------------------------------------------------------------------------------ ast helpers
def _cls(tree, name):
    for n in tree.body:
        if isinstance(n, ast.ClassDef) and n.name == name:
            return n
    return None


def _fun(cls, name):
    if cls is None:
        return None
    for n in cls.body:
        if isinstance(n, ast.FunctionDef) and n.name == name:
            return n
    return None


def _lit(node):
    try:
        return ast.literal_eval(node)
    except (ValueError, SyntaxError, TypeError):
        return None


def _class_const(cls, name):
    if cls is None:
        return None
    for st in cls.body:
        if isinstance(st, ast.Assign) and len(st.targets) == 1 and isinstance(st.targets[0], ast.Name) and st.targets[0].id == name:
            return _lit(st.value)
    return None


class Canon:
    """Makes the expressions of one function independent of the names of its locals.

    * a local assigned exactly once by a plain `x = expr` is replaced by (the canonical form of) `expr`,
    * a local that is a target of a tuple-unpacking assignment is replaced by the attribute it ends up in: the keyword
      of the `cls(...)` call of the `return` statement it is passed to (directly or through `X.parse(local)`), or
      `major` / `minor` for the arguments of `ProtocolVersion.from_version(a, b)`; rendered as `«field»`.
    Renaming a local variable therefore does not change what is generated."""

    def __init__(self, fn, kwmap):
        self.assign1, self.sem = {}, {}
        if fn is None:
            return
        counts, tuple_targets = {}, set()
        for n in ast.walk(fn):
            if isinstance(n, ast.Assign):
                for t in n.targets:
                    if isinstance(t, ast.Name):
                        counts[t.id] = counts.get(t.id, 0) + 1
                        self.assign1[t.id] = n.value
                    elif isinstance(t, (ast.Tuple, ast.List)):
                        for e in t.elts:
                            if isinstance(e, ast.Name):
                                tuple_targets.add(e.id)
            elif isinstance(n, (ast.AugAssign, ast.For)):
                t = n.target
                if isinstance(t, ast.Name):
                    counts[t.id] = counts.get(t.id, 0) + 2
        self.assign1 = {k: v for k, v in self.assign1.items() if counts.get(k) == 1 and k not in tuple_targets}
        for n in ast.walk(fn):
            if isinstance(n, ast.Call):
                f = ast.unparse(n.func)
                if f.endswith("from_version") and len(n.args) == 2:
                    for a, fld in zip(n.args, ("major", "minor")):
                        if isinstance(a, ast.Name) and a.id in tuple_targets:
                            self.sem.setdefault(a.id, fld)
                if f == "cls":
                    for kw in n.keywords:
                        v = kw.value
                        if isinstance(v, ast.Call) and isinstance(v.func, ast.Attribute) and v.func.attr == "parse" and len(v.args) == 1:
                            v = v.args[0]
                        if isinstance(v, ast.Name) and kw.arg in kwmap and (v.id in tuple_targets or v.id in self.assign1):
                            self.sem.setdefault(v.id, kwmap[kw.arg])
        # a local with a meaning is never inlined
        for k in self.sem:
            self.assign1.pop(k, None)

    def node(self, e, depth=0):
        c = self

        class T(ast.NodeTransformer):
            def visit_Name(self, n):
                if isinstance(n.ctx, ast.Load):
                    if n.id in c.sem:
                        return ast.Name(id="«%s»" % c.sem[n.id], ctx=n.ctx)
                    if n.id in c.assign1 and depth < 5:
                        return c.node(copy.deepcopy(c.assign1[n.id]), depth + 1)
                return n
        return T().visit(copy.deepcopy(e))

    def text(self, e):
        return ast.unparse(self.node(e))

    def field(self, e):
        """Lean DatArg of an unpack target."""
        if isinstance(e, ast.Name):
            if e.id == "_":
                return ".skip"
            f = self.sem.get(e.id)
            return FIELD_TOK.get(f, ".unknown")
        return ".unknown"


FIELD_TOK = {"major": ".major", "minor": ".minor", "socc": ".socc", "uuid": ".uuid", "rot_meta": ".rotMeta", "dck_pub": ".dck",
             "cc_socu": ".ccSocu", "cc_vu": ".ccVu", "cc_beacon": ".beacon", "rot_pub": ".rotPub", "signature": ".sig",
             "rotid_rkh_revocation": ".revocation", "rotid_rkth_hash": ".rkthHash", "cc_soc_pinned": ".socPinned",
             "cc_soc_default": ".socDefault", "challenge": ".challenge"}
DC_KW = {k: k for k in ("socc", "uuid", "rot_meta", "dck_pub", "cc_socu", "cc_vu", "cc_beacon", "rot_pub", "signature")}
DAC_KW = {k: k for k in ("socc", "uuid", "rotid_rkh_revocation", "rotid_rkth_hash", "cc_soc_pinned", "cc_soc_default", "cc_vu", "challenge")}
NOCANON = Canon(None, {})


def _str_pieces(node, canon=NOCANON):
    """Flatten a `"<" + "2H" + f"{x}s" + ...` expression into a list of pieces: str or ('expr', canonical source)."""
    if isinstance(node, ast.Name) and node.id in canon.assign1:
        return _str_pieces(canon.assign1[node.id], canon)
    if isinstance(node, ast.BinOp) and isinstance(node.op, ast.Add):
        a, b = _str_pieces(node.left, canon), _str_pieces(node.right, canon)
        return None if a is None or b is None else a + b
    if isinstance(node, ast.Constant) and isinstance(node.value, str):
        return [node.value]
    if isinstance(node, ast.JoinedStr):
        out = []
        for v in node.values:
            if isinstance(v, ast.Constant):
                out.append(str(v.value))
            elif isinstance(v, ast.FormattedValue):
                out.append(("expr", canon.text(v.value)))
            else:
                return None
        return out
    return None


# canonical width expressions (locals already resolved by `Canon`: «x» = the local that ends up in attribute x)
W_EXPR = {
    "len(self.rot_meta)": ".lenRotMeta",
    "self.rot_pub.coordinate_size * 2": ".rotCoord2", "self.dck_pub.coordinate_size * 2": ".dckCoord2",
    "len(self.export_dck_pub())": ".lenDck", "len(self.signature)": ".lenSig",
    "«rot_meta».HASH_SIZE * 2": ".hashSize2", "len(«rot_pub».export())": ".lenRotPub", "«rot_pub».signature_size": ".rotSigSize",
    "cls.get_rot_hash_length(DebugCredentialCertificate.get_family_ambassador(«socc»), «major», «minor»)": ".hashLength",
}
UNKNOWN_W = []


def _width(expr, part):
    """Lean DatW of a canonical width expression; `{..}[version.minor]` dictionaries become .rsaKey (in the part of the
    format that is always present) / .rsaSig (in the signature part)."""
    if expr in W_EXPR:
        return W_EXPR[expr]
    if re.fullmatch(r"\{[0-9:, ]*\}\[version\.minor\]", expr):
        return ".rsaKey" if part == "base" else ".rsaSig"
    UNKNOWN_W.append(expr)
    return ".unknown"


def _fields(pieces, part="base"):
    """struct format pieces -> list of Lean DatFld terms (little endian only; anything else -> .unknown)."""
    if pieces is None:
        return [".unknown"]
    # re-join: literal text stays, expressions become a placeholder token
    toks, exprs = "", []
    for p in pieces:
        if isinstance(p, tuple):
            toks += "{%d}" % len(exprs)
            exprs.append(p[1])
        else:
            toks += p
    out = []
    if toks.startswith("<"):
        toks = toks[1:]
    elif part == "base":
        return [".unknown"]
    i = 0
    while i < len(toks):
        m = re.match(r"(\d+|\{\d+\})?([HLs])", toks[i:])
        if not m:
            return out + [".unknown"]
        cnt, code = m.group(1), m.group(2)
        i += m.end()
        if code == "s":
            if cnt is None:
                out.append("(.bytes (.fixed 1))")
            elif cnt.startswith("{"):
                out.append("(.bytes %s)" % _width(exprs[int(cnt[1:-1])], part))
            else:
                out.append("(.bytes (.fixed %d))" % int(cnt))
        else:
            if cnt is not None and cnt.startswith("{"):
                return out + [".unknown"]
            out.extend([".u16" if code == "H" else ".u32"] * (int(cnt) if cnt else 1))
    return out


ARG_EXPR = {
    "self.version.major": ".major", "self.version.minor": ".minor", "self.socc": ".socc", "self.uuid": ".uuid",
    "self.rot_meta.export()": ".rotMeta", "self.export_dck_pub()": ".dck", "self.cc_socu": ".ccSocu", "self.cc_vu": ".ccVu",
    "self.cc_beacon": ".beacon", "self.export_rot_pub()": ".rotPub", "self.signature": ".sig",
    # DAC
    "self.rotid_rkh_revocation": ".revocation", "self.rotid_rkth_hash": ".rkthHash", "self.cc_soc_pinned": ".socPinned",
    "self.cc_soc_default": ".socDefault", "self.challenge": ".challenge",
    # DAR
    "self.debug_credential.export()": ".dcExport", "self.auth_beacon": ".authBeacon", "self.dac.uuid": ".dacUuid",
    "self.dac.challenge": ".dacChallenge", "self._get_signature()": ".signature",
}


def _arg(node):
    return ARG_EXPR.get(ast.unparse(node), ".unknown")


def _zip(flds, args):
    if len(flds) != len(args):
        n = max(len(flds), len(args))
        flds = flds + [".unknown"] * (n - len(flds))
        args = args + [".unknown"] * (n - len(args))
    return "[" + ", ".join(f"({f}, {a})" for f, a in zip(flds, args)) + "]"


def data_format(cls):
    """(pieces always present, pieces of the signature part, [dict literal of the key width, of the signature width]) of
    `get_data_format`: the returned local, its first assignment and its `+=` under `if include_signature`."""
    fn = _fun(cls, "get_data_format")
    if fn is None:
        return None, None, [None, None]
    canon = Canon(fn, {})
    var = None
    for n in ast.walk(fn):
        if isinstance(n, ast.Return) and isinstance(n.value, ast.Name):
            var = n.value.id
    base = sig = None
    for n in ast.walk(fn):
        if isinstance(n, ast.Assign) and len(n.targets) == 1 and isinstance(n.targets[0], ast.Name) and n.targets[0].id == var and base is None:
            base = _str_pieces(n.value, canon)
        if isinstance(n, ast.AugAssign) and isinstance(n.target, ast.Name) and n.target.id == var:
            sig = _str_pieces(n.value, canon)

    def dict_of(pieces):
        ds = {p[1] for p in (pieces or []) if isinstance(p, tuple) and re.fullmatch(r"\{[0-9:, ]*\}\[version\.minor\]", p[1])}
        if len(ds) != 1:
            return None
        try:
            return ast.literal_eval(ds.pop().rsplit("[", 1)[0])
        except (ValueError, SyntaxError):
            return None
    return base, sig, [dict_of(base), dict_of(sig)]


def pack_args(fn):
    """argument expressions (after the format) of the single `pack(...)` call of `fn`."""
    if fn is None:
        return None
    for n in ast.walk(fn):
        if isinstance(n, ast.Call) and isinstance(n.func, ast.Name) and n.func.id == "pack":
            return [_arg(a) for a in n.args[1:]]
    return None


def unpack_calls(fn, canon):
    """[(format pieces | ('method', name), [target fields])] of every `targets = unpack_from(fmt, ...)` of `fn`, in order."""
    out = []
    if fn is None:
        return out
    for n in ast.walk(fn):
        if isinstance(n, ast.Assign) and isinstance(n.value, ast.Call) and isinstance(n.value.func, ast.Name) \
                and n.value.func.id == "unpack_from" and n.value.args:
            t = n.targets[0]
            elts = t.elts if isinstance(t, (ast.Tuple, ast.List)) else [t]
            f = n.value.args[0]
            if isinstance(f, ast.Call) and isinstance(f.func, ast.Attribute):
                fmt = ("method", f.func.attr)
            else:
                fmt = _str_pieces(f, canon)
            out.append((fmt, [canon.field(e) for e in elts], n.lineno))
    out.sort(key=lambda x: x[2])
    return out


def ctor_fields(fn, kwmap):
    """keywords of the `cls(...)` call that `fn` returns, as fields, in source order."""
    if fn is None:
        return "[]"
    for n in ast.walk(fn):
        if isinstance(n, ast.Return) and isinstance(n.value, ast.Call) and isinstance(n.value.func, ast.Name) and n.value.func.id == "cls":
            return "[" + ", ".join(FIELD_TOK.get(kwmap.get(kw.arg), ".unknown") for kw in n.value.keywords if kw.arg != "version") + "]"
    return "[]"


def pairs(d):
    if not isinstance(d, dict):
        return "[]"
    return "[" + ", ".join(f"({int(k)}, {int(v)})" for k, v in d.items()) + "]"


# ------------------------------------------------------------------------------------------------ small functions
class _SelfToName(ast.NodeTransformer):
    def visit_Attribute(self, node):
        self.generic_visit(node)
        if isinstance(node.value, ast.Name) and node.value.id == "self":
            return ast.copy_location(ast.Name(id=node.attr, ctx=node.ctx), node)
        return node


def _translate(fn_src_node, name, params, ret, body, env):
    """Build a synthetic `def name(params) -> ret: body` and translate it."""
    args = ast.arguments(posonlyargs=[], args=[ast.arg(arg=p, annotation=ast.Name(id=t, ctx=ast.Load())) for p, t in params],
                         kwonlyargs=[], kw_defaults=[], defaults=[])
    fn = ast.FunctionDef(name=name, args=args, body=body, decorator_list=[], returns=ast.Name(id=ret, ctx=ast.Load()), type_params=[])
    ast.fix_missing_locations(fn)
    text, _sig = translate_function(fn, name, env)
    return text


def flags_functions(tree, out, meta):
    env = Env()
    cls = _cls(tree, "RotMetaFlags")
    fallback = {"flagsExport": ("(used_root_cert : Int) (cnt_root_cert : Int)", "Int"),
                "flagsValidate": ("(used_root_cert : Int) (cnt_root_cert : Int)", "Bool"),
                "flagsUsed": ("(flags : Int)", "Int"), "flagsCnt": ("(flags : Int)", "Int"), "flagsMarker": ("(flags : Int)", "Bool")}
    done = {}

    def attempt(lean, build):
        try:
            done[lean] = build()
            meta["functions"][lean] = "translated"
        except (Untranslatable, AttributeError, IndexError, KeyError, TypeError, StopIteration) as exc:
            a, r = fallback[lean]
            done[lean] = f"-- untranslatable ({type(exc).__name__}: {exc})\ndef {lean} {a} : PyRes {r} := .error .other\n"
            meta["functions"][lean] = f"untranslatable: {exc}"

    def b_export():
        fn = copy.deepcopy(_fun(cls, "export"))
        body = [s for s in _SelfToName().visit(fn).body if not (isinstance(s, ast.Expr) and isinstance(s.value, ast.Constant))]
        last = body[-1]
        # `return pack("<L", flags)` -> `return flags` (the little-endian 4-byte packing is the model's `leEnc 4`)
        if not (isinstance(last, ast.Return) and isinstance(last.value, ast.Call) and ast.unparse(last.value.func) == "pack"
                and _lit(last.value.args[0]) == "<L"):
            raise Untranslatable("export does not end in return pack('<L', flags)")
        body[-1] = ast.Return(value=last.value.args[1])
        return _translate(fn, "flagsExport", [("used_root_cert", "int"), ("cnt_root_cert", "int")], "int", body, env)

    def b_validate():
        fn = copy.deepcopy(_fun(cls, "validate"))
        body = [s for s in _SelfToName().visit(fn).body if not (isinstance(s, ast.Expr) and isinstance(s.value, ast.Constant))]
        body.append(ast.Return(value=ast.Constant(value=True)))
        return _translate(fn, "flagsValidate", [("used_root_cert", "int"), ("cnt_root_cert", "int")], "bool", body, env)

    def parse_expr(var):
        fn = _fun(cls, "parse")
        for n in ast.walk(fn):
            if isinstance(n, ast.Assign) and len(n.targets) == 1 and isinstance(n.targets[0], ast.Name) and n.targets[0].id == var:
                return n.value
        raise Untranslatable(f"no assignment to {var} in RotMetaFlags.parse")

    def b_used():
        return _translate(None, "flagsUsed", [("flags", "int")], "int", [ast.Return(value=copy.deepcopy(parse_expr("used_root_cert")))], env)

    def b_cnt():
        return _translate(None, "flagsCnt", [("flags", "int")], "int", [ast.Return(value=copy.deepcopy(parse_expr("cnt_root_cert")))], env)

    def b_marker():
        fn = _fun(cls, "parse")
        for n in ast.walk(fn):
            # `if not flags & (1 << 31): raise`
            if isinstance(n, ast.If) and isinstance(n.test, ast.UnaryOp) and isinstance(n.test.op, ast.Not) \
                    and "flags" in ast.unparse(n.test.operand) and isinstance(n.test.operand, ast.BinOp):
                test = ast.Compare(left=copy.deepcopy(n.test.operand), ops=[ast.NotEq()], comparators=[ast.Constant(value=0)])
                return _translate(None, "flagsMarker", [("flags", "int")], "bool", [ast.Return(value=test)], env)
        raise Untranslatable("marker test not found in RotMetaFlags.parse")

    attempt("flagsExport", b_export)
    attempt("flagsValidate", b_validate)
    attempt("flagsUsed", b_used)
    attempt("flagsCnt", b_cnt)
    attempt("flagsMarker", b_marker)
    for k in ("flagsExport", "flagsValidate", "flagsUsed", "flagsCnt", "flagsMarker"):
        out.append(f"/-- translated from `{DC}::RotMetaFlags` (`self.x` rewritten to parameter `x`) -/")
        out.append(done[k])
    # length check of RotMetaFlags.parse: `if len(data) != 4`
    n_len = None
    fn = _fun(cls, "parse")
    if fn is not None:
        for n in ast.walk(fn):
            if isinstance(n, ast.Compare) and ast.unparse(n.left) == "len(data)" and isinstance(n.ops[0], ast.NotEq):
                n_len = _lit(n.comparators[0])
    out.append(f"def flagsLen : Nat := {n_len if isinstance(n_len, int) else 0}  -- RotMetaFlags.parse: len(data) != N\n")


def dac_hash_len(tree, out, meta):
    """`DebugAuthenticationChallenge.get_rot_hash_length` with the database look-ups turned into Boolean parameters."""
    env = Env()
    cls = _cls(tree, "DebugAuthenticationChallenge")
    try:
        fn = copy.deepcopy(_fun(cls, "get_rot_hash_length"))
        body = []
        flags = []
        for s in fn.body:
            if isinstance(s, ast.Expr) and isinstance(s.value, ast.Constant):
                continue
            if isinstance(s, ast.Assign) and isinstance(s.value, ast.Call):
                src = ast.unparse(s.value)
                t = s.targets[0].id
                if src.startswith("get_db("):
                    continue
                if "dat_based_on_ele" in src or "get_bool" in src:
                    flags.append(t)
                    continue
            body.append(s)
        if sorted(flags) != ["based_on_ele", "dat_is_using_sha256_always"]:
            raise Untranslatable(f"unexpected database look-ups {flags}")
        text = _translate(fn, "dacRotHashLength", [("based_on_ele", "bool"), ("dat_is_using_sha256_always", "bool"),
                                                   ("major_ver", "int"), ("minor_ver", "int")], "int", body, env)
        meta["functions"]["dacRotHashLength"] = "translated"
    except (Untranslatable, AttributeError, IndexError, TypeError) as exc:
        text = (f"-- untranslatable ({exc})\ndef dacRotHashLength (based_on_ele : Bool) (dat_is_using_sha256_always : Bool) "
                "(major_ver : Int) (minor_ver : Int) : PyRes Int := .error .other\n")
        meta["functions"]["dacRotHashLength"] = f"untranslatable: {exc}"
    out.append(f"/-- translated from `{DAC}::DebugAuthenticationChallenge.get_rot_hash_length` (database flags as parameters) -/")
    out.append(text)


# ------------------------------------------------------------------------------------------------ database
def deep_update(d, u):
    for k, v in u.items():
        if isinstance(v, dict):
            d[k] = deep_update(d.get(k, {}), v)
        else:
            d[k] = v
    return d


class Db:
    """Replica of spsdk/utils/database.py Device.load / _load_alias restricted to the features in `keep`."""

    def __init__(self, keep):
        self.keep = keep
        self.root = REPO / "spsdk" / "data"
        self.defaults = yaml.safe_load((self.root / "common" / "database_defaults.yaml").read_text(encoding="utf-8"))
        self.cache = {}

    def names(self):
        return sorted(p.name for p in (self.root / "devices").iterdir() if (p / "database.yaml").exists())

    def _restrict(self, feats):
        return {k: v for k, v in (feats or {}).items() if k in self.keep}

    def load(self, name):
        if name in self.cache:
            return self.cache[name]
        cfg = yaml.safe_load((self.root / "devices" / name / "database.yaml").read_text(encoding="utf-8"))
        if cfg.get("alias"):
            base = self.load(cfg["alias"])
            dev = {"latest": cfg.get("latest", base["latest"]),
                   "revs": [{"name": r["name"], "is_latest": r["is_latest"], "features": copy.deepcopy(r["features"])} for r in base["revs"]]}
            feats = self._restrict(cfg.get("features", {}))
            if feats:
                for r in dev["revs"]:
                    deep_update(r["features"], copy.deepcopy(feats))
            for rev_name, upd in (cfg.get("revisions") or {}).items():
                upd = upd or {}
                rev = next((r for r in dev["revs"] if r["name"] == rev_name), None)
                if rev is None:
                    alias_rev = upd.get("alias")
                    if not alias_rev:
                        raise ValueError(f"{name}: new revision {rev_name} without alias")
                    src = next(r for r in dev["revs"] if (r["is_latest"] if alias_rev == "latest" else r["name"] == alias_rev))
                    rev = {"name": rev_name, "is_latest": dev["latest"] == rev_name, "features": copy.deepcopy(src["features"])}
                    dev["revs"].append(rev)
                rf = self._restrict(upd.get("features"))
                if rf:
                    deep_update(rev["features"], copy.deepcopy(rf))
        else:
            dev_features = self._restrict(cfg["features"])
            defaults = copy.deepcopy(self._restrict(self.defaults["features"]))
            for fname in dev_features:
                deep_update(defaults[fname], dev_features[fname])
                dev_features[fname] = defaults[fname]
            latest = cfg["latest"]
            dev = {"latest": latest, "revs": []}
            for rev_name, upd in cfg["revisions"].items():
                feats = copy.deepcopy(dev_features)
                rf = self._restrict((upd or {}).get("features"))
                if rf:
                    deep_update(feats, copy.deepcopy(rf))
                dev["revs"].append({"name": rev_name, "is_latest": rev_name == latest, "features": feats})
        self.cache[name] = dev
        return dev


def _to_int(v):
    if isinstance(v, bool):
        return int(v)
    if isinstance(v, int):
        return v
    if isinstance(v, str):
        return int(v.replace("_", ""), 0)
    raise ValueError(v)


def db_rows(meta):
    rows = []
    try:
        db = Db({"dat", "signing"})
        for name in db.names():
            try:
                dev = db.load(name)
            except Exception as exc:  # noqa: BLE001  (a broken device file must not stop the other rows)
                meta.setdefault("db_errors", []).append(f"{name}: {type(exc).__name__}: {exc}")
                continue
            revs = [(r["name"], r) for r in dev["revs"]]
            latest = next((r for r in dev["revs"] if r["is_latest"]), None)
            if latest is not None:
                revs.append(("latest", latest))
            for rev_name, r in revs:
                dat = r["features"].get("dat")
                if dat is None:
                    continue
                sg = r["features"].get("signing") or {}
                rows.append((name, rev_name, _to_int(dat.get("socc", 0)), bool(dat.get("based_on_ele", False)),
                             _to_int(dat.get("ele_cnt_version", 1)), bool(dat.get("dat_is_using_sha256_always", False)),
                             bool(dat.get("rot_not_part_of_dac", False)), bool(dat.get("rot_could_be_invalid", False)),
                             bool(dat.get("dac_version_is_swapped", False)), bool(sg.get("pss_padding", False))))
    except Exception as exc:  # noqa: BLE001
        meta.setdefault("db_errors", []).append(f"{type(exc).__name__}: {exc}")
    rows.sort(key=lambda t: (t[0], t[1]))
    return rows


def _b(x):
    return "true" if x else "false"


# ------------------------------------------------------------------------------------------------ EdgeLock v2
CERT = "spsdk/image/ahab/ahab_certificate.py"


def _strs(xs):
    return "[" + ", ".join('"%s"' % str(x).replace("\\", "\\\\").replace('"', "'") for x in xs) + "]"


def v2_section(tree, out, meta):
    """What the model of the v2 credential depends on (the byte widths come from C06's Generated/AhabConsts.certificateLayout)."""
    try:
        ctree = parse(CERT)
    except (OSError, SyntaxError) as exc:
        ctree = None
        meta.setdefault("errors", []).append(f"{CERT}: {exc}")
    cert = _cls(ctree, "AhabCertificate") if ctree else None
    # arguments of the pack(...) call of get_signature_data()
    args = []
    fn = _fun(cert, "get_signature_data")
    if fn is not None:
        for n in ast.walk(fn):
            if isinstance(n, ast.Call) and isinstance(n.func, ast.Name) and n.func.id == "pack":
                args = [ast.unparse(a) for a in n.args[1:]]
                break
    out.append(f"def certPackArgs : List String := {_strs(args)}  -- AhabCertificate.get_signature_data: pack(self.format(), ...)")
    # what follows the packed head in get_signature_data() and export()
    def tail_parts(fname):
        f = _fun(cert, fname)
        parts = []
        if f is None:
            return parts
        for st in f.body:
            if isinstance(st, ast.AugAssign) and isinstance(st.op, ast.Add):
                parts.append(ast.unparse(st.value))
            elif isinstance(st, ast.If):
                for st2 in st.body:
                    if isinstance(st2, ast.AugAssign) and isinstance(st2.op, ast.Add):
                        parts.append("if " + ast.unparse(st.test) + ": " + ast.unparse(st2.value))
        return parts
    out.append(f"def certSignedTail : List String := {_strs(tail_parts('get_signature_data'))}")
    out.append(f"def certExportTail : List String := {_strs(tail_parts('export'))}")
    # parse(): unpack targets resolved to the constructor keyword / `cert.attr = local` they feed
    fn = _fun(cert, "parse")
    targets = []
    if fn is not None:
        local_to = {}
        for n in ast.walk(fn):
            if isinstance(n, ast.Call) and isinstance(n.func, ast.Name) and n.func.id == "cls":
                for kw in n.keywords:
                    if isinstance(kw.value, ast.Name):
                        local_to.setdefault(kw.value.id, kw.arg)
            if isinstance(n, ast.Assign) and len(n.targets) == 1 and isinstance(n.targets[0], ast.Attribute) and isinstance(n.value, ast.Name) \
                    and isinstance(n.targets[0].value, ast.Name) and n.targets[0].value.id == "cert":
                local_to.setdefault(n.value.id, n.targets[0].attr)
        for n in ast.walk(fn):
            if isinstance(n, ast.Assign) and isinstance(n.value, ast.Call) and isinstance(n.value.func, ast.Name) and n.value.func.id == "unpack" \
                    and isinstance(n.targets[0], ast.Tuple):
                names = [e.id if isinstance(e, ast.Name) else "?" for e in n.targets[0].elts]
                for nm in names:
                    targets.append("_" if nm == "_" else local_to.get(nm, "local"))
                break
        else:
            names = []
        # the one check on a local that feeds nothing: `if <local> != ~<permissions local> & 0xFF`, locals renamed to their role
        role = {nm: ("«" + local_to[nm] + "»" if nm in local_to else "«local»") for nm in names if nm not in ("_", "?")}
        inv = []
        for n in ast.walk(fn):
            if isinstance(n, ast.If) and isinstance(n.test, ast.Compare) and any(isinstance(x, ast.Name) and role.get(x.id) == "«local»" for x in ast.walk(n.test)):
                t = copy.deepcopy(n.test)
                for x in ast.walk(t):
                    if isinstance(x, ast.Name) and x.id in role:
                        x.id = role[x.id]
                inv.append(ast.unparse(t))
    else:
        inv = []
    out.append(f"def certParseTargets : List String := {_strs(targets)}  -- AhabCertificate.parse: targets of unpack(image_format, ...) by the attribute they feed")
    out.append(f"def certInvertedCheck : List String := {_strs(inv)}")
    consts = {k: _class_const(cert, k) for k in ("PERMISSION_DATA_SIZE", "UUID_SIZE")}
    out.append(f"def certPermDataSize : Nat := {consts['PERMISSION_DATA_SIZE'] if isinstance(consts['PERMISSION_DATA_SIZE'], int) else 0}")
    out.append(f"def certUuidSize : Nat := {consts['UUID_SIZE'] if isinstance(consts['UUID_SIZE'], int) else 0}")
    perm_oem = _class_const(cert, "PERM_OEM")
    out.append(f"def certPermDebug : Nat := {perm_oem.get('debug', 0) if isinstance(perm_oem, dict) else 0}  -- PERM_OEM['debug']")
    # DebugCredentialEdgeLockEnclaveV2
    v2 = _cls(tree, "DebugCredentialEdgeLockEnclaveV2")
    init = _fun(v2, "__init__")
    socc_expr = "?"
    if init is not None:
        canon = Canon(init, {})
        for n in ast.walk(init):
            if isinstance(n, ast.Call) and ast.unparse(n.func) == "super().__init__":
                for kw in n.keywords:
                    if kw.arg == "socc":
                        socc_expr = canon.text(kw.value)
    out.append(f"def v2CtorSoccExpr : String := {_strs([socc_expr])[1:-1]}  -- DebugCredentialEdgeLockEnclaveV2.__init__: socc= argument of the base initializer")
    # permission data: pack("<LLL", socc, socu, 0) in create_from_yaml_config; positions read / written by the three properties
    cr = _fun(v2, "create_from_yaml_config")
    create = []
    if cr is not None:
        for n in ast.walk(cr):
            if isinstance(n, ast.Call) and isinstance(n.func, ast.Name) and n.func.id == "pack" and _lit(n.args[0]) == "<LLL":
                create = [ast.unparse(a) for a in n.args[1:]]
    out.append(f"def v2CreatePermData : List String := {_strs(create)}  -- create_from_yaml_config: pack('<LLL', ...)")
    props = []
    for st in (v2.body if v2 else []):
        if isinstance(st, ast.FunctionDef) and st.name in ("socc", "socu", "beacon"):
            setter = any(isinstance(d, ast.Attribute) and d.attr == "setter" for d in st.decorator_list)
            for n in ast.walk(st):
                if not setter and isinstance(n, ast.Assign) and isinstance(n.targets[0], ast.Tuple) and isinstance(n.value, ast.Call) \
                        and ast.unparse(n.value.func) == "unpack":
                    pos = [i for i, e in enumerate(n.targets[0].elts) if isinstance(e, ast.Name) and e.id != "_"]
                    props.append(f"{st.name}:get:{_lit(n.value.args[0])}:{pos}")
                if setter and isinstance(n, ast.Call) and isinstance(n.func, ast.Name) and n.func.id == "pack":
                    props.append(f"{st.name}:set:{_lit(n.args[0])}:" + ",".join(ast.unparse(a) for a in n.args[1:]))
    out.append(f"def v2PermProps : List String := {_strs(props)}")
    out.append("")


# ------------------------------------------------------------------------------------------------ main
def gen_DatConsts():
    del UNKNOWN_W[:]
    meta = {"functions": {}, "sources": [DC, DAC, DAR, "spsdk/data/devices/*/database.yaml"]}
    out = ["import SpsdkVerif.Base.Py", "import SpsdkVerif.Base.DatTypes", "", "namespace SpsdkVerif.Generated.DatConsts", "open SpsdkVerif", ""]
    tree = parse(DC)

    # ---- protocol versions
    pv = _cls(tree, "ProtocolVersion")
    versions = _class_const(pv, "VERSIONS") or []
    vpairs = []
    for v in versions:
        m = re.fullmatch(r"(\d+)\.(\d+)", str(v))
        if m:
            vpairs.append((int(m.group(1)), int(m.group(2))))
    out.append("def versions : List (Nat × Nat) := [" + ", ".join(f"({a}, {b})" for a, b in vpairs) + "]  -- ProtocolVersion.VERSIONS")
    meta["versions"] = versions
    fpk = _fun(pv, "from_public_key")
    bits = []
    if fpk is not None:
        for n in ast.walk(fpk):
            if isinstance(n, ast.Subscript) and isinstance(n.value, ast.Dict):
                bits.append(_lit(n.value))
    out.append(f"def rsaMinorOfBits : List (Nat × Nat) := {pairs(bits[0] if len(bits) > 0 else None)}  -- from_public_key (RSA)")
    out.append(f"def eccMinorOfBits : List (Nat × Nat) := {pairs(bits[1] if len(bits) > 1 else None)}  -- from_public_key (ECC)")

    # ---- credential classes
    rsa, ecc, ele = (_cls(tree, n) for n in ("DebugCredentialCertificateRsa", "DebugCredentialCertificateEcc", "DebugCredentialEdgeLockEnclave"))
    rbase, rsig, rdicts = data_format(rsa)
    out.append(f"def rsaKeySize : List (Nat × Nat) := {pairs(rdicts[0])}  -- get_data_format: width of the two key fields by version.minor")
    out.append(f"def rsaSigSize : List (Nat × Nat) := {pairs(rdicts[1])}  -- get_data_format: width of the signature field by version.minor")
    out.append(f"def rsaSizeIndexedByMinor : Bool := {_b(rdicts[0] is not None and rdicts[1] is not None)}")
    out.append(f"def eccCoordSize : List (Nat × Nat) := {pairs(_class_const(ecc, 'COORDINATE_SIZE'))}  -- DebugCredentialCertificateEcc.COORDINATE_SIZE")
    rme = _cls(tree, "RotMetaEcc")
    out.append(f"def eccHashBits : List (Nat × Nat) := {pairs(_class_const(rme, 'HASH_SIZES'))}  -- RotMetaEcc.HASH_SIZES (coordinate size -> SHA-2 width)")
    out.append("")

    def class_layout(pfx, cls, base_pieces, sig_pieces):
        full = _fields(base_pieces) + _fields(sig_pieces, "sig") if base_pieces is not None and sig_pieces is not None else [".unknown"]
        exp_args = pack_args(_fun(cls, "export")) or [".unknown"]
        sgn_args = pack_args(_fun(cls, "_get_data_to_sign")) or [".unknown"]
        out.append(f"def {pfx}Export : List (DatFld × DatArg) := {_zip(full, exp_args)}")
        out.append(f"def {pfx}Sign : List (DatFld × DatArg) := {_zip(_fields(base_pieces), sgn_args)}")
        meta[pfx + "_format"] = {"base": repr(base_pieces), "sig": repr(sig_pieces)}
        return full

    rfull = class_layout("rsa", rsa, rbase, rsig)
    ebase, esig, _ = data_format(ecc)
    class_layout("ecc", ecc, ebase, esig)
    lbase, lsig, _ = data_format(ele)
    class_layout("ele", ele, lbase, lsig)
    out.append("")

    # ---- parse side (locals resolved to the constructor attribute they feed: see `Canon`)
    rparse = _fun(rsa, "parse")
    calls = [c for c in unpack_calls(rparse, Canon(rparse, DC_KW)) if c[0] == ("method", "get_data_format")]
    rt = calls[0][1] if len(calls) == 1 else [".unknown"]
    out.append(f"def rsaParse : List (DatFld × DatArg) := {_zip(rfull, rt)}  -- unpack_from(cls.get_data_format(version), data) targets")
    out.append(f"def rsaParseFields : List DatArg := {ctor_fields(rparse, DC_KW)}  -- keywords of the returned cls(...) call")
    for pfx, cls in (("ecc", ecc), ("ele", ele)):
        fn = _fun(cls, "parse")
        calls = unpack_calls(fn, Canon(fn, DC_KW))
        (head, ht, _), (tail, tt, _) = calls if len(calls) == 2 and all(isinstance(c[0], list) for c in calls) else ((None, [".unknown"], 0),) * 2
        out.append(f"def {pfx}ParseHead : List (DatFld × DatArg) := {_zip(_fields(head), ht)}")
        out.append(f"def {pfx}ParseTail : List (DatFld × DatArg) := {_zip(_fields(tail), tt)}")
        out.append(f"def {pfx}ParseFields : List DatArg := {ctor_fields(fn, DC_KW)}")
        meta[pfx + "_parse"] = {"head": repr(head), "tail": repr(tail)}
    out.append("")

    # ---- RotMeta
    flags_functions(tree, out, meta)
    rmr = _cls(tree, "RotMetaRSA")
    size = count = item = 0
    fn = _fun(rmr, "export")
    if fn is not None:
        for n in ast.walk(fn):
            if isinstance(n, ast.Call) and isinstance(n.func, ast.Name) and n.func.id == "bytearray" and n.args and isinstance(_lit(n.args[0]), int):
                size = _lit(n.args[0])
    fn = _fun(rmr, "parse")
    items_p = set()
    min_len = 0
    if fn is not None:
        for n in ast.walk(fn):
            if isinstance(n, ast.Call) and isinstance(n.func, ast.Name) and n.func.id == "range" and len(n.args) == 2 and isinstance(_lit(n.args[1]), int):
                count = _lit(n.args[1])
            if isinstance(n, ast.BinOp) and isinstance(n.op, ast.Mult) and isinstance(_lit(n.right), int) and "index" in ast.unparse(n.left):
                items_p.add(_lit(n.right))
            if isinstance(n, ast.Compare) and ast.unparse(n.left) == "len(data)" and isinstance(n.ops[0], ast.Lt):
                min_len = _lit(n.comparators[0]) or 0
    items_e = set()
    fn = _fun(rmr, "export")
    if fn is not None:
        for n in ast.walk(fn):
            if isinstance(n, ast.BinOp) and isinstance(n.op, ast.Mult) and isinstance(_lit(n.right), int) and "index" in ast.unparse(n.left):
                items_e.add(_lit(n.right))
    if len(items_p) == 1 and items_p == items_e:
        item = items_p.pop()
    out.append(f"def rotMetaRsaSize : Nat := {size}  -- RotMetaRSA.export: bytearray(N)")
    out.append(f"def rotMetaRsaCount : Nat := {count}  -- RotMetaRSA.parse: range(0, N)")
    out.append(f"def rotMetaRsaItem : Nat := {item}  -- RotMetaRSA.export/parse: index * N slices (0 = export and parse disagree)")
    out.append(f"def rotMetaRsaMinLen : Nat := {min_len}  -- RotMetaRSA.parse: len(data) < N")
    mx = 0
    fn = _fun(rmr, "load_from_config")
    if fn is not None:
        for n in ast.walk(fn):
            if isinstance(n, ast.Compare) and "len(rot_pub_keys)" in ast.unparse(n.left) and isinstance(n.ops[0], ast.Gt):
                mx = _lit(n.comparators[0]) or 0
    out.append(f"def rotMetaRsaMaxKeys : Nat := {mx}  -- RotMetaRSA.load_from_config: len(rot_pub_keys) > N")
    # RotMetaEcc: width of one CRTK table item in parse(), hash width of calculate_hash(), label of the single-key fallback
    item_expr = hash_expr = fb_expr = "?"
    fn = _fun(rme, "parse")
    if fn is not None:
        assigns = {n.targets[0].id: n.value for n in ast.walk(fn)
                   if isinstance(n, ast.Assign) and len(n.targets) == 1 and isinstance(n.targets[0], ast.Name)}
        mults = set()
        for n in ast.walk(fn):
            if isinstance(n, ast.Slice) and n.lower is not None and isinstance(n.lower, ast.BinOp) and isinstance(n.lower.op, ast.Mult) \
                    and "rot_item_idx" in ast.unparse(n.lower.left):
                m = n.lower.right
                if isinstance(m, ast.Name) and m.id in assigns:
                    m = assigns[m.id]
                mults.add(ast.unparse(m))
        if len(mults) == 1:
            item_expr = mults.pop()
    ks = None
    for n in (rme.body if rme else []):
        if isinstance(n, ast.FunctionDef) and n.name == "key_size":
            ks = n
    if ks is not None:
        rets = [ast.unparse(n.value) for n in ast.walk(ks) if isinstance(n, ast.Return) and n.value is not None]
        if len(rets) == 1:
            hash_expr = rets[0]
    fn = _fun(rme, "calculate_hash")
    uses_key_size = fn is not None and any(isinstance(n, ast.JoinedStr) and ast.unparse(n) == "f'sha{self.key_size}'" for n in ast.walk(fn))
    fn = _fun(ecc, "calculate_hash")
    if fn is not None:
        assigns = {n.targets[0].id: n.value for n in ast.walk(fn)
                   if isinstance(n, ast.Assign) and len(n.targets) == 1 and isinstance(n.targets[0], ast.Name)}
        for n in ast.walk(fn):
            if isinstance(n, ast.JoinedStr) and len(n.values) == 2 and isinstance(n.values[0], ast.Constant) and n.values[0].value == "sha" \
                    and isinstance(n.values[1], ast.FormattedValue):
                v = n.values[1].value
                if isinstance(v, ast.Name) and v.id in assigns:
                    v = assigns[v.id]
                fb_expr = ast.unparse(v)
    out.append(f'def eccItemWidthExpr : String := "{item_expr}"  -- RotMetaEcc.parse: multiplier of rot_item_idx in the table slice')
    out.append(f'def eccTableHashBitsExpr : String := "{hash_expr if uses_key_size else "?"}"  -- RotMetaEcc.key_size, used as f"sha{{self.key_size}}" in calculate_hash')
    out.append(f'def eccSingleKeyHashBitsExpr : String := "{fb_expr}"  -- DebugCredentialCertificateEcc.calculate_hash fallback: f"sha{{...}}"')
    out.append("")

    # ---- DAC
    dtree = parse(DAC)
    dcls = _cls(dtree, "DebugAuthenticationChallenge")
    dparse = _fun(dcls, "parse")
    calls = unpack_calls(dparse, Canon(dparse, DAC_KW))
    (head, ht, _), (tail, tt, _) = calls if len(calls) == 2 and all(isinstance(c[0], list) for c in calls) else ((None, [".unknown"], 0),) * 2
    out.append(f"def dacHead : List (DatFld × DatArg) := {_zip(_fields(head), ht)}")
    out.append(f"def dacTail : List (DatFld × DatArg) := {_zip(_fields(tail), tt)}")
    meta["dac_parse"] = {"head": repr(head), "tail": repr(tail)}
    # export: sequence of `data = pack(fmt, *[a, b])` / `data += pack(fmt, x)` / `data += self.x`
    dexp = _fun(dcls, "export")
    items = []
    if dexp is not None:
        for s in dexp.body:
            v = s.value if isinstance(s, (ast.Assign, ast.AugAssign)) else None
            if v is None:
                continue
            if isinstance(v, ast.Call) and isinstance(v.func, ast.Name) and v.func.id == "pack":
                flds = _fields(_str_pieces(v.args[0]))
                args = []
                for a in v.args[1:]:
                    if isinstance(a, ast.Starred) and isinstance(a.value, (ast.List, ast.Tuple)):
                        args.extend(_arg(e) for e in a.value.elts)
                    else:
                        args.append(_arg(a))
                if len(flds) != len(args):
                    flds, args = [".unknown"], [".unknown"]
                items.extend(zip(flds, args))
            else:
                items.append((".raw", _arg(v)))
    out.append("def dacExport : List (DatFld × DatArg) := [" + ", ".join(f"({f}, {a})" for f, a in items) + "]")
    dac_hash_len(dtree, out, meta)
    out.append("")

    # ---- DAR
    rtree = parse(DAR)

    def concat_parts(cls, fname):
        fn = _fun(cls, fname)
        parts = []
        if fn is None:
            return None
        for s in fn.body:
            v = s.value if isinstance(s, (ast.Assign, ast.AugAssign)) else None
            if v is None:
                continue
            if isinstance(v, ast.Call) and isinstance(v.func, ast.Name) and v.func.id == "pack":
                flds = _fields(_str_pieces(v.args[0]))
                args = [_arg(a) for a in v.args[1:]]
                if len(flds) != len(args):
                    flds, args = [".unknown"], [".unknown"]
                parts.extend(zip(flds, args))
            elif isinstance(v, ast.Call) and ast.unparse(v) == "self._get_common_data()":
                parts.append((".raw", ".skip"))  # marker: the common part
            else:
                parts.append((".raw", _arg(v)))
        return parts

    def lst(parts):
        return "[" + ", ".join(f"({f}, {a})" for f, a in (parts or [(".unknown", ".unknown")])) + "]"

    base = _cls(rtree, "DebugAuthenticateResponse")
    eccr = _cls(rtree, "DebugAuthenticateResponseECC")
    out.append(f"def darCommonBase : List (DatFld × DatArg) := {lst(concat_parts(base, '_get_common_data'))}")
    out.append(f"def darCommonEcc : List (DatFld × DatArg) := {lst(concat_parts(eccr, '_get_common_data'))}")
    out.append(f"def darSignLayout : List (DatFld × DatArg) := {lst(concat_parts(base, '_get_data_for_signature'))}  -- (.raw, .skip) = _get_common_data()")
    out.append(f"def darExportLayout : List (DatFld × DatArg) := {lst(concat_parts(base, 'export'))}")
    # which methods the ECC response classes override (anything besides _get_common_data would escape the model)
    over = sorted(n.name for n in (eccr.body if eccr else []) if isinstance(n, ast.FunctionDef))
    out.append("def darEccOverrides : List String := [" + ", ".join(f'"{o}"' for o in over) + "]")
    # version -> class -> does it derive from DebugAuthenticateResponseECC
    classes = {n.name: n for n in rtree.body if isinstance(n, ast.ClassDef)}

    def derives_ecc(name, depth=0):
        if name == "DebugAuthenticateResponseECC":
            return True
        c = classes.get(name)
        if c is None or depth > 8:
            return False
        return any(isinstance(b, ast.Name) and derives_ecc(b.id, depth + 1) for b in c.bases)

    vm = []
    for n in rtree.body:
        if isinstance(n, ast.Assign) and len(n.targets) == 1 and isinstance(n.targets[0], ast.Name) and n.targets[0].id == "_version_mapping" \
                and isinstance(n.value, ast.Dict):
            for k, v in zip(n.value.keys, n.value.values):
                m = re.fullmatch(r"(\d+)\.(\d+)", str(_lit(k)))
                if m and isinstance(v, ast.Name):
                    extra = sorted(x.name for x in classes.get(v.id, ast.ClassDef(body=[])).body if isinstance(x, ast.FunctionDef))
                    vm.append((int(m.group(1)), int(m.group(2)), derives_ecc(v.id), v.id, extra))
    out.append("def darVersionUsesEcc : List ((Nat × Nat) × Bool) := [" + ", ".join(f"(({a}, {b}), {_b(e)})" for a, b, e, _, _ in vm) + "]  -- _version_mapping")
    out.append(f"def darLeafOverrides : Bool := {_b(any(x for *_, x in vm))}  -- a leaf response class defines methods of its own")
    meta["dar_version_mapping"] = {f"{a}.{b}": c for a, b, _, c, _ in vm}
    out.append("")

    # ---- what create_from_yaml_config refuses: tests of the `if <test>: raise ...` statements that follow the look-ups, with the locals
    # renamed to the keyword of the credential constructor call they are passed to («uuid», «dck_pub», «rot_pub», «version») and the
    # class variable that is called to «class»
    base = _cls(tree, "DebugCredentialCertificate")
    cfn = _fun(base, "create_from_yaml_config")
    refusals = []
    if cfn is not None:
        role = {}
        for n in ast.walk(cfn):
            if isinstance(n, ast.Call) and isinstance(n.func, ast.Name) and {"rot_meta", "dck_pub", "rot_pub"} <= {k.arg for k in n.keywords}:
                role[n.func.id] = "«class»"
                for kw in n.keywords:
                    if isinstance(kw.value, ast.Name):
                        role.setdefault(kw.value.id, "«%s»" % kw.arg)
        for st in cfn.body:
            if isinstance(st, ast.If) and st.body and isinstance(st.body[0], ast.Raise) and not st.orelse:
                t = copy.deepcopy(st.test)
                for x in ast.walk(t):
                    if isinstance(x, ast.Name) and x.id in role:
                        x.id = role[x.id]
                refusals.append(ast.unparse(t))
    out.append(f"def createRefusals : List String := {_strs(refusals)}  -- create_from_yaml_config: top-level `if <test>: raise`")
    out.append("")

    # ---- EdgeLock enclave v2 credential = AHAB certificate (spsdk/image/ahab/ahab_certificate.py) wrapped by DebugCredentialEdgeLockEnclaveV2
    v2_section(tree, out, meta)

    # ---- database
    rows = db_rows(meta)
    out.append("def rows : List DatRow := [")
    out.append(",\n".join(f'  ⟨"{f}", "{r}", {s}, {_b(e)}, {cv}, {_b(sh)}, {_b(np)}, {_b(ci)}, {_b(sw)}, {_b(pss)}⟩'
                          for f, r, s, e, cv, sh, np, ci, sw, pss in rows))
    out.append("]")
    meta["rows"] = len(rows)
    meta["families"] = sorted({r[0] for r in rows})
    out.append("")
    out.append("end SpsdkVerif.Generated.DatConsts")
    if UNKNOWN_W:
        meta["unknown_width_expressions"] = sorted(set(UNKNOWN_W))
    emit("DatConsts", "\n".join(out) + "\n", meta)


GENERATORS = {"DatConsts": gen_DatConsts}
