"""C09 generator: Generated/CrcTable.lean and Generated/SymConsts.lean from the CURRENT sources (pure `ast` reading).

CrcTable  : `CRC_ALGORITHMS` of spsdk/crypto/crc.py — one entry per algorithm (member name, label, polynomial,
            initial_value, final_xor, reverse).
SymConsts : * spsdk/image/keystore.py — the constant AES-ECB inputs of `KeyStore.derive_*`, the key lengths they check,
              the KeyStore size constants;
            * spsdk/crypto/symmetric.py — length of the default IV that `aes_cbc_encrypt/decrypt` and
              `sm4_cbc_encrypt/decrypt` substitute for a missing `iv_data`, and the IV bit-length they then require
              (evaluated with `algorithms.AES.block_size = algorithms.SM4.block_size = 128`, the value of the
              `cryptography` class attribute, which the harness re-checks against the live module);
            * spsdk/crypto/hkdf.py — the hash the HKDF wrapper fixes;
            * spsdk/crypto/hash.py — the members (name, tag, label) of `EnumHashAlgorithm`.
Sb31Kdf   : spsdk/sbfile/sb31/functions.py — `_get_key_derivation_data` EXECUTED by a tiny AST interpreter (ints, bytes,
            `int.to_bytes`, `bytes(n)`, `+`, `<<`, `if`/`raise`, conditional expressions, enum members) on the whole finite
            parameter domain (key_length 128/256/192, rights 0..4, both modes, iteration 1/2) x two derivation constants
            that expose every label byte position: a table of (arguments, 32 result bytes | refused).
A constant whose defining expression has a shape the small evaluator does not understand is emitted with the value
the hand model assumes and flagged `"fallback": true` in the meta file: then only the correspondence sweep and the
oracle watch it (never a false alarm for a harmless refactor).  Properties/C09.lean proves the emitted values equal
the documented ones, so a changed source constant stops a theorem from compiling.
"""
from __future__ import annotations

import ast

from extract import emit, parse

CRC = "spsdk/crypto/crc.py"
KS = "spsdk/image/keystore.py"
SYM = "spsdk/crypto/symmetric.py"
HKDF = "spsdk/crypto/hkdf.py"
HASH = "spsdk/crypto/hash.py"


class Unknown(Exception):
    pass


def ev(node, env):
    """Evaluate a constant expression over ints / bytes / lists; `env`: dotted name -> value."""
    if isinstance(node, ast.Constant) and isinstance(node.value, (int, bytes, bool)):
        return node.value
    if isinstance(node, ast.List):
        return [ev(e, env) for e in node.elts]
    if isinstance(node, (ast.Name, ast.Attribute)):
        d = dotted(node)
        if d in env:
            return env[d]
        raise Unknown(d or ast.dump(node))
    if isinstance(node, ast.BinOp):
        a, b = ev(node.left, env), ev(node.right, env)
        ops = {ast.Add: lambda: a + b, ast.Sub: lambda: a - b, ast.Mult: lambda: a * b, ast.FloorDiv: lambda: a // b,
               ast.LShift: lambda: a << b, ast.RShift: lambda: a >> b, ast.BitOr: lambda: a | b, ast.BitAnd: lambda: a & b}
        for k, f in ops.items():
            if isinstance(node.op, k):
                try:
                    return f()
                except Exception as exc:  # noqa: BLE001
                    raise Unknown(str(exc))
        raise Unknown(ast.dump(node.op))
    if isinstance(node, ast.Call) and isinstance(node.func, ast.Name) and node.func.id == "bytes" and not node.keywords:
        if not node.args:
            return b""
        if len(node.args) == 1:
            v = ev(node.args[0], env)
            if isinstance(v, bool):
                raise Unknown("bytes(bool)")
            if isinstance(v, int) and 0 <= v <= 1 << 16:
                return bytes(v)
            if isinstance(v, list) and all(isinstance(x, int) and 0 <= x < 256 for x in v):
                return bytes(v)
            if isinstance(v, bytes):
                return v
        raise Unknown("bytes(...)")
    if isinstance(node, ast.Call) and isinstance(node.func, ast.Name) and node.func.id == "len" and len(node.args) == 1:
        v = ev(node.args[0], env)
        return len(v)
    raise Unknown(type(node).__name__)


def dotted(node):
    if isinstance(node, ast.Name):
        return node.id
    if isinstance(node, ast.Attribute):
        b = dotted(node.value)
        return None if b is None else b + "." + node.attr
    return None


def find_class(tree, name):
    for n in ast.walk(tree):
        if isinstance(n, ast.ClassDef) and n.name == name:
            return n
    return None


def find_fun(node, name):
    for n in ast.walk(node):
        if isinstance(n, ast.FunctionDef) and n.name == name:
            return n
    return None


def lean_bytes(b: bytes) -> str:
    return "[" + ", ".join(str(x) for x in b) + "]"


# ---------------------------------------------------------------------------------------------- CRC table
def gen_crc_table() -> None:
    meta = {"source": CRC, "entries": {}}
    rows = []
    try:
        tree = parse(CRC)
        labels = {}
        enum = find_class(tree, "CrcAlg")
        if enum is not None:
            for st in enum.body:
                if isinstance(st, ast.Assign) and isinstance(st.value, ast.Tuple) and len(st.value.elts) >= 2:
                    try:
                        labels[st.targets[0].id] = str(ast.literal_eval(st.value.elts[1]))
                    except (ValueError, SyntaxError):
                        pass
        table = None
        for st in tree.body:
            tgt = st.targets[0] if isinstance(st, ast.Assign) else (st.target if isinstance(st, ast.AnnAssign) else None)
            if isinstance(tgt, ast.Name) and tgt.id == "CRC_ALGORITHMS" and isinstance(st.value, ast.Dict):
                table = st.value
        if table is None:
            raise Unknown("CRC_ALGORITHMS dict literal not found")
        fields = ["polynomial", "initial_value", "final_xor", "reverse"]
        for k, v in zip(table.keys, table.values):
            name = (dotted(k) or "?").split(".")[-1]
            if not (isinstance(v, ast.Call) and (dotted(v.func) or "").endswith("CrcConfig")):
                raise Unknown(f"entry {name} is not a CrcConfig(...) call")
            vals = {}
            for f, a in zip(fields, v.args):
                vals[f] = ev(a, {})
            for kw in v.keywords:
                vals[kw.arg] = ev(kw.value, {})
            if set(vals) != set(fields):
                raise Unknown(f"entry {name}: fields {sorted(vals)}")
            rows.append((name, labels.get(name, name.lower()), int(vals["polynomial"]), int(vals["initial_value"]),
                         int(vals["final_xor"]), bool(vals["reverse"])))
            meta["entries"][name] = {"label": labels.get(name), "polynomial": hex(vals["polynomial"]),
                                     "initial_value": hex(vals["initial_value"]), "final_xor": hex(vals["final_xor"]),
                                     "reverse": bool(vals["reverse"])}
    except (Unknown, OSError, SyntaxError) as exc:
        meta["error"] = str(exc)
        rows = []
    out = ["namespace SpsdkVerif.Generated.CrcTable", "",
           "/-- one row of `CRC_ALGORITHMS` (spsdk/crypto/crc.py): the arguments handed to `crcmod.mkCrcFun` -/",
           "structure CrcConfig where", "  polynomial : Nat", "  initialValue : Nat", "  finalXor : Nat", "  reverse : Bool",
           "  deriving DecidableEq, Repr", "",
           "/-- (enum member name, enum label, config) in source order -/",
           "def table : List (String × String × CrcConfig) := ["]
    out.append(",\n".join(f'  ("{n}", "{lab}", ⟨0x{p:X}, 0x{i:X}, 0x{x:X}, {"true" if r else "false"}⟩)'
                          for n, lab, p, i, x, r in rows))
    out += ["]", "", "end SpsdkVerif.Generated.CrcTable"]
    emit("CrcTable", "\n".join(out) + "\n", meta)


# ---------------------------------------------------------------------------------------------- symmetric constants
def _class_consts(cls):
    env = {}
    for st in cls.body:
        if isinstance(st, ast.Assign) and len(st.targets) == 1 and isinstance(st.targets[0], ast.Name):
            try:
                v = ev(st.value, env)
            except Unknown:
                continue
            env[st.targets[0].id] = v
            env[cls.name + "." + st.targets[0].id] = v
    return env


def _len_checks(fn, env):
    """[(param, n)] for every `if len(param) != n: raise` in source order."""
    out = []
    for n in ast.walk(fn):
        if isinstance(n, ast.Compare) and len(n.ops) == 1 and isinstance(n.ops[0], ast.NotEq) \
                and isinstance(n.left, ast.Call) and dotted(n.left.func) == "len" and isinstance(n.left.args[0], ast.Name):
            try:
                out.append((n.left.args[0].id, int(ev(n.comparators[0], env))))
            except Unknown:
                pass
    return out


def _ecb_input(fn, env):
    for n in ast.walk(fn):
        if isinstance(n, ast.Call) and (dotted(n.func) or "").endswith("aes_ecb_encrypt") and len(n.args) == 2:
            return ev(n.args[1], env)
    raise Unknown("no aes_ecb_encrypt(key, const) call")


def _default_iv(fn, env):
    """(default IV length, required IV bits) of a `*_cbc_*` wrapper, or Unknown."""
    dflt = bits = None
    for n in ast.walk(fn):
        if isinstance(n, ast.Assign) and isinstance(n.targets[0], ast.Name) and n.targets[0].id == "init_vector":
            v = n.value
            if isinstance(v, ast.BoolOp) and isinstance(v.op, ast.Or) and len(v.values) == 2:
                b = ev(v.values[1], env)
            elif isinstance(v, ast.IfExp):
                b = ev(v.orelse, env)
            else:
                raise Unknown("init_vector assignment shape")
            if not isinstance(b, bytes) or any(b):
                raise Unknown("default IV is not zero bytes")
            dflt = len(b)
        if isinstance(n, ast.Compare) and len(n.ops) == 1 and isinstance(n.ops[0], ast.NotEq) \
                and isinstance(n.left, ast.BinOp) and isinstance(n.left.op, ast.Mult) \
                and isinstance(n.left.left, ast.Call) and dotted(n.left.left.func) == "len" \
                and dotted(n.left.left.args[0]) == "init_vector":
            bits = int(ev(n.comparators[0], env))
            if int(ev(n.left.right, env)) != 8:
                raise Unknown("IV length factor")
    if dflt is None or bits is None:
        raise Unknown("default IV / IV check not found")
    return dflt, bits


def gen_sym_consts() -> None:
    meta = {"sources": [KS, SYM, HKDF], "values": {}, "fallback": {}}
    defs = []

    def put(name, ty, lean_val, shown, fallback_reason=None):
        defs.append(f"def {name} : {ty} := {lean_val}")
        meta["values"][name] = shown
        if fallback_reason:
            meta["fallback"][name] = fallback_reason

    # --- keystore
    ks_expect = {
        "derive_hmac_key": ("deriveHmacKeyInput", bytes(16), "hmacKeyLen", 32),
        "derive_enc_image_key": ("deriveEncImageKeyInput", bytes([1] + [0] * 15 + [2] + [0] * 15), "encImageMasterKeyLen", 32),
        "derive_sb_kek_key": ("deriveSbKekInput", bytes([3] + [0] * 15 + [4] + [0] * 15), "sbKekMasterKeyLen", 32),
    }
    try:
        tree = parse(KS)
        cls = find_class(tree, "KeyStore")
    except (OSError, SyntaxError):
        cls = None
    env = _class_consts(cls) if cls is not None else {}
    for cname, lname, dflt in (("KEY_STORE_SIZE", "keyStoreSize", 1424), ("SBKEK_SIZE", "sbkekSize", 32),
                               ("OTP_MASTER_KEY_SIZE", "otpMasterKeySize", 32), ("OTFAD_KEY_SIZE", "otfadKeySize", 16)):
        if isinstance(env.get(cname), int):
            put(lname, "Nat", str(env[cname]), env[cname])
        else:
            put(lname, "Nat", str(dflt), dflt, "class constant not found")
    for fname, (cn, cdflt, ln, ldflt) in ks_expect.items():
        fn = find_fun(cls, fname) if cls is not None else None
        try:
            if fn is None:
                raise Unknown("function not found")
            b = _ecb_input(fn, env)
            if not isinstance(b, bytes):
                raise Unknown("not bytes")
            put(cn, "List UInt8", lean_bytes(b), b.hex())
        except Unknown as exc:
            put(cn, "List UInt8", lean_bytes(cdflt), cdflt.hex(), str(exc))
        chk = _len_checks(fn, env) if fn is not None else []
        if len(chk) == 1:
            put(ln, "Nat", str(chk[0][1]), chk[0][1])
        else:
            put(ln, "Nat", str(ldflt), ldflt, f"length checks found: {chk}")
    fn = find_fun(cls, "derive_otfad_kek_key") if cls is not None else None
    chk = dict(_len_checks(fn, env)) if fn is not None else {}
    for p, ln, d in (("master_key", "otfadKekMasterKeyLen", 32), ("otfad_input", "otfadKekInputLen", 16)):
        if p in chk:
            put(ln, "Nat", str(chk[p]), chk[p])
        else:
            put(ln, "Nat", str(d), d, "length check not found")

    # --- symmetric.py default IVs
    senv = {"algorithms.AES.block_size": 128, "algorithms.SM4.block_size": 128}
    try:
        stree = parse(SYM)
    except (OSError, SyntaxError):
        stree = None
    for fname, lean in (("aes_cbc_encrypt", "aesCbcEnc"), ("aes_cbc_decrypt", "aesCbcDec"),
                        ("sm4_cbc_encrypt", "sm4CbcEnc"), ("sm4_cbc_decrypt", "sm4CbcDec")):
        fn = find_fun(stree, fname) if stree is not None else None
        try:
            if fn is None:
                raise Unknown("function not found")
            d, bits = _default_iv(fn, senv)
            put(lean + "DefaultIvLen", "Nat", str(d), d)
            put(lean + "IvBits", "Nat", str(bits), bits)
        except Unknown as exc:
            put(lean + "DefaultIvLen", "Nat", "16", 16, str(exc))
            put(lean + "IvBits", "Nat", "128", 128, str(exc))

    # --- hkdf.py: fixed hash
    alg = None
    try:
        htree = parse(HKDF)
        fn = find_fun(htree, "hkdf")
        for n in ast.walk(fn):
            if isinstance(n, ast.keyword) and n.arg == "algorithm" and isinstance(n.value, ast.Call):
                alg = (dotted(n.value.func) or "").split(".")[-1]
    except (OSError, SyntaxError, AttributeError):
        pass
    if alg in ("SHA1", "SHA256", "SHA384", "SHA512"):
        put("hkdfHashName", "String", f'"{alg.lower()}"', alg.lower())
    else:
        put("hkdfHashName", "String", '"sha256"', "sha256", f"algorithm keyword not recognised: {alg}")

    # --- hash.py: EnumHashAlgorithm members
    members = []
    try:
        enum = find_class(parse(HASH), "EnumHashAlgorithm")
        for st in (enum.body if enum is not None else []):
            if isinstance(st, ast.Assign) and isinstance(st.targets[0], ast.Name) and isinstance(st.value, ast.Tuple) and len(st.value.elts) >= 2:
                tag, label = ast.literal_eval(st.value.elts[0]), ast.literal_eval(st.value.elts[1])
                if isinstance(tag, int) and isinstance(label, str):
                    members.append((st.targets[0].id, tag, label))
    except (OSError, SyntaxError, ValueError):
        members = []
    put("hashEnum", "List (String × Nat × String)", "[" + ", ".join(f'("{n}", {t}, "{lab}")' for n, t, lab in members) + "]",
        [list(m) for m in members], None if members else "EnumHashAlgorithm not found")

    out = ["namespace SpsdkVerif.Generated.SymConsts", ""] + defs + ["", "end SpsdkVerif.Generated.SymConsts"]
    emit("SymConsts", "\n".join(out) + "\n", meta)


# ---------------------------------------------------------------------------------------------- tiny interpreter
class PyRaise(Exception):
    def __init__(self, cls):
        super().__init__(cls)
        self.cls = cls


class _Return(Exception):
    def __init__(self, v):
        self.v = v


def _to_bytes(v, length, byteorder):
    if not isinstance(v, int) or isinstance(v, bool) or not isinstance(length, int) or byteorder not in ("little", "big"):
        raise Unknown("to_bytes arguments")
    try:
        return v.to_bytes(length, byteorder)
    except OverflowError:
        raise PyRaise("OverflowError")


def iexpr(node, env):
    if isinstance(node, ast.Constant) and isinstance(node.value, (int, bytes, str, bool)):
        return node.value
    if isinstance(node, (ast.Name, ast.Attribute)):
        d = dotted(node)
        if d is not None and d in env:
            return env[d]
        raise Unknown("name " + str(d))
    if isinstance(node, ast.List) or isinstance(node, ast.Tuple):
        return [iexpr(e, env) for e in node.elts]
    if isinstance(node, ast.BinOp):
        a, b = iexpr(node.left, env), iexpr(node.right, env)
        for k, f in ((ast.Add, lambda: a + b), (ast.Sub, lambda: a - b), (ast.Mult, lambda: a * b), (ast.FloorDiv, lambda: a // b),
                     (ast.LShift, lambda: a << b), (ast.RShift, lambda: a >> b), (ast.BitOr, lambda: a | b), (ast.BitAnd, lambda: a & b)):
            if isinstance(node.op, k):
                if isinstance(a, bool) or isinstance(b, bool) or type(a) is not type(b) and not (isinstance(a, int) and isinstance(b, int)):
                    raise Unknown("operand types")
                return f()
        raise Unknown("operator")
    if isinstance(node, ast.Compare) and len(node.ops) == 1:
        a, b = iexpr(node.left, env), iexpr(node.comparators[0], env)
        op = node.ops[0]
        table = {ast.Eq: lambda: a == b, ast.NotEq: lambda: a != b, ast.Lt: lambda: a < b, ast.LtE: lambda: a <= b, ast.Gt: lambda: a > b,
                 ast.GtE: lambda: a >= b, ast.In: lambda: a in b, ast.NotIn: lambda: a not in b}
        for k, f in table.items():
            if isinstance(op, k):
                return f()
        raise Unknown("comparison")
    if isinstance(node, ast.BoolOp):
        vals = [iexpr(v, env) for v in node.values]
        return all(vals) if isinstance(node.op, ast.And) else any(vals)
    if isinstance(node, ast.UnaryOp) and isinstance(node.op, ast.Not):
        return not iexpr(node.operand, env)
    if isinstance(node, ast.IfExp):
        return iexpr(node.body, env) if iexpr(node.test, env) else iexpr(node.orelse, env)
    if isinstance(node, ast.Call):
        d = dotted(node.func)
        args = [iexpr(a, env) for a in node.args]
        kw = {k.arg: iexpr(k.value, env) for k in node.keywords}
        if d == "int.to_bytes":
            names = ["value", "length", "byteorder"]
            full = dict(zip(names, args))
            full.update(kw)
            return _to_bytes(full.get("value"), full.get("length"), full.get("byteorder"))
        if isinstance(node.func, ast.Attribute) and node.func.attr == "to_bytes":
            v = iexpr(node.func.value, env)
            full = dict(zip(["length", "byteorder"], args))
            full.update(kw)
            return _to_bytes(v, full.get("length"), full.get("byteorder"))
        if d == "bytes" and len(args) <= 1 and not kw:
            if not args:
                return b""
            if isinstance(args[0], int) and not isinstance(args[0], bool) and 0 <= args[0] <= 4096:
                return bytes(args[0])
            if isinstance(args[0], list):
                return bytes(args[0])
            raise Unknown("bytes(...)")
        if d == "len" and len(args) == 1:
            return len(args[0])
        raise Unknown("call " + str(d))
    raise Unknown(type(node).__name__)


def iblock(stmts, env):
    for st in stmts:
        if isinstance(st, ast.Expr) and isinstance(st.value, ast.Constant):
            continue
        if isinstance(st, ast.If):
            iblock(st.body if iexpr(st.test, env) else st.orelse, env)
        elif isinstance(st, ast.Raise):
            exc = st.exc.func if isinstance(st.exc, ast.Call) else st.exc
            raise PyRaise((dotted(exc) or "?").split(".")[-1])
        elif isinstance(st, ast.Assign) and len(st.targets) == 1 and isinstance(st.targets[0], ast.Name):
            env[st.targets[0].id] = iexpr(st.value, env)
        elif isinstance(st, ast.AnnAssign) and isinstance(st.target, ast.Name) and st.value is not None:
            env[st.target.id] = iexpr(st.value, env)
        elif isinstance(st, ast.AugAssign) and isinstance(st.target, ast.Name) and isinstance(st.op, ast.Add):
            env[st.target.id] = env[st.target.id] + iexpr(st.value, env)
        elif isinstance(st, ast.Return):
            raise _Return(iexpr(st.value, env))
        else:
            raise Unknown("statement " + type(st).__name__)


def icall(fn, kwargs, genv):
    env = dict(genv)
    env.update(kwargs)
    try:
        iblock(fn.body, env)
    except _Return as r:
        return ("ok", r.v)
    except PyRaise as r:
        return ("E:spsdk",) if r.cls.startswith("SPSDK") else ("E:other",)
    raise Unknown("no return")


SB31 = "spsdk/sbfile/sb31/functions.py"
KDF_CONSTS = (0, 0x0C0B0A090807060504030201)


def gen_sb31_kdf() -> None:
    meta = {"source": SB31 + "::_get_key_derivation_data", "rows": 0}
    rows = []
    try:
        tree = parse(SB31)
        fn = find_fun(tree, "_get_key_derivation_data")
        if fn is None:
            raise Unknown("function not found")
        params = [a.arg for a in fn.args.args]
        if sorted(params) != sorted(["derivation_constant", "kdk_access_rights", "mode", "key_length", "iteration"]):
            raise Unknown(f"parameters {params}")
        enum = find_class(tree, "KeyDerivationMode")
        members = [st.targets[0].id for st in (enum.body if enum else []) if isinstance(st, ast.Assign) and isinstance(st.targets[0], ast.Name)]
        if sorted(members) != ["BLK", "KDK"]:
            raise Unknown(f"KeyDerivationMode members {members}")
        genv = {"Endianness.LITTLE.value": "little", "Endianness.BIG.value": "big", "KeyDerivationMode": frozenset(members)}
        for m in members:
            genv["KeyDerivationMode." + m] = m
        for dc in KDF_CONSTS:
            for kl in (128, 256, 192):
                for rights in range(0, 5):
                    for mode in ("KDK", "BLK"):
                        for it in (1, 2):
                            r = icall(fn, dict(derivation_constant=dc, kdk_access_rights=rights, mode=mode, key_length=kl, iteration=it), genv)
                            if r[0] == "ok" and not isinstance(r[1], bytes):
                                raise Unknown("result is not bytes")
                            rows.append((dc, rights, mode == "KDK", kl, it, r))
        meta["rows"] = len(rows)
        meta["sample"] = {"args": "dc=0x0c0b0a090807060504030201 rights=3 BLK 256 it=2",
                          "bytes": next(r[5][1].hex() for r in rows if r[:5] == (KDF_CONSTS[1], 3, False, 256, 2))}
    except (Unknown, OSError, SyntaxError, KeyError, TypeError, StopIteration) as exc:
        meta["fallback"] = f"not interpretable ({exc}); empty table - correspondence and oracle only"
        rows = []
    out = ["namespace SpsdkVerif.Generated.Sb31Kdf", "",
           "/-- (derivation constant, access rights, mode is KDK, key length, iteration, result): `some bytes`, or `none` = SPSDKError -/",
           "def table : List (Nat × Nat × Bool × Nat × Nat × Option (List UInt8)) := ["]
    lines = []
    for dc, rights, kdk, kl, it, r in rows:
        if r[0] == "E:other":
            continue  # not reachable on this domain; the model's `.other` cases are swept by the harness
        val = "some " + lean_bytes(r[1]) if r[0] == "ok" else "none"
        lines.append(f"  ({dc}, {rights}, {'true' if kdk else 'false'}, {kl}, {it}, {val})")
    out.append(",\n".join(lines))
    out += ["]", "", "end SpsdkVerif.Generated.Sb31Kdf"]
    emit("Sb31Kdf", "\n".join(out) + "\n", meta)


GENERATORS = {"CrcTable": gen_crc_table, "SymConsts": gen_sym_consts, "Sb31Kdf": gen_sb31_kdf}
