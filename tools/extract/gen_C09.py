"""C09 generator: Generated/CrcTable.lean and Generated/SymConsts.lean from the CURRENT sources (pure `ast` reading).

CrcTable  : `CRC_ALGORITHMS` of spsdk/crypto/crc.py — one entry per algorithm (member name, label, polynomial,
            initial_value, final_xor, reverse).
SymConsts : * spsdk/image/keystore.py — the constant AES-ECB inputs of `KeyStore.derive_*`, the key lengths they check,
              the KeyStore size constants;
            * spsdk/crypto/symmetric.py — length of the default IV that `aes_cbc_encrypt/decrypt` and
              `sm4_cbc_encrypt/decrypt` substitute for a missing `iv_data`, and the IV bit-length they then require
              (evaluated with `algorithms.AES.block_size = algorithms.SM4.block_size = 128`, the value of the
              `cryptography` class attribute, which the harness re-checks against the live module);
            * spsdk/crypto/hkdf.py — the hash the HKDF wrapper fixes;
            * spsdk/crypto/hash.py — the members (name, tag, label) of `EnumHashAlgorithm`.
Sb31Kdf   : spsdk/sbfile/sb31/functions.py — `_get_key_derivation_data` EXECUTED by a tiny AST interpreter (ints, bytes,
            `int.to_bytes`, `bytes(n)`, `+`, `<<`, `if`/`raise`, conditional expressions, enum members) on the whole finite
            parameter domain (key_length 128/256/192, rights 0..4, both modes, iteration 1/2) x two derivation constants
            that expose every label byte position: a table of (arguments, 32 result bytes | refused).
A constant whose defining expression has a shape the small evaluator does not understand is emitted with the value
the hand model assumes and flagged `"fallback": true` in the meta file: then only the correspondence sweep and the
oracle watch it (never a false alarm for a harmless refactor).  Properties/C09.lean proves the emitted values equal
the documented ones, so a changed source constant stops a theorem from compiling.
"""
from __future__ import annotations

import ast

from consteval import ModuleEnv, NotConst
from extract import emit, parse

CRC = "spsdk/crypto/crc.py"
KS = "spsdk/image/keystore.py"
SYM = "spsdk/crypto/symmetric.py"
HKDF = "spsdk/crypto/hkdf.py"
HASH = "spsdk/crypto/hash.py"


class Unknown(Exception):
    pass


class _Subst(ast.NodeTransformer):
    """replace dotted names the module cannot know (attributes of imported library classes) by the constants the generator assumes"""

    def __init__(self, table):
        self.table = table

    def visit_Attribute(self, node):
        d = dotted(node)
        if d in self.table:
            return ast.copy_location(ast.Constant(self.table[d]), node)
        return self.generic_visit(node)


def ev(node, menv, cls=None, local=None, subst=None):
    """Evaluate a constant expression BY VALUE through tools/extract/consteval.py (module / class constants, arithmetic,
    every spelling of bytes); `subst`: dotted library attributes -> assumed value.  Raises Unknown when it is not a constant."""
    if subst:
        import copy
        node = ast.fix_missing_locations(_Subst(subst).visit(copy.deepcopy(node)))
    try:
        return menv.eval(node, cls=cls, local=local)
    except NotConst as exc:
        raise Unknown(str(exc))
    except RecursionError:
        raise Unknown("recursion")


def dotted(node):
    if isinstance(node, ast.Name):
        return node.id
    if isinstance(node, ast.Attribute):
        b = dotted(node.value)
        return None if b is None else b + "." + node.attr
    return None


def find_class(tree, name):
    for n in ast.walk(tree):
        if isinstance(n, ast.ClassDef) and n.name == name:
            return n
    return None


def find_fun(node, name):
    for n in ast.walk(node):
        if isinstance(n, ast.FunctionDef) and n.name == name:
            return n
    return None


def lean_bytes(b: bytes) -> str:
    return "[" + ", ".join(str(x) for x in b) + "]"


# ---------------------------------------------------------------------------------------------- CRC table
def gen_crc_table() -> None:
    meta = {"source": CRC, "entries": {}}
    rows = []
    try:
        tree = parse(CRC)
        menv = ModuleEnv(tree)
        labels = {}
        enum = find_class(tree, "CrcAlg")
        if enum is not None:
            for st in enum.body:
                if isinstance(st, ast.Assign) and isinstance(st.targets[0], ast.Name):
                    try:
                        v = ev(st.value, menv)
                    except Unknown:
                        continue
                    if isinstance(v, tuple) and len(v) >= 2 and isinstance(v[1], str):
                        labels[st.targets[0].id] = v[1]
        table = menv.nodes.get("CRC_ALGORITHMS")
        hops = 0
        while isinstance(table, ast.Name) and table.id in menv.nodes and hops < 4:   # alias of another module-level dict
            table, hops = menv.nodes[table.id], hops + 1
        if isinstance(table, ast.Call) and dotted(table.func) == "dict" and len(table.args) == 1 and not table.keywords:
            table = table.args[0]
        if isinstance(table, ast.Call) and isinstance(table.func, ast.Name) and not table.args and not table.keywords:
            # built by a module-level helper without arguments whose body is `return {...}`: inline it (one level)
            helper = next((st for st in tree.body if isinstance(st, ast.FunctionDef) and st.name == table.func.id), None)
            body = [st for st in (helper.body if helper else []) if not (isinstance(st, ast.Expr) and isinstance(st.value, ast.Constant))]
            if len(body) == 1 and isinstance(body[0], ast.Return) and body[0].value is not None:
                table = body[0].value
        if not isinstance(table, ast.Dict):
            raise Unknown("CRC_ALGORITHMS dict display not found")
        # field order of the CrcConfig dataclass (for positional arguments)
        cfg = find_class(tree, "CrcConfig")
        fields = [st.target.id for st in (cfg.body if cfg is not None else []) if isinstance(st, ast.AnnAssign) and isinstance(st.target, ast.Name)]
        want = ["polynomial", "initial_value", "final_xor", "reverse"]
        if sorted(fields) != sorted(want):
            raise Unknown(f"CrcConfig fields {fields}")
        for k, v in zip(table.keys, table.values):
            name = (dotted(k) or "?").split(".")[-1] if k is not None else "?"
            if isinstance(v, ast.Name) and v.id in menv.nodes:          # entry built beforehand: CRC32_CFG = CrcConfig(...)
                v = menv.nodes[v.id]
            if not (isinstance(v, ast.Call) and (dotted(v.func) or "").endswith("CrcConfig")):
                raise Unknown(f"entry {name} is not a CrcConfig(...) call")
            vals = {}
            for f, a in zip(fields, v.args):
                vals[f] = ev(a, menv)
            for kw in v.keywords:
                vals[kw.arg] = ev(kw.value, menv)
            if set(vals) != set(want) or not all(isinstance(vals[f], int) for f in want):
                raise Unknown(f"entry {name}: fields {sorted(vals)}")
            rows.append((name, labels.get(name, name.lower()), int(vals["polynomial"]), int(vals["initial_value"]),
                         int(vals["final_xor"]), bool(vals["reverse"])))
            meta["entries"][name] = {"label": labels.get(name), "polynomial": hex(vals["polynomial"]),
                                     "initial_value": hex(vals["initial_value"]), "final_xor": hex(vals["final_xor"]),
                                     "reverse": bool(vals["reverse"])}
    except (Unknown, OSError, SyntaxError) as exc:
        # opaque stand-in: an empty table makes `crc_table_standard` fail (broken obligation -> failing-input search), never exit 2
        meta["error"] = str(exc)
        meta["entries"] = {}
        rows = []
    out = ["namespace SpsdkVerif.Generated.CrcTable", "",
           "/-- one row of `CRC_ALGORITHMS` (spsdk/crypto/crc.py): the arguments handed to `crcmod.mkCrcFun` -/",
           "structure CrcConfig where", "  polynomial : Nat", "  initialValue : Nat", "  finalXor : Nat", "  reverse : Bool",
           "  deriving DecidableEq, Repr", "",
           "/-- (enum member name, enum label, config) in source order -/",
           "def table : List (String × String × CrcConfig) := ["]
    out.append(",\n".join(f'  ("{n}", "{lab}", ⟨0x{p:X}, 0x{i:X}, 0x{x:X}, {"true" if r else "false"}⟩)'
                          for n, lab, p, i, x, r in rows))
    out += ["]", "", "end SpsdkVerif.Generated.CrcTable"]
    emit("CrcTable", "\n".join(out) + "\n", meta)


# ---------------------------------------------------------------------------------------------- symmetric constants
def _len_cmp(n, menv, cls, subst=None):
    """`len(NAME) != E` / `E != len(NAME)` / `not len(NAME) == E`  ->  (NAME, value of E) or None"""
    neg = False
    if isinstance(n, ast.UnaryOp) and isinstance(n.op, ast.Not):
        n, neg = n.operand, True
    if not (isinstance(n, ast.Compare) and len(n.ops) == 1):
        return None
    if not ((isinstance(n.ops[0], ast.NotEq) and not neg) or (isinstance(n.ops[0], ast.Eq) and neg)):
        return None
    for lhs, rhs in ((n.left, n.comparators[0]), (n.comparators[0], n.left)):
        if isinstance(lhs, ast.Call) and dotted(lhs.func) == "len" and len(lhs.args) == 1 and isinstance(lhs.args[0], ast.Name):
            try:
                v = ev(rhs, menv, cls, subst=subst)
            except Unknown:
                return None
            if isinstance(v, int) and not isinstance(v, bool):
                return lhs.args[0].id, v
    return None


def _len_checks(fn, menv, cls):
    """[(param, n)] for every length test that guards a `raise`, in source order (any spelling of the bound)."""
    out = []
    for n in ast.walk(fn):
        if isinstance(n, ast.If) and any(isinstance(x, ast.Raise) for x in ast.walk(n)):
            tests = n.test.values if isinstance(n.test, ast.BoolOp) and isinstance(n.test.op, ast.Or) else [n.test]
            for t in tests:
                r = _len_cmp(t, menv, cls)
                if r is not None:
                    out.append(r)
    return out


def _ecb_input(fn, menv, cls):
    for n in ast.walk(fn):
        if isinstance(n, ast.Call) and (dotted(n.func) or "").endswith("aes_ecb_encrypt"):
            arg = n.args[1] if len(n.args) >= 2 else next((k.value for k in n.keywords if k.arg == "plain_data"), None)
            if arg is None:
                continue
            local = {}
            # a local alias assigned once from a constant expression (`data = KeyStore.X` then `aes_ecb_encrypt(key, data)`)
            if isinstance(arg, ast.Name):
                for st in ast.walk(fn):
                    if isinstance(st, ast.Assign) and len(st.targets) == 1 and isinstance(st.targets[0], ast.Name) and st.targets[0].id == arg.id:
                        arg = st.value
                        break
            return ev(arg, menv, cls, local=local)
    raise Unknown("no aes_ecb_encrypt(key, const) call")


def _default_iv(fn, menv, subst):
    """(default IV length, required IV bits) of a `*_cbc_*` wrapper, or Unknown."""
    dflt = bits = None
    for n in ast.walk(fn):
        if isinstance(n, ast.Assign) and isinstance(n.targets[0], ast.Name) and n.targets[0].id == "init_vector":
            v = n.value
            if isinstance(v, ast.BoolOp) and isinstance(v.op, ast.Or) and len(v.values) == 2:
                b = ev(v.values[1], menv, subst=subst)
            elif isinstance(v, ast.IfExp):
                b = ev(v.orelse, menv, subst=subst)
            else:
                raise Unknown("init_vector assignment shape")
            if not isinstance(b, (bytes, bytearray)) or any(b):
                raise Unknown("default IV is not zero bytes")
            dflt = len(b)
        if isinstance(n, ast.Compare) and len(n.ops) == 1 and isinstance(n.ops[0], ast.NotEq):
            for lhs, rhs in ((n.left, n.comparators[0]), (n.comparators[0], n.left)):
                if isinstance(lhs, ast.BinOp) and isinstance(lhs.op, ast.Mult):
                    for ln, fac in ((lhs.left, lhs.right), (lhs.right, lhs.left)):
                        if isinstance(ln, ast.Call) and dotted(ln.func) == "len" and ln.args and dotted(ln.args[0]) == "init_vector":
                            f, v = ev(fac, menv, subst=subst), ev(rhs, menv, subst=subst)
                            if isinstance(f, int) and isinstance(v, int) and f > 0 and v % f == 0:
                                bits = v // f * 8          # required length in bytes * 8
                elif isinstance(lhs, ast.Call) and dotted(lhs.func) == "len" and lhs.args and dotted(lhs.args[0]) == "init_vector":
                    v = ev(rhs, menv, subst=subst)
                    if isinstance(v, int):
                        bits = v * 8
    if dflt is None or bits is None:
        raise Unknown("default IV / IV check not found")
    return dflt, bits


def gen_sym_consts() -> None:
    meta = {"sources": [KS, SYM, HKDF], "values": {}, "fallback": {}}
    defs = []

    def put(name, ty, lean_val, shown, fallback_reason=None):
        defs.append(f"def {name} : {ty} := {lean_val}")
        meta["values"][name] = shown
        if fallback_reason:
            meta["fallback"][name] = fallback_reason

    # --- keystore
    ks_expect = {
        "derive_hmac_key": ("deriveHmacKeyInput", bytes(16), "hmacKeyLen", 32),
        "derive_enc_image_key": ("deriveEncImageKeyInput", bytes([1] + [0] * 15 + [2] + [0] * 15), "encImageMasterKeyLen", 32),
        "derive_sb_kek_key": ("deriveSbKekInput", bytes([3] + [0] * 15 + [4] + [0] * 15), "sbKekMasterKeyLen", 32),
    }
    try:
        tree = parse(KS)
        cls = find_class(tree, "KeyStore")
        kenv = ModuleEnv(tree)
    except (OSError, SyntaxError):
        cls, kenv = None, None
    for cname, lname, dflt in (("KEY_STORE_SIZE", "keyStoreSize", 1424), ("SBKEK_SIZE", "sbkekSize", 32),
                               ("OTP_MASTER_KEY_SIZE", "otpMasterKeySize", 32), ("OTFAD_KEY_SIZE", "otfadKeySize", 16)):
        try:
            if cls is None:
                raise Unknown("class KeyStore not found")
            v = kenv.cls("KeyStore").value(cname)
            if not isinstance(v, int) or isinstance(v, bool):
                raise Unknown("not an int")
            put(lname, "Nat", str(v), v)
        except (Unknown, NotConst) as exc:
            put(lname, "Nat", str(dflt), dflt, f"class constant not readable: {exc}")
    for fname, (cn, cdflt, ln, ldflt) in ks_expect.items():
        fn = find_fun(cls, fname) if cls is not None else None
        try:
            if fn is None:
                raise Unknown("function not found")
            b = _ecb_input(fn, kenv, "KeyStore")
            if not isinstance(b, (bytes, bytearray)):
                raise Unknown("not bytes")
            put(cn, "List UInt8", lean_bytes(bytes(b)), bytes(b).hex())
        except Unknown as exc:
            put(cn, "List UInt8", lean_bytes(cdflt), cdflt.hex(), str(exc))
        chk = _len_checks(fn, kenv, "KeyStore") if fn is not None else []
        if len(chk) == 1:
            put(ln, "Nat", str(chk[0][1]), chk[0][1])
        else:
            put(ln, "Nat", str(ldflt), ldflt, f"length checks found: {chk}")
    fn = find_fun(cls, "derive_otfad_kek_key") if cls is not None else None
    chk = dict(_len_checks(fn, kenv, "KeyStore")) if fn is not None else {}
    for p, ln, d in (("master_key", "otfadKekMasterKeyLen", 32), ("otfad_input", "otfadKekInputLen", 16)):
        if p in chk:
            put(ln, "Nat", str(chk[p]), chk[p])
        else:
            put(ln, "Nat", str(d), d, "length check not found")

    # --- symmetric.py default IVs (library class attributes are substituted by the values the harness re-checks live)
    subst = {"algorithms.AES.block_size": 128, "algorithms.SM4.block_size": 128}
    try:
        stree = parse(SYM)
        senv = ModuleEnv(stree)
    except (OSError, SyntaxError):
        stree, senv = None, None
    for fname, lean in (("aes_cbc_encrypt", "aesCbcEnc"), ("aes_cbc_decrypt", "aesCbcDec"),
                        ("sm4_cbc_encrypt", "sm4CbcEnc"), ("sm4_cbc_decrypt", "sm4CbcDec")):
        fn = find_fun(stree, fname) if stree is not None else None
        try:
            if fn is None:
                raise Unknown("function not found")
            d, bits = _default_iv(fn, senv, subst)
            put(lean + "DefaultIvLen", "Nat", str(d), d)
            put(lean + "IvBits", "Nat", str(bits), bits)
        except Unknown as exc:
            put(lean + "DefaultIvLen", "Nat", "16", 16, str(exc))
            put(lean + "IvBits", "Nat", "128", 128, str(exc))

    # --- hkdf.py: fixed hash
    alg = None
    try:
        htree = parse(HKDF)
        fn = find_fun(htree, "hkdf")
        for n in ast.walk(fn):
            if isinstance(n, ast.keyword) and n.arg == "algorithm" and isinstance(n.value, ast.Call):
                alg = (dotted(n.value.func) or "").split(".")[-1]
    except (OSError, SyntaxError, AttributeError):
        pass
    if alg in ("SHA1", "SHA256", "SHA384", "SHA512"):
        put("hkdfHashName", "String", f'"{alg.lower()}"', alg.lower())
    else:
        put("hkdfHashName", "String", '"sha256"', "sha256", f"algorithm keyword not recognised: {alg}")

    # --- hash.py: EnumHashAlgorithm members
    members = []
    try:
        htree2 = parse(HASH)
        henv = ModuleEnv(htree2)
        enum = find_class(htree2, "EnumHashAlgorithm")
        for st in (enum.body if enum is not None else []):
            if isinstance(st, ast.Assign) and isinstance(st.targets[0], ast.Name):
                try:
                    v = ev(st.value, henv, "EnumHashAlgorithm")
                except Unknown:
                    continue
                if isinstance(v, tuple) and len(v) >= 2 and isinstance(v[0], int) and isinstance(v[1], str):
                    members.append((st.targets[0].id, v[0], v[1]))
    except (OSError, SyntaxError):
        members = []
    put("hashEnum", "List (String × Nat × String)", "[" + ", ".join(f'("{n}", {t}, "{lab}")' for n, t, lab in members) + "]",
        [list(m) for m in members], None if members else "EnumHashAlgorithm not found")

    out = ["namespace SpsdkVerif.Generated.SymConsts", ""] + defs + ["", "end SpsdkVerif.Generated.SymConsts"]
    emit("SymConsts", "\n".join(out) + "\n", meta)


# ---------------------------------------------------------------------------------------------- tiny interpreter
class PyRaise(Exception):
    def __init__(self, cls):
        super().__init__(cls)
        self.cls = cls


class _Return(Exception):
    def __init__(self, v):
        self.v = v


def _to_bytes(v, length, byteorder):
    if not isinstance(v, int) or isinstance(v, bool) or not isinstance(length, int) or byteorder not in ("little", "big"):
        raise Unknown("to_bytes arguments")
    try:
        return v.to_bytes(length, byteorder)
    except OverflowError:
        raise PyRaise("OverflowError")


def iexpr(node, env):
    if isinstance(node, ast.Constant) and isinstance(node.value, (int, bytes, str, bool)):
        return node.value
    if isinstance(node, (ast.Name, ast.Attribute)):
        d = dotted(node)
        if d is not None and d in env:
            return env[d]
        return _delegate(node, env)          # module / class constant, by value
    if isinstance(node, ast.List) or isinstance(node, ast.Tuple):
        return [iexpr(e, env) for e in node.elts]
    if isinstance(node, ast.BinOp):
        a, b = iexpr(node.left, env), iexpr(node.right, env)
        for k, f in ((ast.Add, lambda: a + b), (ast.Sub, lambda: a - b), (ast.Mult, lambda: a * b), (ast.FloorDiv, lambda: a // b),
                     (ast.LShift, lambda: a << b), (ast.RShift, lambda: a >> b), (ast.BitOr, lambda: a | b), (ast.BitAnd, lambda: a & b)):
            if isinstance(node.op, k):
                if isinstance(a, bool) or isinstance(b, bool) or type(a) is not type(b) and not (isinstance(a, int) and isinstance(b, int)):
                    raise Unknown("operand types")
                return f()
        raise Unknown("operator")
    if isinstance(node, ast.Compare) and len(node.ops) == 1:
        a, b = iexpr(node.left, env), iexpr(node.comparators[0], env)
        op = node.ops[0]
        table = {ast.Eq: lambda: a == b, ast.NotEq: lambda: a != b, ast.Lt: lambda: a < b, ast.LtE: lambda: a <= b, ast.Gt: lambda: a > b,
                 ast.GtE: lambda: a >= b, ast.In: lambda: a in b, ast.NotIn: lambda: a not in b,
                 ast.Is: lambda: a == b, ast.IsNot: lambda: a != b}      # enum members / None: identity = equality here
        for k, f in table.items():
            if isinstance(op, k):
                return f()
        raise Unknown("comparison")
    if isinstance(node, ast.BoolOp):
        vals = [iexpr(v, env) for v in node.values]
        return all(vals) if isinstance(node.op, ast.And) else any(vals)
    if isinstance(node, ast.UnaryOp) and isinstance(node.op, ast.Not):
        return not iexpr(node.operand, env)
    if isinstance(node, ast.IfExp):
        return iexpr(node.body, env) if iexpr(node.test, env) else iexpr(node.orelse, env)
    if isinstance(node, ast.Call):
        d = dotted(node.func)
        args = [iexpr(a, env) for a in node.args]
        kw = {k.arg: iexpr(k.value, env) for k in node.keywords}
        if d == "int.to_bytes":
            names = ["value", "length", "byteorder"]
            full = dict(zip(names, args))
            full.update(kw)
            return _to_bytes(full.get("value"), full.get("length"), full.get("byteorder"))
        if isinstance(node.func, ast.Attribute) and node.func.attr == "to_bytes":
            v = iexpr(node.func.value, env)
            full = dict(zip(["length", "byteorder"], args))
            full.update(kw)
            return _to_bytes(v, full.get("length"), full.get("byteorder"))
        if d == "bytes" and len(args) <= 1 and not kw:
            if not args:
                return b""
            if isinstance(args[0], int) and not isinstance(args[0], bool) and 0 <= args[0] <= 4096:
                return bytes(args[0])
            if isinstance(args[0], list):
                return bytes(args[0])
            raise Unknown("bytes(...)")
        if d == "len" and len(args) == 1:
            return len(args[0])
        return _delegate(node, env)
    return _delegate(node, env)


def _delegate(node, env):
    """anything the little interpreter does not know: try to evaluate it as a constant expression over the current locals"""
    menv = env.get("__menv__")
    if menv is None:
        raise Unknown(type(node).__name__)
    local = {k: v for k, v in env.items() if isinstance(k, str) and k.isidentifier()}
    try:
        return menv.eval(node, local=local)
    except NotConst as exc:
        raise Unknown(str(exc))


def iblock(stmts, env):
    for st in stmts:
        if isinstance(st, ast.Pass) or (isinstance(st, ast.Expr) and isinstance(st.value, ast.Constant)):
            continue
        if isinstance(st, ast.If):
            iblock(st.body if iexpr(st.test, env) else st.orelse, env)
        elif isinstance(st, ast.Raise):
            exc = st.exc.func if isinstance(st.exc, ast.Call) else st.exc
            raise PyRaise((dotted(exc) or "?").split(".")[-1])
        elif isinstance(st, ast.Assign) and len(st.targets) == 1 and isinstance(st.targets[0], ast.Name):
            env[st.targets[0].id] = iexpr(st.value, env)
        elif isinstance(st, ast.AnnAssign) and isinstance(st.target, ast.Name) and st.value is not None:
            env[st.target.id] = iexpr(st.value, env)
        elif isinstance(st, ast.AugAssign) and isinstance(st.target, ast.Name) and isinstance(st.op, ast.Add):
            env[st.target.id] = env[st.target.id] + iexpr(st.value, env)
        elif isinstance(st, ast.Return):
            raise _Return(iexpr(st.value, env))
        else:
            raise Unknown("statement " + type(st).__name__)


def icall(fn, kwargs, genv):
    env = dict(genv)
    env.update(kwargs)
    try:
        iblock(fn.body, env)
    except _Return as r:
        return ("ok", r.v)
    except PyRaise as r:
        return ("E:spsdk",) if r.cls.startswith("SPSDK") else ("E:other",)
    raise Unknown("no return")


SB31 = "spsdk/sbfile/sb31/functions.py"
KDF_CONSTS = (0, 0x0C0B0A090807060504030201)


def gen_sb31_kdf() -> None:
    meta = {"source": SB31 + "::_get_key_derivation_data", "rows": 0}
    rows = []
    try:
        tree = parse(SB31)
        fn = find_fun(tree, "_get_key_derivation_data")
        if fn is None:
            raise Unknown("function not found")
        params = [a.arg for a in fn.args.args]
        if sorted(params) != sorted(["derivation_constant", "kdk_access_rights", "mode", "key_length", "iteration"]):
            raise Unknown(f"parameters {params}")
        enum = find_class(tree, "KeyDerivationMode")
        members = [st.targets[0].id for st in (enum.body if enum else []) if isinstance(st, ast.Assign) and isinstance(st.targets[0], ast.Name)]
        if sorted(members) != ["BLK", "KDK"]:
            raise Unknown(f"KeyDerivationMode members {members}")
        genv = {"Endianness.LITTLE.value": "little", "Endianness.BIG.value": "big", "KeyDerivationMode": frozenset(members),
                "__menv__": ModuleEnv(tree)}
        for m in members:
            genv["KeyDerivationMode." + m] = m
        for dc in KDF_CONSTS:
            for kl in (128, 256, 192):
                for rights in range(0, 5):
                    for mode in ("KDK", "BLK"):
                        for it in (1, 2):
                            r = icall(fn, dict(derivation_constant=dc, kdk_access_rights=rights, mode=mode, key_length=kl, iteration=it), genv)
                            if r[0] == "ok" and not isinstance(r[1], bytes):
                                raise Unknown("result is not bytes")
                            rows.append((dc, rights, mode == "KDK", kl, it, r))
        meta["rows"] = len(rows)
        meta["sample"] = {"args": "dc=0x0c0b0a090807060504030201 rights=3 BLK 256 it=2",
                          "bytes": next(r[5][1].hex() for r in rows if r[:5] == (KDF_CONSTS[1], 3, False, 256, 2))}
    except (Unknown, OSError, SyntaxError, KeyError, TypeError, StopIteration) as exc:
        meta["fallback"] = f"not interpretable ({exc}); empty table - correspondence and oracle only"
        rows = []
    out = ["namespace SpsdkVerif.Generated.Sb31Kdf", "",
           "/-- (derivation constant, access rights, mode is KDK, key length, iteration, result): `some bytes`, or `none` = SPSDKError -/",
           "def table : List (Nat × Nat × Bool × Nat × Nat × Option (List UInt8)) := ["]
    lines = []
    for dc, rights, kdk, kl, it, r in rows:
        if r[0] == "E:other":
            continue  # not reachable on this domain; the model's `.other` cases are swept by the harness
        val = "some " + lean_bytes(r[1]) if r[0] == "ok" else "none"
        lines.append(f"  ({dc}, {rights}, {'true' if kdk else 'false'}, {kl}, {it}, {val})")
    out.append(",\n".join(lines))
    out += ["]", "", "end SpsdkVerif.Generated.Sb31Kdf"]
    emit("Sb31Kdf", "\n".join(out) + "\n", meta)


# ---------------------------------------------------------------------------------------------- Counter constants (phase 3)
def gen_counter_consts() -> None:
    """spsdk/crypto/symmetric.py `Counter`: required nonce length, bytes kept as nonce, size of the counter word, the mask applied
    to `_ctr` in `.value`, default increment, default byte order — each read BY VALUE at its use site; a shape the reader does not
    recognise falls back to the modelled value (flagged in the meta file, then only correspondence + oracle watch it)."""
    meta = {"source": SYM + "::Counter", "values": {}, "fallback": {}}
    model = {"nonceLen": 16, "nonceKeep": 12, "wordBytes": 4, "wordMask": 0xFFFFFFFF, "defaultIncrement": 1, "defaultLittle": True}
    got = {}
    try:
        tree = parse(SYM)
        menv = ModuleEnv(tree)
        cls = find_class(tree, "Counter")
        init, inc, val = find_fun(cls, "__init__"), find_fun(cls, "increment"), find_fun(cls, "value")
    except (OSError, SyntaxError, AttributeError, TypeError):
        cls = init = inc = val = None

    def attempt(name, f):
        try:
            v = f()
            if isinstance(v, bool) != isinstance(model[name], bool) or not isinstance(v, int):
                raise Unknown("not an integer constant")
            got[name] = v
        except (Unknown, AttributeError, TypeError, IndexError, StopIteration, ValueError) as exc:
            got[name] = model[name]
            meta["fallback"][name] = f"shape not recognised ({exc}); modelled value emitted"

    def nonce_len():
        for n in ast.walk(init):
            if isinstance(n, ast.Compare) and len(n.ops) == 1 and isinstance(n.ops[0], (ast.Eq, ast.NotEq)):
                for a, b in ((n.left, n.comparators[0]), (n.comparators[0], n.left)):
                    if isinstance(a, ast.Call) and dotted(a.func) == "len" and dotted(a.args[0]) == "nonce":
                        return ev(b, menv, cls=cls)
        raise Unknown("no `len(nonce) == N` test")

    def nonce_keep():
        n_len = got.get("nonceLen", 16)
        for st in ast.walk(init):
            if isinstance(st, ast.Assign) and dotted(st.targets[0]) == "self._nonce" and isinstance(st.value, ast.Subscript) \
                    and dotted(st.value.value) == "nonce" and isinstance(st.value.slice, ast.Slice) and st.value.slice.lower is None \
                    and st.value.slice.step is None:
                k = ev(st.value.slice.upper, menv, cls=cls)
                return k if k >= 0 else n_len + k
        raise Unknown("no `self._nonce = nonce[:K]`")

    def to_bytes_call():
        for n in ast.walk(val):
            if isinstance(n, ast.Call) and isinstance(n.func, ast.Attribute) and n.func.attr == "to_bytes":
                return n
        raise Unknown("no to_bytes call in value")

    def word_bytes():
        c = to_bytes_call()
        arg = c.args[0] if c.args else next(k.value for k in c.keywords if k.arg == "length")
        return ev(arg, menv, cls=cls)

    def word_mask():
        recv = to_bytes_call().func.value
        if isinstance(recv, ast.BinOp) and isinstance(recv.op, ast.BitAnd):
            for a, b in ((recv.left, recv.right), (recv.right, recv.left)):
                if dotted(a) == "self._ctr":
                    return ev(b, menv, cls=cls)
        if isinstance(recv, ast.BinOp) and isinstance(recv.op, ast.Mod) and dotted(recv.left) == "self._ctr":
            return ev(recv.right, menv, cls=cls) - 1         # `% 2**32` is the same residue for Python ints
        raise Unknown("counter word is not `self._ctr & MASK`")

    def default_increment():
        args = inc.args
        names = [a.arg for a in args.args]
        i = names.index("value") - (len(names) - len(args.defaults))
        if i < 0:
            raise Unknown("increment(value) has no default")
        return ev(args.defaults[i], menv, cls=cls)

    def default_little():
        args = init.args
        names = [a.arg for a in args.args]
        i = names.index("ctr_byteorder_encoding") - (len(names) - len(args.defaults))
        d = dotted(args.defaults[i]) if i >= 0 else None
        if d in ("Endianness.LITTLE", "Endianness.BIG"):
            return d.endswith("LITTLE")
        raise Unknown("default byte order is not an Endianness member")

    for name, f in (("nonceLen", nonce_len), ("nonceKeep", nonce_keep), ("wordBytes", word_bytes), ("wordMask", word_mask),
                    ("defaultIncrement", default_increment), ("defaultLittle", default_little)):
        attempt(name, f)
    out = ["namespace SpsdkVerif.Generated.CounterConsts", "",
           "/-- constants of `Counter` (spsdk/crypto/symmetric.py), read from the source -/"]
    for name in model:
        v = got[name]
        if isinstance(v, bool):
            out.append(f"def {name} : Bool := {'true' if v else 'false'}")
        else:
            out.append(f"def {name} : Int := {v}" if v < 0 else f"def {name} : Int := {v}")
        meta["values"][name] = v
    out += ["", "end SpsdkVerif.Generated.CounterConsts"]
    emit("CounterConsts", "\n".join(out) + "\n", meta)


GENERATORS = {"CrcTable": gen_crc_table, "SymConsts": gen_sym_consts, "Sb31Kdf": gen_sb31_kdf, "CounterConsts": gen_counter_consts}
