"""C05 generator: Generated/Sb31Consts.lean from the CURRENT SB3.1 sources (pure `ast` reading, never imports spsdk).

Principles (tools/ROBUSTNESS_BRIEF.md):
  * every constant is read BY VALUE at its use site through tools/extract/consteval.py (a literal, a module constant, a class constant,
    `self.X`, arithmetic, `calcsize(FORMAT)` ... give the same output); struct formats are emitted as normalised field-width lists;
    tables the code only indexes are emitted sorted by key;
  * small functions over a FINITE domain (block size / certificate block offset per hash length, key length per hash, hash per signature
    length, image type, accepted access rights / key lengths, the CMAC iterations `_derive_key` performs per key length) are EXECUTED by a
    tiny concrete interpreter (`Interp`: assignments, if/else and early returns, for-loops over ranges and lists, comprehensions,
    functools.partial, calls of functions of the same module, injected stubs) and emitted as value tables / if-chains -- independent of
    the shape of the body;
  * only two functions need a SYMBOLIC translation because the theorems quantify over unbounded arguments:
      - `updTotalLength old h cert` (SecureBinary31Header.update: the value of image_total_length after an export as a function of its OLD
        value -- an accumulating `+=` shows up here and breaks the history theorem),
      - `kdfData` (_get_key_derivation_data: straight-line bytes building over an arbitrary derivation constant / iteration);
    their translators resolve every name by value and the Lean proofs normalise both sides (omega / case split + simp), so regrouping,
    renamed locals, constants moved into names, flipped conditionals do not matter.  Anything the translators do not recognise becomes a
    sentinel (999999 / `[]`) -- never a silently "right" value -- and is listed in the meta json (then a theorem breaks and the check
    reports `no-failing-input-found` unless the oracle finds an input);
  * `chainStartHash old h`: value of `final_hash` when the first block of an export is processed (`zeros h` iff export /
    SecureBinary31Commands.export / process_cmd_blocks_to_export -- or a same-class helper they call, inlined one level -- resets it
    before `_process_block` runs).
"""
from __future__ import annotations

import ast
import types

from consteval import ModuleEnv, NotConst, struct_fields
from extract import emit, parse

IMG = "spsdk/sbfile/sb31/images.py"
CMD = "spsdk/sbfile/sb31/commands.py"
FUN = "spsdk/sbfile/sb31/functions.py"
CON = "spsdk/sbfile/sb31/constants.py"

BAD = 999999
# Sentinel for constants the model uses as a SIZE (alignment, chunk length, tail / description / header length): an unreadable size must make
# the model wrong but CHEAP -- 999999 as an alignment made every load-type command 1 MB long and the native model took hours (seeded change
# C05d: `align_block(data, 16)` replaced by hand-written padding).  0 is never a right value for any of them (the agreement theorems fail).
BADSIZE = 0
_SIZE = {"x": 1, "c": 1, "b": 1, "B": 1, "?": 1, "h": 2, "H": 2, "i": 4, "I": 4, "l": 4, "L": 4, "q": 8, "Q": 8}
HASHLEN = {"SHA1": 20, "SHA256": 32, "SHA384": 48, "SHA512": 64, "MD5": 16, "SM3": 32}
# hash algorithms are represented by their digest length, byte orders by their names
EXTERNALS = {"EnumHashAlgorithm": types.SimpleNamespace(**HASHLEN),
             "Endianness": types.SimpleNamespace(LITTLE=types.SimpleNamespace(value="little"), BIG=types.SimpleNamespace(value="big"))}


class Untr(Exception):
    pass


def _cls(tree, name):
    for n in ast.walk(tree):
        if isinstance(n, ast.ClassDef) and n.name == name:
            return n
    return None


def _fun(node, name):
    if node is None:
        return None
    for n in getattr(node, "body", []):
        if isinstance(n, (ast.FunctionDef, ast.AsyncFunctionDef)) and n.name == name:
            return n
    return None


def _doc(st):
    return isinstance(st, ast.Expr) and isinstance(st.value, ast.Constant) and isinstance(st.value.value, str)


def widths_of(fmt):
    """'<4s2H3LQ4L16s' / '<4sHHLLLQLLLL16s' -> (little?, [4,2,2,4,4,4,8,4,4,4,4,16]); `{}`-interpolated byte counts become 0."""
    if not isinstance(fmt, str):
        return None
    try:
        order, fields = struct_fields(fmt.replace("{}", "0"))
    except (NotConst, ValueError):
        return None
    if order not in "<>=":
        return None
    return order == "<", [n if c in "sp" else _SIZE.get(c, BAD) for c, n in fields]


# ---------------------------------------------------------------------------------------------------
# concrete interpreter for small functions
class PyRaise(Exception):
    def __init__(self, cls):
        super().__init__(cls)
        self.cls = cls


_BUSY = object()


class _Ret(Exception):
    def __init__(self, v):
        self.v = v


class Interp:
    """Executes function bodies on concrete values.  Names: locals -> class constants -> module constants (consteval) -> `externals`
    (callables / namespaces supplied by the generator).  Unknown constructs raise Untr."""

    def __init__(self, tree, externals=None, cls=None):
        self.tree, self.env, self.cls = tree, ModuleEnv(tree), cls
        self.ext = dict(EXTERNALS)
        self.ext.update(externals or {})
        self.funs = {n.name: n for n in tree.body if isinstance(n, ast.FunctionDef)}
        self.depth = 0
        self._consts = {}

    # -------- constants of the module / of a class (inherited through bases of the same module), evaluated HERE so that they may
    #          mention the generator's externals (EnumHashAlgorithm.X, Endianness.X.value ...)
    def class_const(self, cname, attr, seen=()):
        c = self.env.classes.get(cname)
        if c is None or cname in seen:
            return None
        if attr in c.nodes:
            return (cname, c.nodes[attr])
        for b in c.node.bases:
            if isinstance(b, ast.Name):
                r = self.class_const(b.id, attr, seen + (cname,))
                if r is not None:
                    return r
        return None

    def const_value(self, cname, node):
        key = (cname, id(node))
        if key in self._consts:
            if self._consts[key] is _BUSY:
                raise Untr("cyclic constant")
            return self._consts[key]
        self._consts[key] = _BUSY
        saved, self.cls = self.cls, cname
        try:
            v = self.ev(node, {})
        except BaseException:
            del self._consts[key]
            raise
        finally:
            self.cls = saved
        self._consts[key] = v
        return v

    # -------- expressions
    def ev(self, e, loc):
        if isinstance(e, ast.Constant):
            return e.value
        if isinstance(e, ast.Name):
            if e.id in loc:
                return loc[e.id]
            if e.id in self.ext:
                return self.ext[e.id]
            if e.id in self.funs:
                return self.funs[e.id]
            if self.cls:
                r = self.class_const(self.cls, e.id)
                if r is not None:
                    return self.const_value(*r)
            if e.id in self.env.nodes:
                return self.const_value(None, self.env.nodes[e.id])
            raise Untr(f"name {e.id}")
        if isinstance(e, ast.Attribute):
            if isinstance(e.value, ast.Name):
                nm = e.value.id
                cname = None if nm in loc or nm in self.ext else self.cls if nm in ("self", "cls") else nm if nm in self.env.classes else None
                if cname:
                    r = self.class_const(cname, e.attr)
                    if r is not None:
                        return self.const_value(*r)
            try:
                base = self.ev(e.value, loc)
            except Untr:
                base = None
            if base is not None and not isinstance(base, (int, bytes, str)) and hasattr(base, e.attr):
                return getattr(base, e.attr)
            raise Untr("attribute " + ast.unparse(e))
        if isinstance(e, ast.BinOp):
            a, b = self.ev(e.left, loc), self.ev(e.right, loc)
            ops = {ast.Add: lambda: a + b, ast.Sub: lambda: a - b, ast.Mult: lambda: a * b, ast.FloorDiv: lambda: a // b, ast.Mod: lambda: a % b,
                   ast.LShift: lambda: a << b, ast.RShift: lambda: a >> b, ast.BitOr: lambda: a | b, ast.BitAnd: lambda: a & b, ast.BitXor: lambda: a ^ b}
            f = ops.get(type(e.op))
            if f is None:
                raise Untr("operator " + type(e.op).__name__)
            try:
                return f()
            except Exception as exc:  # noqa: BLE001
                raise Untr(f"{ast.unparse(e)}: {exc}") from exc
        if isinstance(e, ast.UnaryOp):
            v = self.ev(e.operand, loc)
            return {ast.Not: lambda: not v, ast.USub: lambda: -v, ast.Invert: lambda: ~v, ast.UAdd: lambda: +v}[type(e.op)]()
        if isinstance(e, ast.BoolOp):
            r = None
            for v in e.values:
                r = self.ev(v, loc)
                if isinstance(e.op, ast.And) and not r:
                    return r
                if isinstance(e.op, ast.Or) and r:
                    return r
            return r
        if isinstance(e, ast.Compare):
            left = self.ev(e.left, loc)
            for o, c in zip(e.ops, e.comparators):
                right = self.ev(c, loc)
                t = {ast.Eq: lambda: left == right, ast.NotEq: lambda: left != right, ast.Lt: lambda: left < right, ast.LtE: lambda: left <= right,
                     ast.Gt: lambda: left > right, ast.GtE: lambda: left >= right, ast.In: lambda: left in right, ast.NotIn: lambda: left not in right,
                     ast.Is: lambda: left is right, ast.IsNot: lambda: left is not right}.get(type(o))
                if t is None:
                    raise Untr("comparison")
                if not t():
                    return False
                left = right
            return True
        if isinstance(e, ast.IfExp):
            return self.ev(e.body, loc) if self.ev(e.test, loc) else self.ev(e.orelse, loc)
        if isinstance(e, (ast.List, ast.Tuple)):
            vals = [self.ev(x, loc) for x in e.elts]
            return tuple(vals) if isinstance(e, ast.Tuple) else vals
        if isinstance(e, ast.Dict):
            return {self.ev(k, loc): self.ev(v, loc) for k, v in zip(e.keys, e.values)}
        if isinstance(e, ast.Subscript):
            base = self.ev(e.value, loc)
            try:
                if isinstance(e.slice, ast.Slice):
                    s = e.slice
                    return base[(self.ev(s.lower, loc) if s.lower else None):(self.ev(s.upper, loc) if s.upper else None)]
                return base[self.ev(e.slice, loc)]
            except Untr:
                raise
            except KeyError as exc:
                raise PyRaise("KeyError") from exc
            except IndexError as exc:
                raise PyRaise("IndexError") from exc
            except Exception as exc:  # noqa: BLE001
                raise Untr(f"{ast.unparse(e)}: {exc}") from exc
        if isinstance(e, ast.ListComp) and len(e.generators) == 1 and isinstance(e.generators[0].target, ast.Name):
            g = e.generators[0]
            out = []
            for x in self.ev(g.iter, loc):
                l2 = dict(loc, **{g.target.id: x})
                if all(self.ev(c, l2) for c in g.ifs):
                    out.append(self.ev(e.elt, l2))
            return out
        if isinstance(e, ast.JoinedStr):
            return "".join(str(v.value) if isinstance(v, ast.Constant) else str(self.ev(v.value, loc)) for v in e.values)
        if isinstance(e, ast.Call):
            return self.call(e, loc)
        raise Untr("expression " + type(e).__name__)

    def call(self, e, loc):
        f = e.func
        name = f.id if isinstance(f, ast.Name) else ast.unparse(f)
        args = [self.ev(a, loc) for a in e.args]
        kw = {k.arg: self.ev(k.value, loc) for k in e.keywords}
        try:
            if name in ("functools.partial", "partial"):
                return ("partial", args[0], args[1:], kw)
            if name == "int.to_bytes":
                full = dict(zip(["value", "length", "byteorder"], args))
                full.update(kw)
                return int(full["value"]).to_bytes(full["length"], full["byteorder"])
            if name in ("bytes", "len", "range", "list", "reversed", "enumerate", "int", "min", "max", "sum", "tuple", "sorted", "bytearray"):
                r = {"bytes": bytes, "len": len, "range": range, "list": list, "reversed": reversed, "enumerate": enumerate, "int": int, "min": min,
                     "max": max, "sum": sum, "tuple": tuple, "sorted": sorted, "bytearray": bytearray}[name](*args, **kw)
                return list(r) if name in ("range", "reversed", "enumerate") else bytes(r) if name == "bytearray" else r
            if name in ("pack", "struct.pack"):
                import struct
                return struct.pack(*args)
            if name in ("calcsize", "struct.calcsize"):
                import struct
                return struct.calcsize(*args)
            if isinstance(f, ast.Attribute) and f.attr in ("to_bytes", "join", "get", "append", "extend", "reverse", "items", "keys", "values", "hex", "split", "encode", "ljust"):
                recv = self.ev(f.value, loc)
                r = getattr(recv, f.attr)(*args, **kw)
                return list(r) if f.attr in ("items", "keys", "values") else r
            # callable value: local / external / module function / partial
            target = loc.get(name) if isinstance(f, ast.Name) and name in loc else self.ext.get(name) if name in self.ext else None
            if target is None and isinstance(f, ast.Name) and name in self.funs:
                target = self.funs[name]
            if target is None and isinstance(f, ast.Attribute):
                target = self.ev(f, loc)
            return self.apply(target, args, kw)
        except (Untr, PyRaise, _Ret):
            raise
        except OverflowError as exc:
            raise PyRaise("OverflowError") from exc
        except Exception as exc:  # noqa: BLE001
            raise Untr(f"call {name}: {type(exc).__name__}: {exc}") from exc

    def apply(self, target, args, kw):
        if isinstance(target, tuple) and target and target[0] == "partial":
            return self.apply(target[1], list(target[2]) + list(args), dict(target[3], **kw))
        if isinstance(target, ast.FunctionDef):
            return self.run(target, args, kw)
        if callable(target):
            return target(*args, **kw)
        raise Untr("call of a non-callable")

    # -------- statements
    def block(self, stmts, loc):
        for st in stmts:
            if _doc(st) or isinstance(st, ast.Pass):
                continue
            if isinstance(st, ast.Expr):
                self.ev(st.value, loc)
            elif isinstance(st, ast.If):
                self.block(st.body if self.ev(st.test, loc) else st.orelse, loc)
            elif isinstance(st, ast.Raise):
                exc = st.exc.func if isinstance(st.exc, ast.Call) else st.exc
                raise PyRaise(ast.unparse(exc).split(".")[-1] if exc is not None else "?")
            elif isinstance(st, ast.Assign) and len(st.targets) == 1:
                self.assign(st.targets[0], self.ev(st.value, loc), loc)
            elif isinstance(st, ast.AnnAssign) and st.value is not None:
                self.assign(st.target, self.ev(st.value, loc), loc)
            elif isinstance(st, ast.AugAssign) and isinstance(st.target, ast.Name):
                cur, v = loc[st.target.id], self.ev(st.value, loc)
                op = {ast.Add: lambda: cur + v, ast.Sub: lambda: cur - v, ast.Mult: lambda: cur * v, ast.FloorDiv: lambda: cur // v,
                      ast.BitOr: lambda: cur | v, ast.LShift: lambda: cur << v}.get(type(st.op))
                if op is None:
                    raise Untr("augmented assignment")
                loc[st.target.id] = op()
            elif isinstance(st, ast.For) and not st.orelse:
                for x in self.ev(st.iter, loc):
                    self.assign(st.target, x, loc)
                    self.block(st.body, loc)
            elif isinstance(st, ast.Return):
                raise _Ret(self.ev(st.value, loc) if st.value is not None else None)
            elif isinstance(st, ast.Assert):
                if not self.ev(st.test, loc):
                    raise PyRaise("AssertionError")
            else:
                raise Untr("statement " + type(st).__name__)

    def assign(self, target, value, loc):
        if isinstance(target, ast.Name):
            loc[target.id] = value
        elif isinstance(target, ast.Tuple) and all(isinstance(t, ast.Name) for t in target.elts):
            for t, v in zip(target.elts, value):
                loc[t.id] = v
        else:
            raise Untr("assignment target " + ast.unparse(target))

    def run(self, fn, args=(), kw=None):
        self.depth += 1
        if self.depth > 8:
            raise Untr("recursion")
        try:
            params = [a.arg for a in fn.args.args]
            loc = {}
            defaults = fn.args.defaults
            for a, d in zip(params[len(params) - len(defaults):], defaults):
                loc[a] = self.ev(d, {})
            loc.update(dict(zip(params, args)))
            loc.update(kw or {})
            missing = [p for p in params if p not in loc]
            if missing:
                raise Untr(f"missing arguments {missing}")
            try:
                self.block(fn.body, loc)
            except _Ret as r:
                return r.v
            return None
        finally:
            self.depth -= 1


class _Obj:
    """instance stand-in for ObjInterp: the attributes live in `attrs`"""
    def __init__(self, cname):
        self.cname, self.attrs = cname, {}


class ObjInterp(Interp):
    """Interp + instances of classes of the same module: `self.x = v`, `self.x`, `self.method(...)` (used to EXECUTE KeyDerivator)"""

    def method(self, cname, name, seen=(), setter=False):
        """first definition of `name` along the bases (getter / plain method, or the `@name.setter` one); remembers the owning class"""
        c = self.env.classes.get(cname)
        if c is None or cname in seen:
            return None
        for n in c.node.body:
            if isinstance(n, ast.FunctionDef) and n.name == name:
                is_set = any(isinstance(dc, ast.Attribute) and dc.attr == "setter" for dc in n.decorator_list)
                if is_set == setter:
                    self.__dict__.setdefault("owner", {})[id(n)] = cname
                    return n
        for b in c.node.bases:
            if isinstance(b, ast.Name):
                m = self.method(b.id, name, seen + (cname,), setter)
                if m is not None:
                    return m
        return None

    def run(self, fn, args=(), kw=None):
        stack = self.__dict__.setdefault("stack", [])
        stack.append(self.__dict__.get("owner", {}).get(id(fn)))
        try:
            return super().run(fn, args, kw)
        finally:
            stack.pop()

    def call(self, e, loc):
        f = e.func
        if isinstance(f, ast.Attribute) and isinstance(f.value, ast.Call) and isinstance(f.value.func, ast.Name) and f.value.func.id == "super":
            owner = (self.__dict__.get("stack") or [None])[-1]
            o = loc.get("self")
            if owner is None or not isinstance(o, _Obj):
                raise Untr("super() outside a method")
            args = [self.ev(a, loc) for a in e.args]
            kw = {k.arg: self.ev(k.value, loc) for k in e.keywords}
            for b in self.env.classes[owner].node.bases:
                if isinstance(b, ast.Name):
                    m = self.method(b.id, f.attr)
                    if m is not None:
                        return self.run(m, [o] + args, kw)
            if f.attr == "__init__":
                return None
            raise Untr(f"super().{f.attr} not found")
        return super().call(e, loc)

    def block(self, stmts, loc):
        for st in stmts:
            if (isinstance(st, ast.AugAssign) and isinstance(st.target, ast.Attribute) and isinstance(st.target.value, ast.Name)
                    and isinstance(loc.get(st.target.value.id), _Obj)):
                cur, v = self.ev(st.target, loc), self.ev(st.value, loc)
                op = {ast.Add: lambda: cur + v, ast.Sub: lambda: cur - v, ast.Mult: lambda: cur * v, ast.FloorDiv: lambda: cur // v}.get(type(st.op))
                if op is None:
                    raise Untr("augmented assignment")
                self.assign(st.target, op(), loc)
            else:
                super().block([st], loc)

    def new(self, cname, *args, **kw):
        o = _Obj(cname)
        init = self.method(cname, "__init__")
        if init is None:
            raise Untr(f"{cname}.__init__ not found")
        self.run(init, [o] + list(args), kw)
        return o

    def ev(self, e, loc):
        if isinstance(e, ast.Attribute) and isinstance(e.value, ast.Name) and isinstance(loc.get(e.value.id), _Obj):
            o = loc[e.value.id]
            if e.attr in o.attrs:
                return o.attrs[e.attr]
            m = self.method(o.cname, e.attr)
            if m is not None:
                if any(isinstance(dc, ast.Name) and dc.id == "property" for dc in m.decorator_list):
                    return self.run(m, [o])
                return ("partial", m, [o], {})
            r = self.class_const(o.cname, e.attr)
            if r is not None:
                return self.const_value(*r)
            raise Untr("attribute " + ast.unparse(e))
        return super().ev(e, loc)

    def assign(self, target, value, loc):
        if isinstance(target, ast.Attribute) and isinstance(target.value, ast.Name) and isinstance(loc.get(target.value.id), _Obj):
            o = loc[target.value.id]
            st = self.method(o.cname, target.attr, setter=True)
            if st is not None:
                self.run(st, [o, value])
            else:
                o.attrs[target.attr] = value
        else:
            super().assign(target, value, loc)


def outcome(fn):
    """('ok', value) | ('E', class name) of a thunk run under the interpreter"""
    try:
        return ("ok", fn())
    except PyRaise as r:
        return ("E", r.cls)


# ---------------------------------------------------------------------------------------------------
# symbolic translators (Nat expressions / bytes expressions); names resolved by value
class IntTr:
    def __init__(self, env, cls, names, attrs, calls):
        self.env, self.cls, self.names, self.attrs, self.calls = env, cls, dict(names), dict(attrs), dict(calls)

    def tr(self, e):
        if isinstance(e, ast.Name) and e.id in self.names:
            return self.names[e.id]
        if isinstance(e, ast.Attribute) and ast.unparse(e) in self.attrs:
            return self.attrs[ast.unparse(e)]
        if isinstance(e, ast.Call) and ast.unparse(e.func) in self.calls:
            return self.calls[ast.unparse(e.func)]
        try:  # any constant expression, however it is spelled
            v = self.env.eval(e, cls=self.cls)
            if isinstance(v, int) and not isinstance(v, bool) and v >= 0:
                return str(v)
        except NotConst:
            pass
        if isinstance(e, ast.BinOp):
            a, b = self.tr(e.left), self.tr(e.right)
            op = {ast.Add: "+", ast.Mult: "*", ast.FloorDiv: "/", ast.LShift: "<<<", ast.Mod: "%"}.get(type(e.op))
            if op is None:
                raise Untr(f"operator {type(e.op).__name__}")
            return f"({a} {op} {b})"
        raise Untr("expression " + ast.unparse(e))


def translate_update(env, cls_hdr):
    """symbolic value of self.image_total_length after SecureBinary31Header.update, as a Lean Nat expression in
    `old` (value before), `h` (hash length), `cert` (cert_block.expected_size)."""
    fn = _fun(cls_hdr, "update")
    if fn is None:
        raise Untr("no update()")
    params = [a.arg for a in fn.args.args]
    cert_param = params[2] if len(params) > 2 else "cert_block"
    tr = IntTr(env, cls_hdr.name, {}, {f"{cert_param}.expected_size": "cert", "self.image_total_length": "old"},
               {"get_hash_length": "h", f"{cert_param}.expected_size": "cert"})
    for st in fn.body:
        if _doc(st):
            continue
        if isinstance(st, (ast.Assign, ast.AnnAssign)) and (isinstance(st, ast.AnnAssign) or len(st.targets) == 1):
            t = st.target if isinstance(st, ast.AnnAssign) else st.targets[0]
            if isinstance(t, ast.Name):
                tr.names[t.id] = tr.tr(st.value)
                continue
            if isinstance(t, ast.Attribute) and ast.unparse(t) == "self.image_total_length":
                tr.attrs["self.image_total_length"] = tr.tr(st.value)
                continue
            if isinstance(t, ast.Attribute) and isinstance(t.value, ast.Name) and t.value.id == "self":
                continue  # other members (block_count)
            raise Untr("assignment to " + ast.unparse(t))
        if isinstance(st, ast.AugAssign) and isinstance(st.op, ast.Add) and ast.unparse(st.target) == "self.image_total_length":
            tr.attrs["self.image_total_length"] = f"({tr.attrs['self.image_total_length']} + {tr.tr(st.value)})"
            continue
        raise Untr("statement " + type(st).__name__)
    return tr.attrs["self.image_total_length"]


def _stmts_inlined(cls_node, fn):
    """top-level statements of fn with calls `self._helper(...)` of same-class helpers (as bare statements) replaced by the helper's body"""
    out = []
    for st in fn.body:
        if isinstance(st, ast.Expr) and isinstance(st.value, ast.Call) and isinstance(st.value.func, ast.Attribute) \
                and isinstance(st.value.func.value, ast.Name) and st.value.func.value.id == "self":
            h = _fun(cls_node, st.value.func.attr)
            if h is not None and not any(isinstance(n, ast.Return) and n.value is not None for n in ast.walk(h)):
                out.extend(s for s in h.body if not _doc(s))
                continue
        out.append(st)
    return out


def _is_zero_bytes(v):
    """`bytes(<n>)` / `b"\\x00" * <n>` / `bytearray(<n>)`: an all-zero byte string"""
    if isinstance(v, ast.Call) and ast.unparse(v.func) in ("bytes", "bytearray") and len(v.args) == 1 and not v.keywords:
        return not (isinstance(v.args[0], ast.Constant) and isinstance(v.args[0].value, (bytes, str)))
    if isinstance(v, ast.BinOp) and isinstance(v.op, ast.Mult):
        for a in (v.left, v.right):
            if isinstance(a, ast.Constant) and a.value in (b"\x00", b"\0"):
                return True
    return False


def chain_start_resets(tree):
    """Does the export path assign an all-zero value to the running hash before the blocks are processed?"""
    sb, cm = _cls(tree, "SecureBinary31"), _cls(tree, "SecureBinary31Commands")
    sites = [(sb, _fun(sb, "export"), "self.sb_commands.final_hash", ("sb_commands.export",)),
             (cm, _fun(cm, "export"), "self.final_hash", ("process_cmd_blocks_to_export",)),
             (cm, _fun(cm, "process_cmd_blocks_to_export"), "self.final_hash", ("_process_block",))]
    for cnode, fn, attr, callees in sites:
        if fn is None:
            continue
        for st in _stmts_inlined(cnode, fn):
            src = ast.unparse(st)
            if any(c + "(" in src for c in callees):
                break
            tgt = st.targets[0] if isinstance(st, ast.Assign) and len(st.targets) == 1 else st.target if isinstance(st, ast.AnnAssign) else None
            if tgt is not None and ast.unparse(tgt) == attr and getattr(st, "value", None) is not None and _is_zero_bytes(st.value):
                return True, fn.name
    return False, None


class BytesTr:
    """straight-line bytes-building function -> Lean expression; every non-parameter name is resolved by value"""

    def __init__(self, interp, params):
        self.it = interp
        self.env = {p: ("int", p) for p in params}

    def const(self, e):
        names = {n.id for n in ast.walk(e) if isinstance(n, ast.Name)}
        if names & set(self.env):
            raise Untr("not constant")
        return self.it.ev(e, {})

    def int_(self, e):
        if isinstance(e, ast.Name) and e.id in self.env and self.env[e.id][0] == "int":
            return self.env[e.id][1]
        try:
            v = self.const(e)
            if isinstance(v, int) and not isinstance(v, bool) and v >= 0:
                return str(v)
        except (Untr, PyRaise):
            pass
        if isinstance(e, ast.BinOp):
            op = {ast.Add: "+", ast.Mult: "*", ast.LShift: "<<<", ast.BitOr: "|||"}.get(type(e.op))
            if op is None:
                raise Untr("int operator " + type(e.op).__name__)
            return f"({self.int_(e.left)} {op} {self.int_(e.right)})"
        if isinstance(e, ast.IfExp):
            return f"(if {self.cond(e.test)} then {self.int_(e.body)} else {self.int_(e.orelse)})"
        raise Untr("int expression " + ast.unparse(e))

    def cond(self, t):
        if isinstance(t, ast.Compare) and len(t.ops) == 1 and isinstance(t.ops[0], (ast.Eq, ast.NotEq)):
            return f"{self.int_(t.left)} {'=' if isinstance(t.ops[0], ast.Eq) else '≠'} {self.int_(t.comparators[0])}"
        if isinstance(t, ast.UnaryOp) and isinstance(t.op, ast.Not):
            return f"¬ ({self.cond(t.operand)})"
        raise Untr("condition " + ast.unparse(t))

    @staticmethod
    def lit(b):
        return "[" + ", ".join(f"0x{x:02x}" for x in b) + "]" if b else "([] : Bytes)"

    def bytes_(self, e):
        if isinstance(e, ast.Name) and e.id in self.env and self.env[e.id][0] == "bytes":
            return self.env[e.id][1]
        try:
            v = self.const(e)
            if isinstance(v, (bytes, bytearray)):
                return self.lit(bytes(v)) if len(v) < 4 or any(v) else f"zeros {len(v)}"
        except (Untr, PyRaise):
            pass
        if isinstance(e, ast.BinOp) and isinstance(e.op, ast.Add):
            return f"{self.bytes_(e.left)} ++ {self.bytes_(e.right)}"
        if isinstance(e, ast.IfExp):
            return f"(if {self.cond(e.test)} then {self.bytes_(e.body)} else {self.bytes_(e.orelse)})"
        if isinstance(e, ast.Call):
            f = ast.unparse(e.func)
            if f == "bytes" and len(e.args) == 1 and isinstance(e.args[0], ast.List):
                return " ++ ".join(f"beEnc 1 {self.int_(x)}" for x in e.args[0].elts) if e.args[0].elts else "([] : Bytes)"
            if f == "int.to_bytes" or (isinstance(e.func, ast.Attribute) and e.func.attr == "to_bytes"):
                args = list(e.args)
                val = args.pop(0) if f == "int.to_bytes" else e.func.value
                kw = {k.arg: k.value for k in e.keywords}
                if f == "int.to_bytes" and "value" in kw:
                    val = kw["value"]
                length = kw.get("length", args[0] if args else None)
                order = kw.get("byteorder", args[1] if len(args) > 1 else None)
                if length is None or order is None:
                    raise Untr("to_bytes without length/byteorder")
                o, n = self.const(order), self.const(length)
                if o not in ("little", "big") or not isinstance(n, int):
                    raise Untr("to_bytes arguments")
                return f"{'leEnc' if o == 'little' else 'beEnc'} {n} {self.int_(val)}"
            if f in ("pack", "struct.pack") and e.args:
                fmt = self.const(e.args[0])
                order, fields = struct_fields(fmt)
                if order not in "<>" or len(fields) != len(e.args) - 1 or any(c in "sp" for c, _ in fields):
                    raise Untr("pack format")
                return " ++ ".join(f"{'leEnc' if order == '<' else 'beEnc'} {_SIZE[c]} {self.int_(a)}" for (c, _), a in zip(fields, e.args[1:]))
        raise Untr("bytes expression " + ast.unparse(e))

    def any_(self, e):
        try:
            return ("bytes", self.bytes_(e))
        except Untr:
            return ("int", self.int_(e))

    def run(self, fn):
        for st in fn.body:
            if _doc(st):
                continue
            if isinstance(st, ast.If) and st.body and isinstance(st.body[-1], ast.Raise) and not st.orelse:
                continue  # domain guards: evaluated by execution (kdfRights / kdfKeyLens)
            if isinstance(st, (ast.Assign, ast.AnnAssign)):
                t = st.target if isinstance(st, ast.AnnAssign) else st.targets[0] if len(st.targets) == 1 else None
                if isinstance(t, ast.Name) and st.value is not None:
                    kind, txt = self.any_(st.value)
                    self.env[t.id] = (kind, f"({txt})")
                    continue
            if isinstance(st, ast.AugAssign) and isinstance(st.op, ast.Add) and isinstance(st.target, ast.Name) and st.target.id in self.env:
                kind, cur = self.env[st.target.id]
                if kind != "bytes":
                    raise Untr("+= on int")
                self.env[st.target.id] = ("bytes", f"({cur} ++ {self.bytes_(st.value)})")
                continue
            if isinstance(st, ast.Return):
                return self.bytes_(st.value)
            raise Untr("statement " + type(st).__name__)
        raise Untr("no return")


# ---------------------------------------------------------------------------------------------------
def gen_Sb31Consts():
    meta = {"sources": [IMG, CMD, FUN, CON], "untranslated": [], "formats": {}}
    L = ["import SpsdkVerif.Crypto.Modes", "", "namespace SpsdkVerif.Generated.Sb31Consts",
         "open SpsdkVerif.Misc (beEnc leEnc)", "open SpsdkVerif.Crypto (zeros)", "abbrev Bytes := SpsdkVerif.Misc.Bytes", ""]

    def d(name, val, comment=None):
        L.append(f"def {name} : Nat := {val}" + (f"  -- {comment}" if comment else ""))

    def note(what, exc):
        meta["untranslated"].append(f"{what}: {exc}")

    try:
        img, cmd, fun, con = parse(IMG), parse(CMD), parse(FUN), parse(CON)
    except (OSError, SyntaxError) as exc:
        note("source unreadable", exc)
        img = cmd = fun = con = ast.parse("")
    eI, eC, eF, eK = ModuleEnv(img), ModuleEnv(cmd), ModuleEnv(fun), ModuleEnv(con)

    def cval(env, cname, attr, default=BAD, typ=int):
        try:
            v = env.cls(cname).value(attr)
            return v if isinstance(v, typ) and not isinstance(v, bool) else default
        except NotConst as exc:
            note(f"{cname}.{attr}", exc)
            return default

    def ev(env, node, cname=None, local=None, default=BAD, typ=int):
        try:
            v = env.eval(node, cls=cname, local=dict(EXTERNALS, **(local or {})))
            return v if isinstance(v, typ) and not isinstance(v, bool) else default
        except NotConst:
            return default

    def enum_members(env, cname):
        """[(NAME, tag)] of an SpsdkEnum class whose members evaluate to tuples starting with an int"""
        out = []
        c = env.classes.get(cname)
        for n in (c.nodes if c else {}):
            try:
                v = c.value(n)
            except NotConst:
                continue
            if isinstance(v, tuple) and v and isinstance(v[0], int):
                out.append((n, v[0]))
        return out

    # ---- command tags
    tags = sorted(enum_members(eK, "EnumCmdTag"), key=lambda p: p[1])
    td = dict(tags)
    L.append(f"def cmdTags : List (String × Nat) := [{', '.join(f'(\"{n}\", {v})' for n, v in tags)}]  -- sorted by tag")
    names = {"ERASE": "tagErase", "LOAD": "tagLoad", "EXECUTE": "tagExecute", "CALL": "tagCall", "PROGRAM_FUSES": "tagProgFuses",
             "PROGRAM_IFR": "tagProgIfr", "LOAD_CMAC": "tagLoadCmac", "COPY": "tagCopy", "LOAD_HASH_LOCKING": "tagLoadHashLocking",
             "LOAD_KEY_BLOB": "tagLoadKeyBlob", "CONFIGURE_MEMORY": "tagConfigureMemory", "FILL_MEMORY": "tagFillMemory",
             "FW_VERSION_CHECK": "tagFwVersionCheck", "RESET": "tagReset"}
    for n, lean in names.items():
        d(lean, td.get(n, BAD), f"EnumCmdTag.{n}")

    def tag_of(node):
        """EnumCmdTag.X (possibly `.tag`) anywhere in the expression -> tag value"""
        for n in ast.walk(node):
            if isinstance(n, ast.Attribute) and isinstance(n.value, ast.Name) and n.value.id == "EnumCmdTag" and n.attr in td:
                return td[n.attr]
        return None

    # which tag does each command class hand to the base constructor (keyword or positional, in its own __init__)?
    cls_tag = []
    for c in [n for n in cmd.body if isinstance(n, ast.ClassDef) and n.name.startswith("Cmd")]:
        init = _fun(c, "__init__")
        if init is None:
            continue
        found = None
        for n in ast.walk(init):
            if isinstance(n, ast.Call) and isinstance(n.func, ast.Attribute) and n.func.attr == "__init__":
                for a in list(n.args) + [k.value for k in n.keywords]:
                    found = found if found is not None else tag_of(a)
        if found is not None:
            cls_tag.append((c.name, found))
    cls_tag.sort()
    L.append(f"def classTags : List (String × Nat) := [{', '.join(f'(\"{a}\", {b})' for a, b in cls_tag)}]")

    def name_table(table):
        for n in ast.walk(cmd):
            tgt = n.target if isinstance(n, ast.AnnAssign) else n.targets[0] if isinstance(n, ast.Assign) and n.targets else None
            if isinstance(tgt, ast.Name) and tgt.id == table and isinstance(n.value, ast.Dict):
                return list(zip(n.value.keys, n.value.values))
        return []

    t2c = sorted((tag_of(k) if tag_of(k) is not None else BAD, v.id) for k, v in name_table("TAG_TO_CLASS") if isinstance(v, ast.Name))
    L.append(f"def tagToClass : List (Nat × String) := [{', '.join(f'({a}, \"{b}\")' for a, b in t2c)}]  -- sorted by tag")
    c2t = dict(cls_tag)
    n2c = sorted((ev(eC, k, typ=str, default="?"), v.id) for k, v in name_table("CFG_NAME_TO_CLASS") if isinstance(v, ast.Name))
    L.append(f"def cfgNameToClass : List (String × String) := [{', '.join(f'(\"{a}\", \"{b}\")' for a, b in n2c)}]  -- sorted by name")
    L.append(f"def cfgNameToTag : List (String × Nat) := [{', '.join(f'(\"{a}\", {c2t.get(b, BAD)})' for a, b in n2c)}]")
    # configuration keys each command class reads in load_from_config (`<cfg>["k"]`, `<cfg>.get("k"[, default])`), sorted; defaults by value
    keys, opts = [], []
    for cname in sorted({b for _, b in n2c}):
        fn = _fun(_cls(cmd, cname), "load_from_config")
        ks, ds = set(), {}
        cfgname = fn.args.args[1].arg if fn is not None and len(fn.args.args) > 1 else "config"
        for n in ast.walk(fn) if fn is not None else []:
            if isinstance(n, ast.Subscript) and isinstance(n.value, ast.Name) and n.value.id == cfgname:
                k = ev(eC, n.slice, cname, typ=str, default=None)
                if k is not None:
                    ks.add(k)
            if isinstance(n, ast.Call) and isinstance(n.func, ast.Attribute) and n.func.attr == "get" \
                    and isinstance(n.func.value, ast.Name) and n.func.value.id == cfgname and n.args:
                k = ev(eC, n.args[0], cname, typ=str, default=None)
                if k is not None:
                    ks.add(k)
                    if len(n.args) == 2:
                        dv = ev(eC, n.args[1], cname, typ=(str, int), default=None)
                        if dv is not None:
                            ds[k] = str(dv)
        keys.append((cname, sorted(ks)))
        opts += [(cname, k, ds[k]) for k in sorted(ds)]
    L.append("def cfgKeys : List (String × List String) := [" +
             ", ".join(f'(\"{a}\", [{", ".join(chr(34) + k + chr(34) for k in ks)}])' for a, ks in keys) + "]")
    L.append("def cfgDefaults : List (String × String × String) := [" + ", ".join(f'(\"{a}\", \"{k}\", \"{v}\")' for a, k, v in opts) + "]")
    meta["cfg_keys"] = {a: ks for a, ks in keys}

    # ---- command formats / constants (by value at the use site)
    d("cmdMagic", cval(eC, "BaseCmd", "TAG"), "BaseCmd.TAG")

    def pack_format(tree, env, cname, fname):
        """first argument of the first pack(...) call in the method, by value (f-string interpolations become `{}`)"""
        fn = _fun(_cls(tree, cname), fname)
        calls = sorted((n for n in ast.walk(fn) if isinstance(n, ast.Call)), key=lambda n: (n.lineno, n.col_offset)) if fn is not None else []
        for n in calls:
            f = n.func
            nm = f.attr if isinstance(f, ast.Attribute) else f.id if isinstance(f, ast.Name) else None
            if nm == "pack" and n.args:
                a = n.args[0]
                if isinstance(a, ast.JoinedStr):
                    return "".join(str(v.value) if isinstance(v, ast.Constant) else (str(ev(env, v.value, cname, default="{}", typ=(int, str)))) for v in a.values)
                return ev(env, a, cname, typ=str, default=None)
        return None

    fm = {"fmtBaseCmd": cval(eC, "BaseCmd", "FORMAT", None, str), "fmtKeyBlob": cval(eC, "CmdLoadKeyBlob", "FORMAT", None, str),
          "fmtSection": cval(eC, "CmdSectionHeader", "FORMAT", None, str), "fmtHeader": cval(eI, "SecureBinary31Header", "HEADER_FORMAT", None, str)}
    for cname, fname, lean in (("CmdLoadBase", "export", "fmtLoadMemBlock"), ("CmdErase", "export", "fmtEraseTail"),
                               ("CmdCopy", "export", "fmtCopyTail"), ("CmdFillMemory", "export", "fmtFillTail")):
        fm[lean] = pack_format(cmd, eC, cname, fname)
    for lean, f in fm.items():
        r = widths_of(f)
        meta["formats"][lean] = f
        if r is None:
            note(f"format {lean}", repr(f))
            L.append(f"def {lean} : List Nat := [{BAD}]")
            L.append(f"def {lean}Little : Bool := false")
        else:
            L.append(f"def {lean} : List Nat := [{', '.join(map(str, r[1]))}]")
            L.append(f"def {lean}Little : Bool := {'true' if r[0] else 'false'}")
    # the data block may be packed in one call (f-string format) or assembled from pieces: optional trip-wire
    r = widths_of(pack_format(img, eI, "SecureBinary31Commands", "_process_block"))
    L.append(f"def fmtDataBlock : List Nat := [{', '.join(map(str, r[1])) if r else ''}]  -- [] = no single pack() call")
    L.append(f"def fmtDataBlockLittle : Bool := {'true' if (r is None or r[0]) else 'false'}")

    def call_arg(tree, env, cname, fname, callee, kw, pos):
        fn = _fun(_cls(tree, cname), fname)
        calls = sorted((n for n in ast.walk(fn) if isinstance(n, ast.Call)), key=lambda n: (n.lineno, n.col_offset)) if fn is not None else []
        for n in calls:
            f = n.func
            nm = f.attr if isinstance(f, ast.Attribute) else f.id if isinstance(f, ast.Name) else None
            if nm == callee:
                for k in n.keywords:
                    if k.arg == kw:
                        return ev(env, k.value, cname, default=BADSIZE)
                if len(n.args) > pos:
                    return ev(env, n.args[pos], cname, default=BADSIZE)
        note(f"{cname}.{fname}: no call of {callee}", "size sentinel 0")
        return BADSIZE

    d("loadAlign", call_arg(cmd, eC, "CmdLoadBase", "export", "align_block", "alignment", 1), "CmdLoadBase.export align_block")
    d("keyBlobAlign", call_arg(cmd, eC, "CmdLoadKeyBlob", "export", "align_block", "alignment", 1), "CmdLoadKeyBlob.export align_block")
    # hash-locking tail: the constant byte string export() appends (`bytes(64)`, `b"\0" * 64`, a class constant ...)
    tail = BADSIZE
    hl = _fun(_cls(cmd, "CmdLoadHashLocking"), "export")
    for n in ast.walk(hl) if hl is not None else []:
        if isinstance(n, (ast.Call, ast.BinOp, ast.Attribute, ast.Name)):
            v = ev(eC, n, "CmdLoadHashLocking", typ=bytes, default=None)
            if v is not None and len(v) > 0 and not any(v):
                tail = len(v)
    d("hashLockTail", tail, "CmdLoadHashLocking.export appends this many zero bytes")
    # fuse word size (`self.length //= n` / `... // n`) and the constructor guard `len(data) % n`
    fw, fg = BAD, 0
    pf_init = _fun(_cls(cmd, "CmdProgFuses"), "__init__")
    for n in ast.walk(pf_init) if pf_init is not None else []:
        if isinstance(n, ast.AugAssign) and isinstance(n.op, ast.FloorDiv) or isinstance(n, ast.BinOp) and isinstance(n.op, ast.FloorDiv):
            v = ev(eC, n.value if isinstance(n, ast.AugAssign) else n.right, "CmdProgFuses")
            fw = v if fw == BAD else fw
        if isinstance(n, ast.If) and n.body and isinstance(n.body[0], ast.Raise):
            for m in ast.walk(n.test):
                if isinstance(m, ast.BinOp) and isinstance(m.op, ast.Mod) and "len(" in ast.unparse(m.left):
                    fg = ev(eC, m.right, "CmdProgFuses")
    d("fuseWordSize", fw, "CmdProgFuses.__init__: length field = len(data) // n")
    d("fuseDataGuard", fg, "CmdProgFuses.__init__: data length must be a multiple of n (0: no guard)")
    mem = []
    for cname in ("CmdLoad", "CmdLoadCmac", "CmdLoadHashLocking", "CmdProgFuses", "CmdProgIfr"):
        try:
            mem.append((cname, bool(eC.cls(cname).value("HAS_MEMORY_ID_BLOCK"))))
        except NotConst as exc:
            note(f"{cname}.HAS_MEMORY_ID_BLOCK", exc)
    L.append(f"def hasMemIdBlock : List (String × Bool) := [{', '.join(f'(\"{a}\", {str(b).lower()})' for a, b in mem)}]")
    sec_init = _fun(_cls(cmd, "CmdSectionHeader"), "__init__")
    sec_defaults = {}
    if sec_init is not None:
        args = sec_init.args.args
        for a, dv in zip(args[len(args) - len(sec_init.args.defaults):], sec_init.args.defaults):
            sec_defaults[a.arg] = ev(eC, dv, "CmdSectionHeader")
    d("sectionUid", sec_defaults.get("section_uid", BAD), "CmdSectionHeader default section_uid")
    d("sectionType", sec_defaults.get("section_type", BAD), "CmdSectionHeader default section_type")

    # ---- header
    H = "SecureBinary31Header"
    hc = _cls(img, H)
    magic = cval(eI, H, "MAGIC", b"", bytes)
    L.append(f"def hdrMagic : Bytes := [{', '.join(f'0x{b:02x}' for b in magic)}]  -- {magic!r}")
    ver = str(cval(eI, H, "FORMAT_VERSION", f"{BAD}.{BAD}", str)).split(".")
    d("hdrVersionMajor", ver[0] if ver[0].isdigit() else BAD)
    d("hdrVersionMinor", ver[1] if len(ver) > 1 and ver[1].isdigit() else BAD)
    d("descLen", cval(eI, H, "DESCRIPTION_LENGTH", BADSIZE), "SecureBinary31Header.DESCRIPTION_LENGTH")
    hw = widths_of(fm["fmtHeader"])
    header_size = sum(hw[1]) if hw else BAD
    d("headerSize", header_size, "calcsize(HEADER_FORMAT)")
    d("chunkLen", cval(eI, "SecureBinary31Commands", "DATA_CHUNK_LENGTH", BADSIZE), "SecureBinary31Commands.DATA_CHUNK_LENGTH")

    # functions over the finite set of hash lengths: executed, emitted as if-chains
    itI = Interp(img, {"get_hash_length": lambda h: h, "get_hash": None}, cls=H)

    def by_hash(pname, lean):
        fn = _fun(hc, pname)
        rows = []
        for h in (32, 48):
            try:
                if fn is None:
                    raise Untr("not found")
                r = outcome(lambda: itI.run(fn, [types.SimpleNamespace(hash_type=h)]))
                if r[0] != "ok" or not isinstance(r[1], int):
                    raise Untr(f"result {r}")
                rows.append((h, r[1]))
            except Untr as exc:
                note(f"{H}.{pname}({h})", exc)
                rows.append((h, BAD))
        body = " else ".join(f"if h = {h} then {v}" for h, v in rows) + f" else {BAD}"
        L.append(f"def {lean} (h : Nat) : Nat := {body}  -- {H}.{pname}, executed per hash length")

    by_hash("cert_block_offset", "certBlockOffset")
    by_hash("block_size", "blockSize")
    try:
        L.append(f"def updTotalLength (old h cert : Nat) : Nat := {translate_update(eI, hc)}  -- {H}.update")
    except Untr as exc:
        note(f"{H}.update", exc)
        L.append(f"def updTotalLength (old h cert : Nat) : Nat := {BAD}  -- untranslatable: {exc}")
    # members set by __init__: image_total_length, image_type (by value of the assigned expression)
    init_total, nxp, oem = BAD, BAD, BAD
    hi = _fun(hc, "__init__")
    for st in ast.walk(hi) if hi is not None else []:
        tgt = st.targets[0] if isinstance(st, ast.Assign) and len(st.targets) == 1 else st.target if isinstance(st, ast.AnnAssign) else None
        if tgt is None or getattr(st, "value", None) is None:
            continue
        if ast.unparse(tgt) == "self.image_total_length":
            init_total = ev(eI, st.value, H)
        if ast.unparse(tgt) == "self.image_type":
            nxp = ev(eI, st.value, H, {"is_nxp_container": True})
            oem = ev(eI, st.value, H, {"is_nxp_container": False})
    d("initTotalLength", init_total, f"{H}.__init__: self.image_total_length")
    d("imageTypeNxp", nxp)
    d("imageTypeOem", oem)
    resets, where = chain_start_resets(img)
    meta["chain_start_reset_at"] = where
    L.append(f"def chainStartHash (old : Bytes) (h : Nat) : Bytes := {'zeros h' if resets else 'old'}"
             f"  -- final_hash when the last block is processed ({'reset at ' + where if resets else 'never reset on the export path: stale value of the previous export'})")
    # key length per hash (executed), hash per signature length (the expression assigned in SecureBinary31.__init__, by value)
    kl = []
    g = _fun(_cls(img, "SecureBinary31Commands"), "_get_key_length")
    itC = Interp(img, {"get_hash_length": lambda h: h}, cls="SecureBinary31Commands")
    for h in (32, 48):
        try:
            if g is None:
                raise Untr("not found")
            r = outcome(lambda: itC.run(g, [h]))
            if r[0] == "ok" and isinstance(r[1], int):
                kl.append((h, r[1]))
        except Untr as exc:
            note(f"_get_key_length({h})", exc)
    L.append(f"def keyLenOfHash : List (Nat × Nat) := [{', '.join(f'({a}, {b})' for a, b in kl)}]  -- hash length -> AES key bits")
    sl = []
    si = _fun(_cls(img, "SecureBinary31"), "__init__")
    sig_expr = None
    for st in ast.walk(si) if si is not None else []:
        if isinstance(st, (ast.Assign, ast.AnnAssign)) and getattr(st, "value", None) is not None and "signature_length" in ast.unparse(st.value):
            sig_expr = sig_expr or st.value
    itS = Interp(img, {"get_hash_length": lambda h: h}, cls="SecureBinary31")
    for n in (64, 96, 132):
        try:
            if sig_expr is None:
                raise Untr("no expression over signature_length")
            sp = types.SimpleNamespace(signature_length=n)
            # `self.signature_provider` / `signature_provider`: both spellings reach the stub; `self.CONST` reaches the class constants
            expr = ast.parse(ast.unparse(sig_expr).replace("self.signature_provider", "signature_provider"), mode="eval").body
            r = outcome(lambda: itS.ev(expr, {"signature_provider": sp}))
            if r[0] == "ok" and isinstance(r[1], int):
                sl.append((n, r[1]))
        except Untr as exc:
            note(f"hash of signature length {n}", exc)
    L.append(f"def hashOfSigLen : List (Nat × Nat) := [{', '.join(f'({a}, {b})' for a, b in sl)}]  -- signature length -> hash length")

    # ---- KDF
    modes = dict(enum_members(eF, "KeyDerivationMode"))
    d("kdfModeKdk", modes.get("KDK", BAD), "KeyDerivationMode.KDK")
    d("kdfModeBlk", modes.get("BLK", BAD), "KeyDerivationMode.BLK")
    kdm = types.SimpleNamespace(**{k: v for k, v in modes.items()})
    kdm_set = frozenset(modes.values())

    class _Modes:
        """KeyDerivationMode stand-in: attribute access gives the tag, `in` tests membership"""
        def __getattr__(self, a):
            return getattr(kdm, a)

        def __contains__(self, x):
            return x in kdm_set

        def __iter__(self):
            return iter(sorted(kdm_set))

    itF = Interp(fun, {"KeyDerivationMode": _Modes(), "cmac": lambda key=None, data=None: b"<" + bytes(data) + b">"})
    kf = fun and itF.funs.get("_get_key_derivation_data")
    params = "(derivation_constant kdk_access_rights mode key_length iteration : Nat)"
    want = ["derivation_constant", "kdk_access_rights", "mode", "key_length", "iteration"]
    try:
        if kf is None:
            raise Untr("not found")
        if sorted(a.arg for a in kf.args.args) != sorted(want):
            raise Untr("parameter list changed")
        body = BytesTr(itF, [a.arg for a in kf.args.args]).run(kf)
        L.append(f"/-- translated from `{FUN}::_get_key_derivation_data` -/")
        L.append(f"def kdfData {params} : Bytes :=\n  {body}")
        meta["kdfData"] = "translated"
    except (Untr, PyRaise, NotConst) as exc:
        note("_get_key_derivation_data", exc)
        meta["kdfData"] = f"untranslatable: {exc}"
        L.append(f"def kdfData {params} : Bytes := []  -- untranslatable: {exc}")

    def kdf_data(**kw):
        return outcome(lambda: itF.run(kf, [], dict(dict(derivation_constant=7, kdk_access_rights=0, mode=modes.get("KDK", 1), key_length=128, iteration=1), **kw)))

    # accepted access rights / key lengths: by execution of the guards
    rights, klens = [], []
    try:
        if kf is None:
            raise Untr("not found")
        rights = [r for r in range(0, 9) if kdf_data(kdk_access_rights=r)[0] == "ok"]
        klens = [k for k in (64, 128, 192, 256, 512) if kdf_data(key_length=k)[0] == "ok"]
    except Untr as exc:
        note("_get_key_derivation_data guards", exc)
    L.append(f"def kdfRights : List Nat := [{', '.join(map(str, rights)) if rights else BAD}]  -- accepted values of kdk_access_rights (of 0..8)")
    L.append(f"def kdfKeyLens : List Nat := [{', '.join(map(str, klens)) if klens else BAD}]  -- accepted values of key_length (of 64,128,192,256,512)")
    # _derive_key: which iterations are CMACed, in which order, per key length -- by execution with a tagging CMAC stub
    dk = itF.funs.get("_derive_key")
    its = []
    for k in klens:
        try:
            if dk is None:
                raise Untr("not found")
            r = outcome(lambda: itF.run(dk, [], dict(key=b"K", derivation_constant=7, kdk_access_rights=0, mode=modes.get("KDK", 1), key_length=k)))
            if r[0] != "ok" or not isinstance(r[1], bytes):
                raise Untr(f"result {r[0]}")
            seq, rest = [], r[1]
            while rest:
                for i in range(0, 9):
                    dd = kdf_data(key_length=k, iteration=i)
                    tok = b"<" + dd[1] + b">" if dd[0] == "ok" else None
                    if tok and rest.startswith(tok):
                        seq.append(i)
                        rest = rest[len(tok):]
                        break
                else:
                    raise Untr("result is not a concatenation of CMACs over derivation data")
            its.append((k, seq))
        except Untr as exc:
            note(f"_derive_key({k})", exc)
    L.append(f"def kdfIterationsFor : List (Nat × List Nat) := [{', '.join(f'({k}, [{', '.join(map(str, s))}])' for k, s in its)}]"
             "  -- key length -> iterations whose CMACs are concatenated (by execution of _derive_key)")
    # ---- KeyDerivator call sites: WHICH arguments reach the derivation data (and which key is CMACed) when the KDK is derived in
    # `KeyDerivator.__init__` and when a block key is derived in `get_block_key` -- by EXECUTION of the class with marker arguments and a
    # recording CMAC stub, for every accepted access-rights value x key length; each CMACed message is decoded against the derivation data
    # of all candidate (constant, rights, mode, key length, iteration) tuples.  A slot is emitted as the PARAMETER it follows over all runs,
    # as a literal when it is the same value in all runs, else as a sentinel.
    TS, BN, PCK, KDK = 0x0102030405060708, 0x1112131415, b"\xa1PCK", b"\xa2KDK"
    rec = []

    def cmac_rec(key=None, data=None):
        rec.append((bytes(key), bytes(data)))
        return b"\x00" * 16

    itK = ObjInterp(fun, {"KeyDerivationMode": _Modes(), "cmac": cmac_rec})
    it_of = dict(its)

    def decode(calls, r, k):
        """-> (key name, constant name, rights, mode, key length) common to the CMAC calls of one derivation; iterations as generated"""
        out, seq = set(), []
        for key, data in calls:
            hits = [(cn, rr, m, kk, i) for cn, cv in (("timestamp", TS), ("block_number", BN)) for rr in rights for m in sorted(kdm_set)
                    for kk in klens for i in range(0, 9)
                    if kdf_data(derivation_constant=cv, kdk_access_rights=rr, mode=m, key_length=kk, iteration=i) == ("ok", data)]
            if len(hits) != 1:
                raise Untr(f"CMACed message matches {len(hits)} derivation inputs")
            kn = "pck" if key == PCK else "kdk" if key == KDK else None
            if kn is None:
                raise Untr("CMAC key is neither the PCK nor the KDK")
            out.add((kn,) + hits[0][:4])
            seq.append(hits[0][4])
        if len(out) != 1:
            raise Untr("the CMAC calls of one derivation differ in more than the iteration")
        res = out.pop()
        if seq != it_of.get(res[4]):
            raise Untr(f"iterations {seq} differ from those of _derive_key for key length {res[4]}")
        return res

    def slot(vals, inputs, pname):
        """vals[j] observed when the parameter `pname` was inputs[j]"""
        if vals and all(v == i for v, i in zip(vals, inputs)):
            return pname
        if vals and len(set(vals)) == 1 and isinstance(vals[0], int):
            return str(vals[0])
        return str(BAD)

    sites = {"kdkCall": None, "blkCall": None}
    try:
        if kf is None or not rights or not klens:
            raise Untr("derivation data not executable")
        runs = {"kdkCall": [], "blkCall": []}
        for r in rights:
            for k in klens:
                del rec[:]
                o = itK.new("KeyDerivator", pck=PCK, timestamp=TS, key_length=k, kdk_access_rights=r)
                runs["kdkCall"].append((r, k, decode(list(rec), r, k)))
                o.attrs["kdk"] = KDK
                del rec[:]
                gb = itK.method("KeyDerivator", "get_block_key")
                if gb is None:
                    raise Untr("KeyDerivator.get_block_key not found")
                itK.run(gb, [o, BN])
                runs["blkCall"].append((r, k, decode(list(rec), r, k)))
        for nm, rs in runs.items():
            keys, consts = {x[2][0] for x in rs}, {x[2][1] for x in rs}
            if len(keys) != 1 or len(consts) != 1:
                raise Untr(f"{nm}: key / derivation constant vary with rights or key length")
            sites[nm] = (keys.pop(), consts.pop(), slot([x[2][2] for x in rs], [x[0] for x in rs], "kdk_access_rights"),
                         slot([x[2][3] for x in rs], [None] * len(rs), "mode"), slot([x[2][4] for x in rs], [x[1] for x in rs], "key_length"))
    except (Untr, PyRaise, NotConst) as exc:
        note("KeyDerivator call sites", exc)
    for nm, (kp, cp, doc) in {"kdkCall": ("pck", "timestamp", "KeyDerivator.__init__ (the KDK)"),
                               "blkCall": ("kdk", "block_number", "KeyDerivator.get_block_key")}.items():
        st = sites[nm]
        ok = st is not None and st[0] == kp and st[1] == cp
        body = f"({st[0]}, {st[1]}, {st[2]}, {st[3]}, {st[4]})" if ok else f"([], {BAD}, {BAD}, {BAD}, {BAD})"
        meta[nm] = "executed" if ok else "sentinel"
        L.append(f"/-- (CMAC key, derivation constant, access rights, mode, key length) that reach `_get_key_derivation_data` from {doc}: by execution -/")
        L.append(f"def {nm} ({kp} : Bytes) ({cp} key_length kdk_access_rights : Nat) : Bytes × Nat × Nat × Nat × Nat := {body}")
    # ---- header layout and description adjustment BY EXECUTION of SecureBinary31Header.export / _adjust_description on marker values
    # (every field a distinct byte pattern: one sample pins down order, widths and byte order of a fixed layout)
    itH = ObjInterp(img, {"get_hash_length": lambda h: h}, cls="SecureBinary31Header")
    HM = dict(flags=0xA1A2A3A4, block_count=0xB1B2B3B4, timestamp=0xC1C2C3C4C5C6C7C8, firmware_version=0xD1D2D3D4,
              image_total_length=0xE1E2E3E4, image_type=6, description=bytes(range(0x30, 0x40)), hash_type=32)
    sample = None
    try:
        ho = _Obj("SecureBinary31Header")
        ho.attrs.update(HM)
        ex = itH.method("SecureBinary31Header", "export")
        if ex is None:
            raise Untr("SecureBinary31Header.export not found")
        r = outcome(lambda: itH.run(ex, [ho]))
        if r[0] != "ok" or not isinstance(r[1], bytes):
            raise Untr(f"export: {r}")
        sample = r[1]
    except (Untr, PyRaise, NotConst) as exc:
        note("SecureBinary31Header.export (executed)", exc)
    meta["hdrSample"] = "executed" if sample is not None else "sentinel"
    L.append("/-- `SecureBinary31Header.export()` EXECUTED for flags 0xA1A2A3A4, block_count 0xB1B2B3B4, SHA-256, timestamp 0xC1..C8, "
             "firmware_version 0xD1D2D3D4, image_total_length 0xE1E2E3E4, image_type 6, description 0x30..0x3F -/")
    L.append(f"def hdrSample : Bytes := [{', '.join(map(str, sample)) if sample is not None else ''}]")
    rows = []
    try:
        adj = itH.method("SecureBinary31Header", "_adjust_description")
        if adj is None:
            raise Untr("_adjust_description not found")
        for n in range(0, 21):
            text = "".join(chr(0x41 + i) for i in range(n))
            r = outcome(lambda: itH.run(adj, [_Obj("SecureBinary31Header"), text or None]))
            if r[0] != "ok" or not isinstance(r[1], bytes):
                raise Untr(f"_adjust_description({n} chars): {r}")
            rows.append((n, r[1]))
    except (Untr, PyRaise, NotConst) as exc:
        note("_adjust_description (executed)", exc)
        rows = []
    meta["descTable"] = "executed" if rows else "sentinel"
    L.append("/-- `_adjust_description` EXECUTED on the descriptions \"\", \"A\", \"AB\", … of 0..20 characters: (length, result) -/")
    L.append("def descTable : List (Nat × Bytes) := [" + ", ".join(f"({n}, [{', '.join(map(str, b))}])" for n, b in rows) + "]")
    # ---- every command class: the classes of commands.py that derive (transitively) from BaseCmd and have no subclass
    bases = {n.name: [b.id for b in n.bases if isinstance(b, ast.Name)] for n in cmd.body if isinstance(n, ast.ClassDef)}

    def derives(cn, seen=()):
        return cn == "BaseCmd" or any(derives(b, seen + (cn,)) for b in bases.get(cn, []) if b not in seen)

    leaves = sorted(cn for cn in bases if cn != "BaseCmd" and derives(cn) and not any(cn in bs for bs in bases.values()))
    L.append("def cmdLeafClasses : List String := [" + ", ".join(f'"{x}"' for x in leaves) + "]  -- concrete command classes of commands.py (descendants of BaseCmd without subclasses)")
    # ---- every command class EXECUTED: constructor + export() on marker arguments (distinct byte patterns in every field, data lengths that
    # need padding) through the object interpreter: `super()`, properties / setters, class constants along the bases, `align_block` stub
    def _align(data=None, alignment=4, padding=None):
        data = bytes(data)
        return data + bytes((-len(data)) % alignment) if alignment > 0 else data

    tagns = types.SimpleNamespace(**{n: types.SimpleNamespace(tag=v, label=n) for n, v in tags})
    itC = ObjInterp(cmd, {"EnumCmdTag": tagns, "align_block": _align})
    A, B_, C_, D5, D8 = 0xA1A2A3A4, 0xB1B2B3B4, 0xC1C2C3C4, bytes([1, 2, 3, 4, 5]), bytes([1, 2, 3, 4, 5, 6, 7, 8])
    plan = [("CmdCall", [A]), ("CmdConfigureMemory", [A, B_]), ("CmdCopy", [A, B_, C_, 0xD1D2D3D4, 0xE1E2E3E4]), ("CmdErase", [A, B_, C_]),
            ("CmdExecute", [A]), ("CmdFillMemory", [A, B_, C_]), ("CmdFwVersionCheck", [A, types.SimpleNamespace(tag=5, label="bootloader")]),
            ("CmdLoad", [A, D5, C_]), ("CmdLoadCmac", [A, D5, C_]), ("CmdLoadHashLocking", [A, D5, C_]), ("CmdLoadKeyBlob", [0xA1A2, D5, 0xB1B2]),
            ("CmdProgFuses", [A, D8]), ("CmdProgIfr", [A, D5]), ("CmdReset", [])]
    samples = []
    for cname, args in plan:
        try:
            o = itC.new(cname, *args)
            ex = itC.method(cname, "export")
            if ex is None:
                raise Untr("export not found")
            r = outcome(lambda: itC.run(ex, [o]))
            if r[0] != "ok" or not isinstance(r[1], bytes):
                raise Untr(f"export: {r}")
            samples.append((cname, r[1]))
        except (Untr, PyRaise, NotConst, KeyError) as exc:
            note(f"{cname} (executed)", exc)
            samples.append((cname, b""))
    meta["cmdSamples"] = {c: ("executed" if b else "sentinel") for c, b in samples}
    L.append("/-- constructor + `export()` of every command class EXECUTED on marker arguments (address 0xA1A2A3A4, second field 0xB1B2B3B4, third 0xC1C2C3C4, "
             "copy memory ids 0xD1D2D3D4 / 0xE1E2E3E4, data 01..05 (fuses 01..08), key blob offset 0xA1A2 / wrap id 0xB1B2, counter id 5) -/")
    L.append("def cmdSamples : List (String × Bytes) := [" + ", ".join(f'("{c}", [{", ".join(map(str, b))}])' for c, b in samples) + "]")
    L += ["", "end SpsdkVerif.Generated.Sb31Consts"]
    emit("Sb31Consts", "\n".join(L) + "\n", meta)


GENERATORS = {"Sb31Consts": gen_Sb31Consts}
