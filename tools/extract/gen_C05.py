"""C05 generator: Generated/Sb31Consts.lean from the CURRENT SB3.1 sources (pure `ast` reading).

Emits plain `def`s (namespace SpsdkVerif.Generated.Sb31Consts):
  * the EnumCmdTag members (14 commands + NONE), BaseCmd.TAG, TAG_TO_CLASS coverage, CFG_NAME_TO_CLASS (YAML name -> class -> tag)
    and the configuration keys every class reads in load_from_config,
  * every struct format the export path packs with (as lists of field widths, little-endian flag),
    HEADER magic / version / description length / sizes, DATA_CHUNK_LENGTH, alignment constants of the
    command exports, the hash-locking tail, the fuse word size, effective HAS_MEMORY_ID_BLOCK per concrete load-like class,
  * small integer functions translated from the property bodies: `certBlockOffset h`, `blockSize h`,
    `keyLenOfHash`, image type values, and -- from `SecureBinary31Header.update` -- the value of
    `image_total_length` after an export as a function of its OLD value (`updTotalLength old h cert`):
    an accumulating `+=` shows up here and breaks the history theorem,
  * `chainStartHash old h`: the value of `final_hash` when the first block of an export is processed
    (`zeros h` iff one of export / process_cmd_blocks_to_export resets it before `_process_block` runs),
  * `kdfData`: a symbolic translation of `_get_key_derivation_data` (straight-line bytes building), and
    the iteration / key-length constants of `_derive_key`.
The model (Model/Sb31.lean) computes with these; Properties/C05.lean proves the ROM-side reading of the
format (hand-written constants) accepts what the model exports, so a changed source constant stops a
theorem from compiling.  Anything the translator does not recognise becomes a sentinel value
(999999 / `[]`) -- never a silently "right" one -- and is listed in the meta json.
"""
from __future__ import annotations

import ast
import re

from extract import emit, parse

IMG = "spsdk/sbfile/sb31/images.py"
CMD = "spsdk/sbfile/sb31/commands.py"
FUN = "spsdk/sbfile/sb31/functions.py"
CON = "spsdk/sbfile/sb31/constants.py"

BAD = 999999
_W = {"B": 1, "b": 1, "H": 2, "h": 2, "I": 4, "i": 4, "L": 4, "l": 4, "Q": 8, "q": 8, "s": 1, "c": 1, "x": 1}


class Untr(Exception):
    pass


def _cls(tree, name):
    for n in ast.walk(tree):
        if isinstance(n, ast.ClassDef) and n.name == name:
            return n
    return None


def _fun(node, name):
    if node is None:
        return None
    for n in node.body if hasattr(node, "body") else []:
        if isinstance(n, (ast.FunctionDef, ast.AsyncFunctionDef)) and n.name == name:
            return n
    return None


def class_consts(c):
    out = {}
    if c is None:
        return out
    for st in c.body:
        tgt = val = None
        if isinstance(st, ast.Assign) and len(st.targets) == 1 and isinstance(st.targets[0], ast.Name):
            tgt, val = st.targets[0].id, st.value
        elif isinstance(st, ast.AnnAssign) and isinstance(st.target, ast.Name) and st.value is not None:
            tgt, val = st.target.id, st.value
        if tgt:
            try:
                out[tgt] = ast.literal_eval(val)
            except (ValueError, SyntaxError):
                pass
    return out


def enum_members(c):
    out = []
    if c is None:
        return out
    for st in c.body:
        if isinstance(st, ast.Assign) and len(st.targets) == 1 and isinstance(st.targets[0], ast.Name) \
                and isinstance(st.value, ast.Tuple) and st.value.elts:
            try:
                v = ast.literal_eval(st.value.elts[0])
            except (ValueError, SyntaxError):
                continue
            if isinstance(v, int):
                out.append((st.targets[0].id, v))
    return out


def fmt_widths(fmt):
    """'<4s2H3LQ4L16s' -> (little?, [4,2,2,4,4,4,8,4,4,4,4,16]); `{}`-interpolated counts become 0."""
    if not isinstance(fmt, str):
        return None
    little = fmt[:1] == "<"
    s = fmt[1:] if fmt[:1] in "<>=!@" else fmt
    out = []
    for m in re.finditer(r"(\d+|\{\})?([A-Za-z])", s):
        cnt, ch = m.group(1), m.group(2)
        if ch not in _W:
            return None
        if ch == "s":
            out.append(0 if cnt == "{}" else int(cnt or 1))
        else:
            out += [_W[ch]] * (1 if cnt in (None, "{}") else int(cnt))
    return little, out


def calcsize(fmt):
    r = fmt_widths(fmt)
    return sum(r[1]) if r else BAD


def pack_formats(fn):
    """format strings of pack(...) calls in `fn`, source order (`self.FORMAT` -> 'FORMAT')."""
    out = []
    if fn is None:
        return out
    calls = [n for n in ast.walk(fn) if isinstance(n, ast.Call)]
    calls.sort(key=lambda n: (n.lineno, n.col_offset))
    for n in calls:
        f = n.func
        name = f.attr if isinstance(f, ast.Attribute) else f.id if isinstance(f, ast.Name) else None
        if name == "pack" and n.args:
            a = n.args[0]
            if isinstance(a, ast.Constant) and isinstance(a.value, str):
                out.append(a.value)
            elif isinstance(a, ast.JoinedStr):
                out.append("".join(v.value if isinstance(v, ast.Constant) else "{}" for v in a.values))
            elif isinstance(a, ast.Attribute):
                out.append("@" + a.attr)
    return out


def kwarg_int(fn, callee, kw, default=BAD):
    """integer value of keyword `kw` (or 2nd positional) in the first call of `callee` inside fn."""
    if fn is None:
        return default
    calls = [n for n in ast.walk(fn) if isinstance(n, ast.Call)]
    calls.sort(key=lambda n: (n.lineno, n.col_offset))
    for n in calls:
        f = n.func
        name = f.attr if isinstance(f, ast.Attribute) else f.id if isinstance(f, ast.Name) else None
        if name == callee:
            for k in n.keywords:
                if k.arg == kw:
                    try:
                        return int(ast.literal_eval(k.value))
                    except (ValueError, SyntaxError, TypeError):
                        return default
            if len(n.args) >= 2:
                try:
                    return int(ast.literal_eval(n.args[1]))
                except (ValueError, SyntaxError, TypeError):
                    return default
    return default


# ---------------------------------------------------------------------------------------------------
# tiny symbolic translator for integer expressions over Nat
class IntTr:
    def __init__(self, names, attrs, calls):
        self.names, self.attrs, self.calls = dict(names), dict(attrs), dict(calls)

    def tr(self, e):
        if isinstance(e, ast.Constant) and isinstance(e.value, int) and not isinstance(e.value, bool) and e.value >= 0:
            return str(e.value)
        if isinstance(e, ast.Name):
            if e.id in self.names:
                return self.names[e.id]
            raise Untr(f"name {e.id}")
        if isinstance(e, ast.Attribute):
            key = ast.unparse(e)
            if key in self.attrs:
                return self.attrs[key]
            raise Untr(f"attribute {key}")
        if isinstance(e, ast.Call):
            key = ast.unparse(e.func)
            if key in self.calls:
                return self.calls[key]
            raise Untr(f"call {key}")
        if isinstance(e, ast.BinOp):
            a, b = self.tr(e.left), self.tr(e.right)
            op = {ast.Add: "+", ast.Mult: "*", ast.FloorDiv: "/", ast.LShift: "<<<", ast.Mod: "%"}.get(type(e.op))
            if op is None:
                raise Untr(f"operator {type(e.op).__name__}")
            return f"({a} {op} {b})"
        if isinstance(e, ast.IfExp):
            return f"(if {self.cond(e.test)} then {self.tr(e.body)} else {self.tr(e.orelse)})"
        raise Untr(f"expression {type(e).__name__}")

    def cond(self, t):
        if isinstance(t, ast.Compare) and len(t.ops) == 1 and isinstance(t.ops[0], (ast.Eq, ast.NotEq)):
            a, b = self.tr(t.left), self.tr(t.comparators[0])
            return f"{a} {'=' if isinstance(t.ops[0], ast.Eq) else '≠'} {b}"
        if isinstance(t, ast.Name) and t.id in self.names:
            return f"{self.names[t.id]} = true"
        raise Untr("condition " + ast.unparse(t))


def translate_update(cls_hdr, header_size):
    """symbolic value of self.image_total_length after SecureBinary31Header.update, as a Lean Nat expression in
    `old` (value before), `h` (hash length), `cert` (cert_block.expected_size)."""
    fn = _fun(cls_hdr, "update")
    if fn is None:
        raise Untr("no update()")
    tr = IntTr({}, {"self.HEADER_SIZE": str(header_size), "cert_block.expected_size": "cert",
                    "self.image_total_length": "old"}, {"get_hash_length": "h"})
    for st in fn.body:
        if isinstance(st, ast.Expr) and isinstance(st.value, ast.Constant):
            continue  # docstring
        if isinstance(st, ast.Assign) and len(st.targets) == 1:
            t = st.targets[0]
            if isinstance(t, ast.Name):
                tr.names[t.id] = tr.tr(st.value)
                continue
            if isinstance(t, ast.Attribute) and ast.unparse(t) == "self.image_total_length":
                tr.attrs["self.image_total_length"] = tr.tr(st.value)
                continue
            if isinstance(t, ast.Attribute) and ast.unparse(t) == "self.block_count":
                continue
            raise Untr("assignment to " + ast.unparse(t))
        if isinstance(st, ast.AugAssign) and isinstance(st.op, ast.Add) and ast.unparse(st.target) == "self.image_total_length":
            tr.attrs["self.image_total_length"] = f"({tr.attrs['self.image_total_length']} + {tr.tr(st.value)})"
            continue
        raise Untr("statement " + type(st).__name__)
    return tr.attrs["self.image_total_length"]


def chain_start_resets(tree):
    """Does the export path assign `self.final_hash = bytes(...)` before the blocks are processed?

    Looks (in call order) at SecureBinary31.export, SecureBinary31Commands.export and
    SecureBinary31Commands.process_cmd_blocks_to_export; a reset counts when it is a top-level statement of
    one of them that precedes the statement which (transitively) runs `_process_block`.
    For SecureBinary31.export the attribute is `self.sb_commands.final_hash`."""
    sb, cm = _cls(tree, "SecureBinary31"), _cls(tree, "SecureBinary31Commands")
    sites = [(_fun(sb, "export"), "self.sb_commands.final_hash", ("sb_commands.export",)),
             (_fun(cm, "export"), "self.final_hash", ("process_cmd_blocks_to_export",)),
             (_fun(cm, "process_cmd_blocks_to_export"), "self.final_hash", ("_process_block",))]
    for fn, attr, callees in sites:
        if fn is None:
            continue
        for st in fn.body:
            src = ast.unparse(st)
            if any(c + "(" in src for c in callees):
                break
            if isinstance(st, ast.Assign) and len(st.targets) == 1 and ast.unparse(st.targets[0]) == attr \
                    and isinstance(st.value, ast.Call) and ast.unparse(st.value.func) == "bytes":
                return True, f"{fn.name}:{st.lineno}"
    return False, None


# ---------------------------------------------------------------------------------------------------
# symbolic translator for the straight-line bytes-building function _get_key_derivation_data
class BytesTr:
    def __init__(self, params, enum_tags):
        self.env = {p: ("int", p) for p in params}
        self.enum_tags = enum_tags
        self.guards = {}

    def int_(self, e):
        if isinstance(e, ast.Constant) and isinstance(e.value, int) and not isinstance(e.value, bool) and e.value >= 0:
            return str(e.value)
        if isinstance(e, ast.Name) and e.id in self.env and self.env[e.id][0] == "int":
            return self.env[e.id][1]
        if isinstance(e, ast.Attribute):
            key = ast.unparse(e)
            if key in self.enum_tags:
                return str(self.enum_tags[key])
            raise Untr("attribute " + key)
        if isinstance(e, ast.BinOp):
            op = {ast.Add: "+", ast.Mult: "*", ast.LShift: "<<<", ast.BitOr: "|||"}.get(type(e.op))
            if op is None:
                raise Untr("int operator " + type(e.op).__name__)
            return f"({self.int_(e.left)} {op} {self.int_(e.right)})"
        if isinstance(e, ast.IfExp):
            return f"(if {self.cond(e.test)} then {self.int_(e.body)} else {self.int_(e.orelse)})"
        raise Untr("int expression " + ast.unparse(e))

    def cond(self, t):
        if isinstance(t, ast.Compare) and len(t.ops) == 1 and isinstance(t.ops[0], (ast.Eq, ast.NotEq)):
            return f"{self.int_(t.left)} {'=' if isinstance(t.ops[0], ast.Eq) else '≠'} {self.int_(t.comparators[0])}"
        raise Untr("condition " + ast.unparse(t))

    def bytes_(self, e):
        if isinstance(e, ast.Constant) and isinstance(e.value, bytes):
            return "[" + ", ".join(f"0x{b:02x}" for b in e.value) + "]"
        if isinstance(e, ast.Name) and e.id in self.env and self.env[e.id][0] == "bytes":
            return self.env[e.id][1]
        if isinstance(e, ast.BinOp) and isinstance(e.op, ast.Add):
            return f"{self.bytes_(e.left)} ++ {self.bytes_(e.right)}"
        if isinstance(e, ast.IfExp):
            return f"(if {self.cond(e.test)} then {self.bytes_(e.body)} else {self.bytes_(e.orelse)})"
        if isinstance(e, ast.Call):
            f = ast.unparse(e.func)
            if f == "bytes" and len(e.args) == 1 and not e.keywords:
                return f"zeros {self.int_(e.args[0])}"
            if f == "int.to_bytes" or (isinstance(e.func, ast.Attribute) and e.func.attr == "to_bytes"):
                args = list(e.args)
                val = args.pop(0) if f == "int.to_bytes" else e.func.value
                kw = {k.arg: k.value for k in e.keywords}
                length = kw.get("length", args[0] if args else None)
                order = kw.get("byteorder", args[1] if len(args) > 1 else None)
                if length is None or order is None:
                    raise Untr("to_bytes without length/byteorder")
                o = ast.unparse(order)
                if "LITTLE" in o or o in ("'little'", '"little"'):
                    enc = "leEnc"
                elif "BIG" in o or o in ("'big'", '"big"'):
                    enc = "beEnc"
                else:
                    raise Untr("byteorder " + o)
                return f"{enc} {self.int_(length)} {self.int_(val)}"
        raise Untr("bytes expression " + ast.unparse(e))

    def any_(self, e):
        try:
            return ("bytes", self.bytes_(e))
        except Untr:
            return ("int", self.int_(e))

    def run(self, fn):
        for st in fn.body:
            if isinstance(st, ast.Expr) and isinstance(st.value, ast.Constant):
                continue
            if isinstance(st, ast.If) and len(st.body) == 1 and isinstance(st.body[0], ast.Raise) and not st.orelse:
                t = st.test  # domain guard `x not in [..]`
                if isinstance(t, ast.Compare) and isinstance(t.ops[0], ast.NotIn) and isinstance(t.left, ast.Name):
                    try:
                        self.guards[t.left.id] = [int(v) for v in ast.literal_eval(t.comparators[0])]
                    except (ValueError, SyntaxError, TypeError):
                        self.guards[t.left.id] = None
                    continue
                raise Untr("guard " + ast.unparse(t))
            if isinstance(st, ast.Assign) and len(st.targets) == 1 and isinstance(st.targets[0], ast.Name):
                kind, txt = self.any_(st.value)
                self.env[st.targets[0].id] = (kind, f"({txt})")
                continue
            if isinstance(st, ast.AugAssign) and isinstance(st.op, ast.Add) and isinstance(st.target, ast.Name):
                kind, cur = self.env[st.target.id]
                if kind != "bytes":
                    raise Untr("+= on int")
                self.env[st.target.id] = ("bytes", f"({cur} ++ {self.bytes_(st.value)})")
                continue
            if isinstance(st, ast.Return):
                return self.bytes_(st.value)
            raise Untr("statement " + type(st).__name__)
        raise Untr("no return")


def gen_Sb31Consts():
    meta = {"sources": [IMG, CMD, FUN, CON], "untranslated": [], "formats": {}}
    L = ["import SpsdkVerif.Crypto.Modes", "", "namespace SpsdkVerif.Generated.Sb31Consts",
         "open SpsdkVerif.Misc (beEnc leEnc)", "open SpsdkVerif.Crypto (zeros)", "abbrev Bytes := SpsdkVerif.Misc.Bytes", ""]

    def d(name, val, comment=None):
        L.append(f"def {name} : Nat := {val}" + (f"  -- {comment}" if comment else ""))

    try:
        img, cmd, fun, con = parse(IMG), parse(CMD), parse(FUN), parse(CON)
    except (OSError, SyntaxError) as exc:
        meta["untranslated"].append(f"source unreadable: {exc}")
        img = cmd = fun = con = ast.parse("")

    # ---- command tags
    tags = enum_members(_cls(con, "EnumCmdTag"))
    td = dict(tags)
    L.append(f"def cmdTags : List (String × Nat) := [{', '.join(f'(\"{n}\", {v})' for n, v in tags)}]")
    names = {"ERASE": "tagErase", "LOAD": "tagLoad", "EXECUTE": "tagExecute", "CALL": "tagCall", "PROGRAM_FUSES": "tagProgFuses",
             "PROGRAM_IFR": "tagProgIfr", "LOAD_CMAC": "tagLoadCmac", "COPY": "tagCopy", "LOAD_HASH_LOCKING": "tagLoadHashLocking",
             "LOAD_KEY_BLOB": "tagLoadKeyBlob", "CONFIGURE_MEMORY": "tagConfigureMemory", "FILL_MEMORY": "tagFillMemory",
             "FW_VERSION_CHECK": "tagFwVersionCheck", "RESET": "tagReset"}
    for n, lean in names.items():
        d(lean, td.get(n, BAD), f"EnumCmdTag.{n}")
    # which tag does each command class pass to BaseCmd.__init__ (cmd_tag=EnumCmdTag.X)?
    cls_tag = []
    for c in [n for n in ast.walk(cmd) if isinstance(n, ast.ClassDef) and n.name.startswith("Cmd")]:
        init = _fun(c, "__init__")
        if init is None:
            continue
        for n in ast.walk(init):
            if isinstance(n, ast.keyword) and n.arg == "cmd_tag" and isinstance(n.value, ast.Attribute) \
                    and isinstance(n.value.value, ast.Name) and n.value.value.id == "EnumCmdTag":
                cls_tag.append((c.name, td.get(n.value.attr, BAD)))
    cls_tag.sort()
    L.append(f"def classTags : List (String × Nat) := [{', '.join(f'(\"{a}\", {b})' for a, b in cls_tag)}]")
    # TAG_TO_CLASS
    t2c = []
    for n in ast.walk(cmd):
        tgt = n.target if isinstance(n, ast.AnnAssign) else n.targets[0] if isinstance(n, ast.Assign) and n.targets else None
        if isinstance(tgt, ast.Name) and tgt.id == "TAG_TO_CLASS" and isinstance(n.value, ast.Dict):
            for k, v in zip(n.value.keys, n.value.values):
                if isinstance(k, ast.Attribute) and isinstance(v, ast.Name):
                    t2c.append((td.get(k.attr, BAD), v.id))
    L.append(f"def tagToClass : List (Nat × String) := [{', '.join(f'({a}, \"{b}\")' for a, b in t2c)}]")

    # CFG_NAME_TO_CLASS: YAML command name -> class, composed with the class tags: YAML name -> command tag
    c2t = dict(cls_tag)
    n2c = []
    for n in ast.walk(cmd):
        tgt = n.target if isinstance(n, ast.AnnAssign) else n.targets[0] if isinstance(n, ast.Assign) and n.targets else None
        if isinstance(tgt, ast.Name) and tgt.id == "CFG_NAME_TO_CLASS" and isinstance(n.value, ast.Dict):
            for k, v in zip(n.value.keys, n.value.values):
                if isinstance(k, ast.Constant) and isinstance(v, ast.Name):
                    n2c.append((str(k.value), v.id))
    L.append(f"def cfgNameToClass : List (String × String) := [{', '.join(f'(\"{a}\", \"{b}\")' for a, b in n2c)}]")
    L.append(f"def cfgNameToTag : List (String × Nat) := [{', '.join(f'(\"{a}\", {c2t.get(b, BAD)})' for a, b in n2c)}]")
    # configuration keys each command class reads in load_from_config (`config["k"]`, `config.get("k", …)`), sorted
    keys = []
    for cname in sorted({b for _, b in n2c}):
        fn = _fun(_cls(cmd, cname), "load_from_config")
        ks = set()
        for n in ast.walk(fn) if fn is not None else []:
            if isinstance(n, ast.Subscript) and isinstance(n.value, ast.Name) and n.value.id == "config" \
                    and isinstance(n.slice, ast.Constant) and isinstance(n.slice.value, str):
                ks.add(n.slice.value)
            if isinstance(n, ast.Call) and isinstance(n.func, ast.Attribute) and n.func.attr == "get" \
                    and isinstance(n.func.value, ast.Name) and n.func.value.id == "config" and n.args \
                    and isinstance(n.args[0], ast.Constant) and isinstance(n.args[0].value, str):
                ks.add(n.args[0].value)
        keys.append((cname, sorted(ks)))
    L.append("def cfgKeys : List (String × List String) := [" +
             ", ".join(f'(\"{a}\", [{", ".join(chr(34) + k + chr(34) for k in ks)}])' for a, ks in keys) + "]")
    meta["cfg_keys"] = {a: ks for a, ks in keys}
    # keys read with a default (`config.get("k", d)`): optional in a configuration; d as written
    opts = []
    for cname in sorted({b for _, b in n2c}):
        fn = _fun(_cls(cmd, cname), "load_from_config")
        ds = {}
        for n in ast.walk(fn) if fn is not None else []:
            if isinstance(n, ast.Call) and isinstance(n.func, ast.Attribute) and n.func.attr == "get" \
                    and isinstance(n.func.value, ast.Name) and n.func.value.id == "config" and len(n.args) == 2 \
                    and isinstance(n.args[0], ast.Constant) and isinstance(n.args[1], ast.Constant):
                ds[str(n.args[0].value)] = str(n.args[1].value)
        for k in sorted(ds):
            opts.append((cname, k, ds[k]))
    L.append("def cfgDefaults : List (String × String × String) := [" +
             ", ".join(f'(\"{a}\", \"{k}\", \"{v}\")' for a, k, v in opts) + "]")

    # ---- command formats / constants
    base = _cls(cmd, "BaseCmd")
    bc = class_consts(base)
    d("cmdMagic", bc.get("TAG", BAD), "BaseCmd.TAG")
    fm = {"fmtBaseCmd": bc.get("FORMAT"), "fmtKeyBlob": class_consts(_cls(cmd, "CmdLoadKeyBlob")).get("FORMAT"),
          "fmtSection": class_consts(_cls(cmd, "CmdSectionHeader")).get("FORMAT"),
          "fmtHeader": class_consts(_cls(img, "SecureBinary31Header")).get("HEADER_FORMAT")}
    for cname, fname, lean in (("CmdLoadBase", "export", "fmtLoadMemBlock"), ("CmdErase", "export", "fmtEraseTail"),
                               ("CmdCopy", "export", "fmtCopyTail"), ("CmdFillMemory", "export", "fmtFillTail"),
                               ("SecureBinary31Commands", "_process_block", "fmtDataBlock")):
        tree = img if cname.startswith("Secure") else cmd
        pf = pack_formats(_fun(_cls(tree, cname), fname))
        fm[lean] = pf[0] if pf else None
    for lean, f in fm.items():
        r = fmt_widths(f)
        meta["formats"][lean] = f
        if r is None:
            meta["untranslated"].append(f"format {lean}: {f!r}")
            L.append(f"def {lean} : List Nat := [{BAD}]")
            L.append(f"def {lean}Little : Bool := false")
        else:
            L.append(f"def {lean} : List Nat := [{', '.join(map(str, r[1]))}]  -- {f}")
            L.append(f"def {lean}Little : Bool := {'true' if r[0] else 'false'}")
    d("loadAlign", kwarg_int(_fun(_cls(cmd, "CmdLoadBase"), "export"), "align_block", "alignment"), "CmdLoadBase.export align_block")
    d("keyBlobAlign", kwarg_int(_fun(_cls(cmd, "CmdLoadKeyBlob"), "export"), "align_block", "alignment"), "CmdLoadKeyBlob.export align_block")
    # hash-locking tail: `data += bytes(64)`
    tail = BAD
    hl = _fun(_cls(cmd, "CmdLoadHashLocking"), "export")
    for n in ast.walk(hl) if hl is not None else []:
        if isinstance(n, ast.Call) and ast.unparse(n.func) == "bytes" and len(n.args) == 1:
            try:
                tail = int(ast.literal_eval(n.args[0]))
            except (ValueError, SyntaxError, TypeError):
                pass
    d("hashLockTail", tail, "CmdLoadHashLocking.export appends bytes(n)")
    # fuse word size: `self.length //= 4`
    fw = BAD
    pf_init = _fun(_cls(cmd, "CmdProgFuses"), "__init__")
    for n in ast.walk(pf_init) if pf_init is not None else []:
        if isinstance(n, ast.AugAssign) and isinstance(n.op, ast.FloorDiv) and ast.unparse(n.target) == "self.length":
            try:
                fw = int(ast.literal_eval(n.value))
            except (ValueError, SyntaxError, TypeError):
                pass
    d("fuseWordSize", fw, "CmdProgFuses.__init__: self.length //= n")
    # constructor guard `if len(data) % n [!= 0]: raise SPSDKError` (0 = no guard: partial words are accepted)
    fg = 0
    for n in pf_init.body if pf_init is not None else []:
        if isinstance(n, ast.If) and n.body and isinstance(n.body[0], ast.Raise):
            t = n.test.left if isinstance(n.test, ast.Compare) and isinstance(n.test.ops[0], ast.NotEq) else n.test
            if isinstance(t, ast.BinOp) and isinstance(t.op, ast.Mod) and ast.unparse(t.left) == "len(data)":
                try:
                    fg = int(ast.literal_eval(t.right))
                except (ValueError, SyntaxError, TypeError):
                    fg = BAD
    d("fuseDataGuard", fg, "CmdProgFuses.__init__: data length must be a multiple of n (0: no guard)")
    # effective HAS_MEMORY_ID_BLOCK of every concrete load-like class (class attribute resolved through the bases)
    def eff_attr(cname, attr, depth=0):
        c = _cls(cmd, cname)
        if c is None or depth > 6:
            return None
        v = class_consts(c).get(attr)
        if v is not None:
            return v
        for b in c.bases:
            if isinstance(b, ast.Name):
                r = eff_attr(b.id, attr, depth + 1)
                if r is not None:
                    return r
        return None
    mem = []
    for cname in ("CmdLoad", "CmdLoadCmac", "CmdLoadHashLocking", "CmdProgFuses", "CmdProgIfr"):
        v = eff_attr(cname, "HAS_MEMORY_ID_BLOCK")
        if v is not None:
            mem.append((cname, bool(v)))
    L.append(f"def hasMemIdBlock : List (String × Bool) := [{', '.join(f'(\"{a}\", {str(b).lower()})' for a, b in mem)}]")
    sec_init = _fun(_cls(cmd, "CmdSectionHeader"), "__init__")
    sec_defaults = {}
    if sec_init is not None:
        args = sec_init.args.args
        for a, dv in zip(args[len(args) - len(sec_init.args.defaults):], sec_init.args.defaults):
            try:
                sec_defaults[a.arg] = int(ast.literal_eval(dv))
            except (ValueError, SyntaxError, TypeError):
                pass
    d("sectionUid", sec_defaults.get("section_uid", BAD), "CmdSectionHeader default section_uid")
    d("sectionType", sec_defaults.get("section_type", BAD), "CmdSectionHeader default section_type")

    # ---- header
    hc = _cls(img, "SecureBinary31Header")
    hcc = class_consts(hc)
    magic = hcc.get("MAGIC", b"")
    L.append(f"def hdrMagic : Bytes := [{', '.join(f'0x{b:02x}' for b in magic)}]  -- {magic!r}")
    ver = str(hcc.get("FORMAT_VERSION", f"{BAD}.{BAD}")).split(".")
    d("hdrVersionMajor", ver[0] if ver[0].isdigit() else BAD)
    d("hdrVersionMinor", ver[1] if len(ver) > 1 and ver[1].isdigit() else BAD)
    d("descLen", hcc.get("DESCRIPTION_LENGTH", BAD), "SecureBinary31Header.DESCRIPTION_LENGTH")
    header_size = calcsize(hcc.get("HEADER_FORMAT"))
    d("headerSize", header_size, "calcsize(HEADER_FORMAT)")
    cc = class_consts(_cls(img, "SecureBinary31Commands"))
    d("chunkLen", cc.get("DATA_CHUNK_LENGTH", BAD), "SecureBinary31Commands.DATA_CHUNK_LENGTH")

    def prop_fn(cname, pname, lean, params, trf):
        try:
            fn = _fun(_cls(img, cname), pname)
            if fn is None:
                raise Untr("not found")
            L.append(f"def {lean} {params} : Nat := {trf(fn)}  -- {cname}.{pname}")
        except Untr as exc:
            meta["untranslated"].append(f"{cname}.{pname}: {exc}")
            L.append(f"def {lean} {params} : Nat := {BAD}  -- untranslatable: {exc}")

    def ret_expr(fn, tr):
        for st in fn.body:
            if isinstance(st, ast.Return):
                return tr.tr(st.value)
        raise Untr("no return")

    hl_tr = IntTr({}, {}, {"get_hash_length": "h"})
    prop_fn("SecureBinary31Header", "cert_block_offset", "certBlockOffset", "(h : Nat)", lambda fn: ret_expr(fn, hl_tr))
    prop_fn("SecureBinary31Header", "block_size", "blockSize", "(h : Nat)", lambda fn: ret_expr(fn, hl_tr))
    prop_fn("SecureBinary31Header", "update", "updTotalLength", "(old h cert : Nat)", lambda fn: translate_update(hc, header_size))
    # initial value of image_total_length in __init__
    init_total = BAD
    hi = _fun(hc, "__init__")
    for st in hi.body if hi is not None else []:
        if isinstance(st, ast.Assign) and ast.unparse(st.targets[0]) == "self.image_total_length":
            try:
                init_total = IntTr({}, {"self.HEADER_SIZE": str(header_size)}, {}).tr(st.value)
            except Untr as exc:
                meta["untranslated"].append(f"__init__ image_total_length: {exc}")
    d("initTotalLength", init_total, "SecureBinary31Header.__init__: self.image_total_length")
    # image type: `7 if is_nxp_container else 6`
    nxp, oem = BAD, BAD
    for st in hi.body if hi is not None else []:
        if isinstance(st, ast.Assign) and ast.unparse(st.targets[0]) == "self.image_type" and isinstance(st.value, ast.IfExp):
            try:
                nxp, oem = int(ast.literal_eval(st.value.body)), int(ast.literal_eval(st.value.orelse))
            except (ValueError, SyntaxError, TypeError):
                pass
    d("imageTypeNxp", nxp)
    d("imageTypeOem", oem)
    resets, where = chain_start_resets(img)
    meta["chain_start_reset_at"] = where
    L.append(f"def chainStartHash (old : Bytes) (h : Nat) : Bytes := {'zeros h' if resets else 'old'}"
             f"  -- final_hash when the last block is processed ({'reset at ' + where if resets else 'never reset on the export path: stale value of the previous export'})")
    # key length per hash: {SHA256: 128, SHA384: 256}; hash per signature length {64: SHA256, 96: SHA384}
    hlen = {"SHA256": 32, "SHA384": 48, "SHA1": 20, "SHA512": 64}
    kl = []
    g = _fun(_cls(img, "SecureBinary31Commands"), "_get_key_length")
    for n in ast.walk(g) if g is not None else []:
        if isinstance(n, ast.Dict):
            for k, v in zip(n.keys, n.values):
                if isinstance(k, ast.Attribute) and isinstance(v, ast.Constant):
                    kl.append((hlen.get(k.attr, BAD), int(v.value)))
    L.append(f"def keyLenOfHash : List (Nat × Nat) := [{', '.join(f'({a}, {b})' for a, b in kl)}]  -- hash length -> AES key bits")
    sl = []
    si = _fun(_cls(img, "SecureBinary31"), "__init__")
    for n in ast.walk(si) if si is not None else []:
        if isinstance(n, ast.Dict) and n.keys and all(isinstance(k, ast.Constant) and isinstance(k.value, int) for k in n.keys):
            for k, v in zip(n.keys, n.values):
                if isinstance(v, ast.Attribute):
                    sl.append((int(k.value), hlen.get(v.attr, BAD)))
    L.append(f"def hashOfSigLen : List (Nat × Nat) := [{', '.join(f'({a}, {b})' for a, b in sl)}]  -- signature length -> hash length")

    # ---- KDF
    modes = dict(enum_members(_cls(fun, "KeyDerivationMode")))
    d("kdfModeKdk", modes.get("KDK", BAD), "KeyDerivationMode.KDK")
    d("kdfModeBlk", modes.get("BLK", BAD), "KeyDerivationMode.BLK")
    kf = _fun(fun, "_get_key_derivation_data")
    params = "(derivation_constant kdk_access_rights mode key_length iteration : Nat)"
    guards = {}
    try:
        if kf is None:
            raise Untr("not found")
        bt = BytesTr([a.arg for a in kf.args.args], {f"KeyDerivationMode.{k}": v for k, v in modes.items()})
        body = bt.run(kf)
        guards = bt.guards
        if [a.arg for a in kf.args.args] != ["derivation_constant", "kdk_access_rights", "mode", "key_length", "iteration"]:
            raise Untr("parameter list changed")
        L.append(f"/-- translated from `{FUN}::_get_key_derivation_data` (line {kf.lineno}) -/")
        L.append(f"def kdfData {params} : Bytes :=\n  {body}")
        meta["kdfData"] = "translated"
    except Untr as exc:
        meta["untranslated"].append(f"_get_key_derivation_data: {exc}")
        meta["kdfData"] = f"untranslatable: {exc}"
        L.append(f"def kdfData {params} : Bytes := []  -- untranslatable: {exc}")
    for pname, lean in (("kdk_access_rights", "kdfRights"), ("key_length", "kdfKeyLens")):
        v = guards.get(pname)
        L.append(f"def {lean} : List Nat := [{', '.join(map(str, v)) if v else BAD}]  -- accepted values of {pname}")
    # _derive_key: iterations and the key length that takes a second CMAC
    dk = _fun(fun, "_derive_key")
    iters, second_for = [], BAD
    for n in ast.walk(dk) if dk is not None else []:
        if isinstance(n, ast.keyword) and n.arg == "iteration":
            try:
                iters.append(int(ast.literal_eval(n.value)))
            except (ValueError, SyntaxError, TypeError):
                iters.append(BAD)
        if isinstance(n, ast.If) and isinstance(n.test, ast.Compare) and ast.unparse(n.test.left) == "key_length" \
                and isinstance(n.test.ops[0], ast.Eq):
            try:
                second_for = int(ast.literal_eval(n.test.comparators[0]))
            except (ValueError, SyntaxError, TypeError):
                pass
    L.append(f"def kdfIterations : List Nat := [{', '.join(map(str, iters))}]  -- _derive_key: iteration=… in source order")
    d("kdfTwoBlockKeyLen", second_for, "_derive_key: key_length that appends a second CMAC block")
    L += ["", "end SpsdkVerif.Generated.Sb31Consts"]
    emit("Sb31Consts", "\n".join(L) + "\n", meta)


GENERATORS = {"Sb31Consts": gen_Sb31Consts}
