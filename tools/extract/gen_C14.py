"""C14 generator: Generated/BimgTables.lean from the CURRENT device database and bootable_image sources.

Pure static reading (`yaml.safe_load` - the loader SPSDK's `load_configuration` uses - and `ast`); never imports spsdk.

What is emitted (namespace SpsdkVerif.Generated.BimgTables):
  * `kinds`     - one record per `Segment*` class of spsdk/image/bootable_image/segments.py: label of its
                  `BootableImageSegment` member, SIZE, OFFSET_ALIGNMENT, INIT_SEGMENT, BOOT_HEADER (class attributes resolved
                  along the base-class chain), IMAGE_PATTERNS, and the name of the class in that chain that defines
                  `parse_binary` / `find_segment_offset` / `__len__` (which parser applies to the kind),
  * `layouts`   - the distinct (ordered segment list with raw database offsets, image pattern) rows,
  * `rows`      - every (family, revision incl. "latest", memory type) of the bootable_image feature after the same
                  alias / revision / deep_update resolution `spsdk/utils/database.py::Device.load/_load_alias` performs,
                  with the index of its layout and whether the family is one the FCB class supports
                  (`FCB.get_supported_families()` + predecessor names),
  * `fcbTags`   - FCB.TAG and its byte-swapped form; `memTypes` - MemoryType labels.
The harness cross-checks rows/kinds against the live `get_db(...)`/`BootableImage`/segment classes on every run.
"""
from __future__ import annotations

import ast
import copy
import os

import yaml

from extract import REPO, emit, parse

SEG = "spsdk/image/bootable_image/segments.py"
FCBPY = "spsdk/image/fcb/fcb.py"
MEM = "spsdk/image/mem_type.py"
FEATURE = "bootable_image"


# ------------------------------------------------------------------------------------------------ database
def deep_update(d, u):
    for k, v in u.items():
        if isinstance(v, dict):
            d[k] = deep_update(d.get(k, {}), v)
        else:
            d[k] = v
    return d


class Db:
    """Replica of Device.load / Device._load_alias restricted to the features named in `keep`."""

    def __init__(self, keep):
        self.keep = keep
        self.root = REPO / "spsdk" / "data"
        self.defaults = yaml.safe_load((self.root / "common" / "database_defaults.yaml").read_text(encoding="utf-8"))
        self.cache = {}

    def names(self):
        return sorted(p.name for p in (self.root / "devices").iterdir() if (p / "database.yaml").exists())

    def _restrict(self, feats):
        return {k: v for k, v in (feats or {}).items() if k in self.keep}

    def load(self, name):
        if name in self.cache:
            return self.cache[name]
        cfg = yaml.safe_load((self.root / "devices" / name / "database.yaml").read_text(encoding="utf-8"))
        if cfg.get("alias"):
            base = self.load(cfg["alias"])
            dev = {"latest": cfg.get("latest", base["latest"]), "pred": None,
                   "revs": [{"name": r["name"], "is_latest": r["is_latest"], "features": copy.deepcopy(r["features"])}
                            for r in base["revs"]]}
            feats = self._restrict(cfg.get("features", {}))
            if feats:
                for r in dev["revs"]:
                    deep_update(r["features"], copy.deepcopy(feats))
            for rev_name, upd in (cfg.get("revisions") or {}).items():
                upd = upd or {}
                rev = next((r for r in dev["revs"] if r["name"] == rev_name), None)
                if rev is None:
                    alias_rev = upd.get("alias")
                    if not alias_rev:
                        raise ValueError(f"{name}: new revision {rev_name} without alias")
                    if alias_rev == "latest":
                        src = next(r for r in dev["revs"] if r["is_latest"])
                    else:
                        src = next(r for r in dev["revs"] if r["name"] == alias_rev)
                    rev = {"name": rev_name, "is_latest": dev["latest"] == rev_name, "features": copy.deepcopy(src["features"])}
                    dev["revs"].append(rev)
                rf = self._restrict(upd.get("features"))
                if rf:
                    deep_update(rev["features"], copy.deepcopy(rf))
            info = cfg.get("info") or {}
            if "spsdk_predecessor_name" in info:
                dev["pred"] = info["spsdk_predecessor_name"]
        else:
            dev_features = self._restrict(cfg["features"])
            defaults = copy.deepcopy(self._restrict(self.defaults["features"]))
            for fname in dev_features:
                deep_update(defaults[fname], dev_features[fname])
                dev_features[fname] = defaults[fname]
            latest = cfg["latest"]
            dev = {"latest": latest, "revs": [], "pred": (cfg.get("info") or {}).get("spsdk_predecessor_name",
                                                                                  self.defaults["info"].get("spsdk_predecessor_name"))}
            for rev_name, upd in cfg["revisions"].items():
                feats = copy.deepcopy(dev_features)
                rf = self._restrict((upd or {}).get("features"))
                if rf:
                    deep_update(feats, copy.deepcopy(rf))
                dev["revs"].append({"name": rev_name, "is_latest": rev_name == latest, "features": feats})
        self.cache[name] = dev
        return dev

    @staticmethod
    def get_rev(dev, name):
        """Revisions.get: 'latest' -> first revision flagged is_latest, else first with that name."""
        if name == "latest":
            return next((r for r in dev["revs"] if r["is_latest"]), None)
        return next((r for r in dev["revs"] if r["name"] == name), None)


# ------------------------------------------------------------------------------------------------ segment classes
def _lit(node):
    """literal, or a constant integer expression (`2 * 1024`, `1 << 10`, `0x400 + 0x200`, `-1`)"""
    try:
        return ast.literal_eval(node)
    except (ValueError, SyntaxError, TypeError):
        pass
    try:
        return _int_expr(node)
    except (ValueError, ZeroDivisionError):
        return None


def _int_expr(node):
    if isinstance(node, ast.Constant) and isinstance(node.value, int) and not isinstance(node.value, bool):
        return node.value
    if isinstance(node, ast.UnaryOp) and isinstance(node.op, (ast.USub, ast.UAdd)):
        v = _int_expr(node.operand)
        return -v if isinstance(node.op, ast.USub) else v
    if isinstance(node, ast.BinOp):
        a, b = _int_expr(node.left), _int_expr(node.right)
        ops = {ast.Add: lambda: a + b, ast.Sub: lambda: a - b, ast.Mult: lambda: a * b, ast.FloorDiv: lambda: a // b,
               ast.LShift: lambda: a << b, ast.RShift: lambda: a >> b, ast.BitOr: lambda: a | b, ast.BitAnd: lambda: a & b,
               ast.Pow: lambda: a ** b if 0 <= b <= 64 else (_ for _ in ()).throw(ValueError())}
        for k, f in ops.items():
            if isinstance(node.op, k):
                return f()
    raise ValueError("not a constant integer expression")


def segment_kinds():
    tree = parse(SEG)
    classes = {n.name: n for n in tree.body if isinstance(n, ast.ClassDef)}
    # enum labels: NAME = (tag, "label", "description")
    labels = {}
    for st in classes["BootableImageSegment"].body:
        if isinstance(st, ast.Assign) and isinstance(st.value, ast.Tuple):
            v = _lit(st.value)
            if v:
                labels[st.targets[0].id] = (v[0], v[1])

    def chain(name):
        out = []
        while name in classes:
            out.append(name)
            bases = [b.id for b in classes[name].bases if isinstance(b, ast.Name)]
            name = bases[0] if bases else None
        return out

    def attr(name, key):
        for c in chain(name):
            for st in classes[c].body:
                tgt = val = None
                if isinstance(st, ast.Assign) and len(st.targets) == 1 and isinstance(st.targets[0], ast.Name):
                    tgt, val = st.targets[0].id, st.value
                elif isinstance(st, ast.AnnAssign) and isinstance(st.target, ast.Name) and st.value is not None:
                    tgt, val = st.target.id, st.value
                if tgt == key:
                    return val
        return None

    def definer(name, meth):
        for c in chain(name):
            for st in classes[c].body:
                if isinstance(st, ast.FunctionDef) and st.name == meth:
                    return c
        return "?"

    kinds = []
    for cname in classes:
        ch = chain(cname)
        if "Segment" not in ch or cname == "Segment":
            continue
        nm = attr(cname, "NAME")
        member = nm.attr if isinstance(nm, ast.Attribute) else "?"
        tag, label = labels.get(member, (-1, "?"))
        cfg = _lit(attr(cname, "CFG_NAME"))
        kinds.append({
            "cls": cname, "label": label, "tag": tag, "cfg_key": cfg or label,
            "size": _lit(attr(cname, "SIZE")), "align": _lit(attr(cname, "OFFSET_ALIGNMENT")),
            "init_segment": bool(_lit(attr(cname, "INIT_SEGMENT"))), "boot_header": bool(_lit(attr(cname, "BOOT_HEADER"))),
            "patterns": list(_lit(attr(cname, "IMAGE_PATTERNS")) or []),
            "parser": definer(cname, "parse_binary"), "finder": definer(cname, "find_segment_offset"),
            "lener": definer(cname, "__len__"),
        })
    kinds.sort(key=lambda k: k["tag"])
    return kinds


BIMG = "spsdk/image/bootable_image/bimg.py"


def setter_structure():
    """Which paths of the `BootableImage.init_offset` setter recompute the segments' `excluded` flags (`self._update_segments()`):
    -> (on the `offset == 0` path, on the non-zero path, note).  Path-wise reading of the setter's AST: a call at the top level of the
    function body (after the branches) serves both paths; a call inside the `== 0` branch / its `else` serves that path only."""
    tree = parse(BIMG)

    def is_update(st):
        return (isinstance(st, ast.Expr) and isinstance(st.value, ast.Call) and isinstance(st.value.func, ast.Attribute)
                and st.value.func.attr == "_update_segments")

    def zero_test(test):
        """+1: test is `<x> == 0`, -1: `<x> != 0` / `<x>` truthiness, 0: something else"""
        if isinstance(test, ast.Compare) and len(test.ops) == 1 and isinstance(test.comparators[0], ast.Constant) and test.comparators[0].value == 0:
            return 1 if isinstance(test.ops[0], ast.Eq) else -1 if isinstance(test.ops[0], (ast.NotEq, ast.Gt)) else 0
        if isinstance(test, ast.UnaryOp) and isinstance(test.op, ast.Not) and isinstance(test.operand, ast.Name):
            return 1
        if isinstance(test, ast.Name):
            return -1
        return 0

    def paths(stmts):
        """(zero path updates, non-zero path updates) for a statement list executed on both paths"""
        z = n = False
        for st in stmts:
            if is_update(st):
                z = n = True
            elif isinstance(st, ast.If):
                k = zero_test(st.test)
                bz, bn = paths(st.body)
                oz, on = paths(st.orelse)
                if k == 1:
                    z, n = z or bz, n or on
                elif k == -1:
                    z, n = z or oz, n or bn
                else:   # a branch not about zero (e.g. the negative-offset guard): counts only when both arms update
                    z, n = z or (bz and oz), n or (bn and on)
        return z, n

    for cls in (x for x in tree.body if isinstance(x, ast.ClassDef) and x.name == "BootableImage"):
        for fn in (x for x in cls.body if isinstance(x, ast.FunctionDef) and x.name == "init_offset"):
            if any(isinstance(d, ast.Attribute) and d.attr == "setter" for d in fn.decorator_list):
                z, n = paths(fn.body)
                return z, n, f"{BIMG}:{fn.lineno}"
    return False, False, "init_offset setter not found"


def padding_probes():
    """`Segment._is_padding` read BY BEHAVIOUR: the method's own source (class `Segment` of segments.py) is compiled in isolation -
    `BinaryPattern` replaced by a three-line stand-in for the zeros / ones / inc blocks, `cls` a stand-in carrying SIZE and
    IMAGE_PATTERNS - and evaluated on a fixed probe set (uniform blocks, every kind of 00/FF mix, a third byte value, short and long
    inputs, SIZE <= 0).  -> list of (size, patterns, data, answer | None when the method cannot be evaluated that way).
    A re-spelling of the predicate regenerates the same table; a predicate that answers differently on a probe changes it."""
    tree = parse(SEG)
    fn = None
    for cls in (x for x in tree.body if isinstance(x, ast.ClassDef) and x.name == "Segment"):
        for f in (x for x in cls.body if isinstance(x, ast.FunctionDef) and x.name == "_is_padding"):
            fn = f
    probes = []
    blocks = {"zeros": lambda n: b"\x00" * n, "ones": lambda n: b"\xff" * n, "inc": lambda n: bytes(i & 0xFF for i in range(n))}

    class _Pat:
        def __init__(self, pattern):
            self.pattern = pattern

        def get_block(self, size):
            return blocks[self.pattern](size)

    func = None
    if fn is not None:
        try:
            plain = ast.FunctionDef(name="_is_padding", args=fn.args, body=fn.body, decorator_list=[], returns=None, type_comment=None,
                                    lineno=1, col_offset=0)
            if hasattr(ast, "TypeVar"):
                plain.type_params = []
            for a in plain.args.args:
                a.annotation = None
            mod = ast.Module(body=[plain], type_ignores=[])
            ast.fix_missing_locations(mod)
            ns = {"BinaryPattern": _Pat}
            exec(compile(mod, "<_is_padding>", "exec"), ns)   # noqa: S102 - the method's own few lines, no imports, stand-ins only
            func = ns["_is_padding"]
        except Exception:  # noqa: BLE001
            func = None
    datas = []
    for n in (4, 6):
        z, f = b"\x00" * n, b"\xff" * n
        datas += [(n, z), (n, f), (n, z[:1] + f[1:]), (n, f[:1] + z[1:]), (n, z[:n // 2] + f[n // 2:]), (n, f[:n // 2] + z[n // 2:]),
                  (n, bytes([0, 0xFF] * (n // 2))), (n, f[:-1] + b"\x00"), (n, z[:-1] + b"\xff"), (n, z[:-1] + b"\x01"), (n, b"\x5a" * n),
                  (n, z[:-1]), (n, f[:-1]), (n, z + b"\x07\x08"), (n, f + b"\x00\x00"), (n, z[:-1] + b"\xff" + z), (n, b"")]
    datas += [(-1, b"\x00" * 4), (-1, b"\xff" * 4), (0, b"\x00" * 4), (0, b"")]
    for pats in (["zeros", "ones"], ["zeros"], ["ones"]):
        for size, data in datas:
            ans = None
            if func is not None:
                try:
                    cls_ = type("S", (), {"SIZE": size, "IMAGE_PATTERNS": list(pats)})
                    r = func(cls_, data)
                    ans = bool(r) if isinstance(r, (bool, int)) else None
                except Exception:  # noqa: BLE001
                    ans = None
            probes.append((size, pats, data, ans))
    return probes, (f"{SEG}:{fn.lineno}" if fn is not None else "Segment._is_padding not found")


def fcb_tags():
    tree = parse(FCBPY)
    for n in ast.walk(tree):
        if isinstance(n, ast.ClassDef) and n.name == "FCB":
            for st in n.body:
                if isinstance(st, ast.Assign) and isinstance(st.targets[0], ast.Name) and st.targets[0].id == "TAG":
                    tag = _lit(st.value)
                    if isinstance(tag, bytes) and len(tag) % 2 == 0:
                        sw = bytearray(tag)
                        sw[0::2], sw[1::2] = tag[1::2], tag[0::2]   # misc.swap_bytes
                        return tag, bytes(sw)
    return b"", b""


def mem_types():
    tree = parse(MEM)
    out = []
    for n in ast.walk(tree):
        if isinstance(n, ast.ClassDef) and n.name == "MemoryType":
            for st in n.body:
                if isinstance(st, ast.Assign) and isinstance(st.value, ast.Tuple):
                    v = _lit(st.value)
                    if v:
                        out.append(v[1])
    return out


# ------------------------------------------------------------------------------------------------ emit
def lstr(s):
    return '"' + str(s).replace("\\", "\\\\").replace('"', '\\"') + '"'


def lbytes(b):
    return "[" + ", ".join(str(x) for x in b) + "]"


def lint(v):
    return f"({v} : Int)"


def gen_BimgTables():
    kinds = segment_kinds()
    kidx = {k["label"]: i for i, k in enumerate(kinds)}
    db = Db({FEATURE, "fcb"})
    devices = {n: db.load(n) for n in db.names()}
    # families supporting FCB (quick-info: feature present in the latest revision) + their predecessor names
    fcb_fams = set()
    for n, d in devices.items():
        lat = db.get_rev(d, "latest")
        if lat is not None and "fcb" in lat["features"]:
            fcb_fams.add(n)
            if d.get("pred"):
                fcb_fams.add(d["pred"])
    layouts, lidx, rows, problems = [], {}, [], []
    for n in sorted(devices):
        d = devices[n]
        lat = db.get_rev(d, "latest")
        if lat is None or FEATURE not in lat["features"]:
            continue
        for rname in [r["name"] for r in d["revs"]] + ["latest"]:
            rev = db.get_rev(d, rname)
            feat = rev["features"].get(FEATURE)
            if feat is None:
                problems.append(f"{n}/{rname}: feature missing in this revision")
                continue
            for mt, cfg in (feat.get("mem_types") or {}).items():
                segs = []
                for sname, off in (cfg.get("segments") or {}).items():
                    if sname not in kidx or not isinstance(off, int) or isinstance(off, bool):
                        problems.append(f"{n}/{rname}/{mt}: segment {sname}={off!r} not representable")
                        segs = None
                        break
                    segs.append((kidx[sname], off))
                if segs is None:
                    continue
                key = (tuple(segs), str(cfg.get("image_pattern", "zeros")))
                if key not in lidx:
                    lidx[key] = len(layouts)
                    layouts.append(key)
                # the constructor refuses memory types that the *latest* revision does not list
                usable = mt in (lat["features"][FEATURE].get("mem_types") or {})
                rows.append({"family": n, "revision": rname, "mem_type": mt, "layout": lidx[key],
                             "fcb_supported": n in fcb_fams, "usable": usable})
    tag, tag_sw = fcb_tags()
    mts = mem_types()

    o = ["namespace SpsdkVerif.Generated.BimgTables", "",
         "/-- class attributes of one `Segment*` class (resolved along its base classes) -/",
         "structure Kind where",
         "  cls : String", "  label : String", "  size : Int", "  align : Int", "  initSegment : Bool", "  bootHeader : Bool",
         "  patterns : List String", "  parser : String", "  finder : String", "  lener : String",
         "  deriving Repr, DecidableEq", "",
         "/-- one memory-type description: ordered (kind index, database offset) list and the fill pattern -/",
         "structure Layout where", "  segs : List (Nat × Int)", "  pattern : String", "  deriving Repr, DecidableEq", "",
         "structure Row where", "  family : String", "  revision : String", "  memType : String", "  layout : Nat",
         "  fcbSupported : Bool", "  usable : Bool", "  deriving Repr, DecidableEq", ""]
    o.append("def kinds : List Kind := [")
    o.append(",\n".join(
        f"  ⟨{lstr(k['cls'])}, {lstr(k['label'])}, {lint(k['size'] if isinstance(k['size'], int) else -999)}, "
        f"{lint(k['align'] if isinstance(k['align'], int) else -999)}, {str(k['init_segment']).lower()}, {str(k['boot_header']).lower()}, "
        f"[{', '.join(lstr(p) for p in k['patterns'])}], {lstr(k['parser'])}, {lstr(k['finder'])}, {lstr(k['lener'])}⟩" for k in kinds))
    o.append("]\n")
    o.append("def layouts : List Layout := [")
    o.append(",\n".join("  ⟨[" + ", ".join(f"({k}, {lint(off)})" for k, off in segs) + f"], {lstr(pat)}⟩" for segs, pat in layouts))
    o.append("]\n")
    o.append("def rows : List Row := [")
    o.append(",\n".join(f"  ⟨{lstr(r['family'])}, {lstr(r['revision'])}, {lstr(r['mem_type'])}, {r['layout']}, "
                        f"{str(r['fcb_supported']).lower()}, {str(r['usable']).lower()}⟩" for r in rows))
    o.append("]\n")
    upd0, updn, where = setter_structure()
    o.append(f"/-- the `init_offset` setter calls `_update_segments()` on its `offset == 0` path / on its non-zero path ({where}) -/")
    o.append(f"def setterUpdatesOnZero : Bool := {str(upd0).lower()}")
    o.append(f"def setterUpdatesOnNonZero : Bool := {str(updn).lower()}")
    probes, pwhere = padding_probes()
    o.append(f"/-- `Segment._is_padding` ({pwhere}) evaluated on a fixed probe set: (SIZE, IMAGE_PATTERNS, data, answer); `paddingProbesOk` = the")
    o.append("    method could be evaluated on every probe -/")
    o.append("def paddingProbes : List (Int × List String × List UInt8 × Bool) := [")
    o.append(",\n".join(f"  ({lint(sz)}, [{', '.join(lstr(x) for x in pats)}], {lbytes(data)}, {str(bool(ans)).lower()})"
                         for sz, pats, data, ans in probes))
    o.append("]")
    o.append(f"def paddingProbesOk : Bool := {str(all(a is not None for _, _, _, a in probes)).lower()}")
    o.append(f"def fcbTag : List UInt8 := {lbytes(tag)}")
    o.append(f"def fcbTagSwapped : List UInt8 := {lbytes(tag_sw)}")
    o.append("def memTypes : List String := [" + ", ".join(lstr(m) for m in mts) + "]")
    o.append("\nend SpsdkVerif.Generated.BimgTables")
    meta = {"kinds": kinds, "layouts": [{"segs": [[k, off] for k, off in segs], "pattern": pat} for segs, pat in layouts],
            "rows": rows, "fcb_tag": tag.hex(), "fcb_tag_swapped": tag_sw.hex(), "mem_types": mts, "problems": problems,
            "fcb_families": sorted(fcb_fams), "setter_updates": [upd0, updn, where],
            "padding_probes": [[sz, pats, data.hex(), ans] for sz, pats, data, ans in probes],
            "source": ["spsdk/data/devices/*/database.yaml", "spsdk/data/common/database_defaults.yaml", SEG, FCBPY, MEM]}
    emit("BimgTables", "\n".join(o) + "\n", meta)


GENERATORS = {"BimgTables": gen_BimgTables}
