"""C13 generator: Generated/FlashEncConsts.lean from the CURRENT otfad.py / iee.py / bee.py / crc.py / sb_21_helper.py.

Pure static reading; every value is read BY VALUE through tools/extract/consteval.py, never by spelling:
  * named class / module constants and enum tags (`0x07`, `0b111`, `1 << 2`, `0x400 - 1`, `OTHER_CONST` all give the same text);
  * a few USE-SITE facts the model is written with, located semantically (a call of a named callee somewhere in a named
    method — or in a same-class helper it calls, one level deep) and evaluated through the class environment, with a local
    variable resolved through its single assignment:
      - the argument of `counter.increment(...)`                    in KeyBlob.encrypt_image      (counter step per block)
      - the length of the slice wrapped by `aes_key_wrap(kek, …)`   in KeyBlob.export             (40)
      - the alignment argument of `align_block(…, N)`               in Otfad.encrypt_key_blobs (256), IeeKeyBlob.plain_data (32),
                                                                       SB21Helper._encrypt (512)
      - the CRC32_MPEG entry of CRC_ALGORITHMS (keyword or positional CrcConfig arguments)
Facts that are only spelled as arithmetic inside a loop body (the `>> 12` of calculate_tweak, the `>> 4` of the CTR address
binding, the `& 3`, `* 2`, `* 4` of the KEK scrambling) are deliberately NOT extracted: there is no shape-independent way to read
them statically; they are literals of the hand model (Model/FlashEnc.lean) and are tied to the code by the correspondence and
the hardware oracle, which report a change with a concrete failing input.
A value that cannot be read is emitted as the opaque stand-in 999999 (the theorems over it stop compiling) — never a default.
"""
from __future__ import annotations

import ast

from consteval import ModuleEnv, NotConst
from extract import emit, parse

OTFAD = "spsdk/utils/crypto/otfad.py"
IEE = "spsdk/utils/crypto/iee.py"
BEE = "spsdk/image/bee.py"
CRC = "spsdk/crypto/crc.py"
SB21 = "spsdk/sbfile/sb2/sb_21_helper.py"
MISSING = 999999


# ----------------------------------------------------------------------------------------------- AST helpers
def _cls(tree, name):
    for n in ast.walk(tree):
        if isinstance(n, ast.ClassDef) and n.name == name:
            return n
    return None


def _method(cnode, name):
    if cnode is None:
        return None
    for n in cnode.body:
        if isinstance(n, (ast.FunctionDef, ast.AsyncFunctionDef)) and n.name == name:
            return n
    return None


def _callee_name(call):
    f = call.func
    if isinstance(f, ast.Name):
        return f.id
    if isinstance(f, ast.Attribute):
        return f.attr
    return None


def _scope(cnode, fn):
    """`fn` plus the same-class helpers it calls (self.x / cls.x / Class.x / bare x), one level deep."""
    out = [fn] if fn is not None else []
    if fn is None or cnode is None:
        return out
    names = {m.name for m in cnode.body if isinstance(m, (ast.FunctionDef, ast.AsyncFunctionDef))}
    for n in ast.walk(fn):
        if isinstance(n, ast.Call):
            nm = _callee_name(n)
            if nm in names and nm != fn.name:
                h = _method(cnode, nm)
                if h is not None and h not in out:
                    out.append(h)
    return out


def _calls(cnode, fn, callee):
    """calls of `callee` inside `fn` or its one-level helpers, in source order"""
    res = []
    for f in _scope(cnode, fn):
        for n in ast.walk(f):
            if isinstance(n, ast.Call) and _callee_name(n) == callee:
                res.append((f, n))
    res.sort(key=lambda t: (t[1].lineno, t[1].col_offset))
    return res


def _single_assignment(fn, name):
    """value node of the only plain assignment `name = <expr>` in `fn` (None if there is none or several)"""
    found = []
    for n in ast.walk(fn):
        if isinstance(n, ast.Assign) and len(n.targets) == 1 and isinstance(n.targets[0], ast.Name) and n.targets[0].id == name:
            found.append(n.value)
        elif isinstance(n, ast.AnnAssign) and isinstance(n.target, ast.Name) and n.target.id == name and n.value is not None:
            found.append(n.value)
    return found[0] if len(found) == 1 else None


def _arg(call, pos, kw):
    if len(call.args) > pos:
        return call.args[pos]
    for k in call.keywords:
        if k.arg == kw:
            return k.value
    return None


def _eval_in(env, cname, fn, node, depth=3):
    """evaluate `node` by value; local names occurring in it are resolved through their single assignment in `fn`"""
    if node is None:
        raise NotConst("no such argument")
    try:
        return env.eval(node, cls=cname)
    except NotConst:
        if not depth or fn is None:
            raise
    local = {}
    for n in ast.walk(node):
        if isinstance(n, ast.Name) and n.id not in local:
            v = _single_assignment(fn, n.id)
            if v is not None:
                try:
                    local[n.id] = _eval_in(env, cname, fn, v, depth - 1)
                except NotConst:
                    pass
    if not local:
        raise NotConst(ast.unparse(node))
    return env.eval(node, cls=cname, local=local)


def _all_equal_value(vals):
    vals = [v for v in vals if v is not None]
    if vals and all(v == vals[0] for v in vals):
        return vals[0]
    return None


def call_arg_value(env, tree, cname, mname, callee, pos, kw):
    """value of argument (pos | kw) of the calls of `callee` in Class.method (+ helpers); all such calls must agree"""
    c = _cls(tree, cname)
    fn = _method(c, mname)
    vals = []
    for f, call in _calls(c, fn, callee):
        try:
            vals.append(_eval_in(env, cname, f, _arg(call, pos, kw)))
        except NotConst:
            vals.append(None)
            return None
    return _all_equal_value(vals)


def wrapped_len(env, tree):
    """number of bytes handed to aes_key_wrap in KeyBlob.export: `x[:N]` (directly or through a local), or a constant-length value"""
    c = _cls(tree, "KeyBlob")
    fn = _method(c, "export")
    for f, call in _calls(c, fn, "aes_key_wrap"):
        node = _arg(call, 1, "key_to_wrap")
        for _ in range(3):
            if isinstance(node, ast.Name):
                nxt = _single_assignment(f, node.id)
                if nxt is None:
                    break
                node = nxt
            else:
                break
        if isinstance(node, ast.Subscript) and isinstance(node.slice, ast.Slice) and node.slice.step is None:
            lo, up = node.slice.lower, node.slice.upper
            try:
                lo_v = 0 if lo is None else _eval_in(env, "KeyBlob", f, lo)
                up_v = _eval_in(env, "KeyBlob", f, up)
                if isinstance(lo_v, int) and isinstance(up_v, int) and 0 <= lo_v <= up_v:
                    return up_v - lo_v
            except NotConst:
                return None
    return None


def enum_tag(env, tree, cname, member):
    c = _cls(tree, cname)
    if c is None:
        return None
    for st in c.body:
        if isinstance(st, ast.Assign) and len(st.targets) == 1 and isinstance(st.targets[0], ast.Name) and st.targets[0].id == member:
            try:
                v = env.eval(st.value, cls=cname)
            except NotConst:
                return None
            if isinstance(v, (tuple, list)) and v:
                v = v[0]
            return v if isinstance(v, int) and not isinstance(v, bool) else None
    return None


def crc_config(env, tree, member):
    """polynomial / initial_value / final_xor / reverse of CRC_ALGORITHMS[CrcAlg.<member>] (keyword or positional CrcConfig arguments)"""
    fields = []
    cc = _cls(tree, "CrcConfig")
    if cc is not None:
        fields = [st.target.id for st in cc.body if isinstance(st, ast.AnnAssign) and isinstance(st.target, ast.Name)]
    for n in ast.walk(tree):
        if isinstance(n, ast.Dict):
            for k, v in zip(n.keys, n.values):
                if isinstance(k, ast.Attribute) and k.attr == member and isinstance(v, ast.Call):
                    out = {}
                    try:
                        for name, a in zip(fields, v.args):
                            out[name] = env.eval(a)
                        for kw in v.keywords:
                            out[kw.arg] = env.eval(kw.value)
                    except NotConst:
                        return {}
                    return out
    return {}


# ----------------------------------------------------------------------------------------------- generator
# ----------------------------------------------------------------------------------------------- IEE key-blob layout
_IEE_FIELDS = {"HEADER_TAG": "Hdr", "KEYBLOB_VERSION": "Version", "attributes": "Attr", "page_offset": "PageOffset",
               "key1": "Key1", "key2": "Key2", "start_addr": "Start", "end_addr": "End", "crc": "Crc"}


def _pieces(expr):
    """operands of a chain of `+`"""
    if isinstance(expr, ast.BinOp) and isinstance(expr.op, ast.Add):
        return _pieces(expr.left) + _pieces(expr.right)
    return [expr]


def _field_of(node):
    for n in ast.walk(node):
        nm = n.attr if isinstance(n, ast.Attribute) else (n.id if isinstance(n, ast.Name) else None)
        if nm in _IEE_FIELDS:
            return _IEE_FIELDS[nm]
    return None


def iee_blob_layout(env, tree):
    """{field: offset} and the total size of what `IeeKeyBlob.plain_data` concatenates, read from the sizes of the pieces
    (struct.calcsize of the pack formats, the format of IeeKeyBlobAttribute.export, the align_block sizes, to_bytes(N)).
    Handles `result += piece`, `result = a + b + …` and `return a + b + …`; anything else -> {} (opaque stand-ins)."""
    import struct
    cnode = _cls(tree, "IeeKeyBlob")
    fn = _method(cnode, "plain_data")
    if fn is None:
        return {}
    seq = []
    for st in fn.body:
        if isinstance(st, ast.AugAssign) and isinstance(st.op, ast.Add) and isinstance(st.target, ast.Name) and st.target.id == "result":
            seq += _pieces(st.value)
        elif isinstance(st, ast.Assign) and len(st.targets) == 1 and isinstance(st.targets[0], ast.Name) and st.targets[0].id == "result":
            seq = [x for x in _pieces(st.value) if not (isinstance(x, ast.Call) and _callee_name(x) == "bytes" and not x.args)]
        elif isinstance(st, ast.Return) and isinstance(st.value, ast.BinOp):
            seq += [x for x in _pieces(st.value) if not (isinstance(x, ast.Name) and x.id == "result")]
    out, off = {}, 0
    try:
        for piece in seq:
            node = piece
            if isinstance(node, ast.Name):                      # a local such as `crc`: its single assignment
                tgt = _single_assignment(fn, node.id)
                if tgt is None:
                    return {}
                out.setdefault(_field_of(node) or node.id, off)
                node = tgt
            if not isinstance(node, ast.Call):
                return {}
            callee = _callee_name(node)
            if callee == "pack":
                fmt = env.eval(node.args[0], cls="IeeKeyBlob")
                if not isinstance(fmt, str):
                    return {}
                # one struct sub-format per packed argument, read by VALUE: "<3I" = "<III" (a repeat count is a spelling, C13h_2),
                # "16s" / "4p" / "2x" stay one item (x takes no argument)
                import re as _re
                items = []
                for cnt, code in _re.findall(r"(\d*)([a-zA-Z?])", fmt.lstrip("<>=!@")):
                    if code in "sp":
                        items.append(cnt + code)
                    elif code == "x":
                        items.append((cnt or "1") + "x")
                    else:
                        items += [code] * int(cnt or 1)
                args_fmt = [i for i in items if not i.endswith("x")]
                if len(args_fmt) != len(node.args) - 1 or "".join(items) == "":
                    return {}
                k = 0
                pre = ""
                for it in items:
                    if it.endswith("x"):
                        pre += it
                        continue
                    f = _field_of(node.args[1 + k])
                    if f:
                        out.setdefault(f, off + struct.calcsize("<" + pre))
                    pre += it
                    k += 1
                off += struct.calcsize("<" + pre)
            elif callee == "export":
                out.setdefault("Attr", off)
                off += struct.calcsize(env.cls("IeeKeyBlobAttribute").value("_FORMAT"))
            elif callee == "align_block":
                f = _field_of(node.args[0])
                if f:
                    out.setdefault(f, off)
                off += env.eval(_arg(node, 1, "alignment"), cls="IeeKeyBlob")
            elif callee == "to_bytes":
                off += env.eval(_arg(node, 0, "length"), cls="IeeKeyBlob")
            else:
                return {}
    except (NotConst, struct.error, TypeError, AttributeError, IndexError):
        return {}
    out["Size"] = off
    return out


def gen_FlashEncConsts():
    otfad, iee, bee, crc = (parse(p) for p in (OTFAD, IEE, BEE, CRC))
    eo, ei, eb, ec = ModuleEnv(otfad), ModuleEnv(iee), ModuleEnv(bee), ModuleEnv(crc)
    meta = {"sources": [OTFAD, IEE, BEE, CRC, SB21], "missing": []}
    L = ["namespace SpsdkVerif.Generated.FlashEncConsts", ""]

    def d(name, val, comment):
        if val is None or isinstance(val, bool) or not isinstance(val, int) or val < 0:
            meta["missing"].append(name)
            val = MISSING
        L.append(f"def {name} : Nat := {val}  -- {comment}")
        meta[name] = val

    def cval(env, cname, attr):
        try:
            return env.cls(cname).value(attr)
        except NotConst:
            return None

    # ---------------- OTFAD
    for lean, py in (("otfadStartAddrMask", "_START_ADDR_MASK"), ("otfadEndAddrMask", "_END_ADDR_MASK"),
                     ("otfadKeyFlagMask", "_KEY_FLAG_MASK"), ("otfadFlagRO", "KEY_FLAG_READ_ONLY"),
                     ("otfadFlagADE", "KEY_FLAG_ADE"), ("otfadFlagVLD", "KEY_FLAG_VLD"), ("otfadKeySize", "KEY_SIZE"),
                     ("otfadCtrSize", "CTR_SIZE"), ("otfadExportIvSize", "_EXPORT_CTR_IV_SIZE"),
                     ("otfadExportNBlocks", "_EXPORT_NBLOCKS_5"), ("otfadExportBlobSize", "_EXPORT_KEY_BLOB_SIZE"),
                     ("otfadEncBlockSize", "_ENCRYPTION_BLOCK_SIZE")):
        d(lean, cval(eo, "KeyBlob", py), f"KeyBlob.{py}")
    d("otfadDataUnit", cval(eo, "Otfad", "OTFAD_DATA_UNIT"), "Otfad.OTFAD_DATA_UNIT")
    d("otfadWrappedLen", wrapped_len(eo, otfad), "KeyBlob.export: number of bytes given to aes_key_wrap")
    d("otfadTableAlign", call_arg_value(eo, otfad, "Otfad", "encrypt_key_blobs", "align_block", 1, "alignment"),
      "Otfad.encrypt_key_blobs: align_block(result, N)")
    d("otfadCtrIncrement", call_arg_value(eo, otfad, "KeyBlob", "encrypt_image", "increment", 0, "value"),
      "KeyBlob.encrypt_image: counter.increment(N)")

    # ---------------- IEE
    for lean, (cls_, member) in (("ieeLock", ("IeeKeyBlobLockAttributes", "LOCK")), ("ieeUnlock", ("IeeKeyBlobLockAttributes", "UNLOCK")),
                                 ("ieeKey128", ("IeeKeyBlobKeyAttributes", "CTR128XTS256")), ("ieeKey256", ("IeeKeyBlobKeyAttributes", "CTR256XTS512")),
                                 ("ieeModeBypass", ("IeeKeyBlobModeAttributes", "Bypass")), ("ieeModeXts", ("IeeKeyBlobModeAttributes", "AesXTS")),
                                 ("ieeModeCtrAddr", ("IeeKeyBlobModeAttributes", "AesCTRWAddress")),
                                 ("ieeModeCtrNoAddr", ("IeeKeyBlobModeAttributes", "AesCTRWOAddress")),
                                 ("ieeModeCtrKeystream", ("IeeKeyBlobModeAttributes", "AesCTRkeystream"))):
        d(lean, enum_tag(ei, iee, cls_, member), f"{cls_}.{member}")
    for lean, py in (("ieeHeaderTag", "HEADER_TAG"), ("ieeKeyblobVersion", "KEYBLOB_VERSION"), ("ieeXtsBlockSize", "_IEE_ENCR_BLOCK_SIZE_XTS"),
                     ("ieeEncBlockSize", "_ENCRYPTION_BLOCK_SIZE"), ("ieeStartAddrMask", "_START_ADDR_MASK")):
        d(lean, cval(ei, "IeeKeyBlob", py), f"IeeKeyBlob.{py}")
    d("ieeDataUnit", cval(ei, "Iee", "IEE_DATA_UNIT"), "Iee.IEE_DATA_UNIT")
    d("ieeKeyBlobsSize", cval(ei, "Iee", "IEE_KEY_BLOBS_SIZE"), "Iee.IEE_KEY_BLOBS_SIZE")
    d("ieeKeyFieldSize", call_arg_value(ei, iee, "IeeKeyBlob", "plain_data", "align_block", 1, "alignment"),
      "IeeKeyBlob.plain_data: align_block(self.key1 / self.key2, N)")

    lay = iee_blob_layout(ei, iee)
    for f in ("Version", "Attr", "PageOffset", "Key1", "Key2", "Start", "End", "Crc", "Size"):
        d("ieeBlobOff" + f if f != "Size" else "ieeBlobSize", lay.get(f),
          f"IeeKeyBlob.plain_data: offset of the {f} field" if f != "Size" else "IeeKeyBlob.plain_data: total size")
    d("ieeAttrSize", cval(ei, "IeeKeyBlobAttribute", "_SIZE"), "IeeKeyBlobAttribute._SIZE")

    # ---------------- BEE
    try:
        bsz = eb.value("BEE_ENCR_BLOCK_SIZE")
    except NotConst:
        bsz = None
    d("beeEncrBlockSize", bsz, "bee.BEE_ENCR_BLOCK_SIZE")
    d("beeFacRegions", cval(eb, "BeeProtectRegionBlock", "FAC_REGIONS"), "BeeProtectRegionBlock.FAC_REGIONS")
    for lean, py in (("beeTagL", "TAGL"), ("beeTagH", "TAGH"), ("beeVersion", "VERSION"), ("beePrdbSize", "SIZE")):
        d(lean, cval(eb, "BeeProtectRegionBlock", py), f"BeeProtectRegionBlock.{py}")
    d("beeHdrPrdbOffset", cval(eb, "BeeRegionHeader", "PRDB_OFFSET"), "BeeRegionHeader.PRDB_OFFSET")
    d("beeHdrSize", cval(eb, "BeeRegionHeader", "SIZE"), "BeeRegionHeader.SIZE")
    d("beeModeCtr", enum_tag(eb, bee, "BeeProtectRegionBlockAesMode", "CTR"), "BeeProtectRegionBlockAesMode.CTR")

    # ---------------- SB2.1 helper: `encrypt` command
    try:
        sb21 = parse(SB21)
        al = call_arg_value(ModuleEnv(sb21), sb21, "SB21Helper", "_encrypt", "align_block", 1, "alignment")
    except (OSError, SyntaxError):
        al = None
    d("sb21EncryptAlign", al, "SB21Helper._encrypt: align_block(data, N)")

    # ---------------- CRC-32/MPEG-2 as configured in CRC_ALGORITHMS (crcmod semantics: register init = initCrc xor xorOut)
    cc = crc_config(ec, crc, "CRC32_MPEG")
    poly, init, fx, rev = cc.get("polynomial"), cc.get("initial_value"), cc.get("final_xor"), cc.get("reverse")
    if not isinstance(rev, bool):
        poly = None         # unreadable entry: opaque stand-in, the CRC theorems stop compiling
    d("crcMpegPolyFull", poly, "CRC_ALGORITHMS[CRC32_MPEG].polynomial (with the x^32 term)")
    d("crcMpegInitCrc", init, "CRC_ALGORITHMS[CRC32_MPEG].initial_value (crcmod initCrc)")
    d("crcMpegXorOut", fx, "CRC_ALGORITHMS[CRC32_MPEG].final_xor")
    L.append(f"def crcMpegReverse : Bool := {'true' if rev else 'false'}  -- CRC_ALGORITHMS[CRC32_MPEG].reverse")
    meta["crcMpegReverse"] = bool(rev)
    if not isinstance(rev, bool):
        meta["missing"].append("crcMpegReverse")
    L += ["", "end SpsdkVerif.Generated.FlashEncConsts"]
    emit("FlashEncConsts", "\n".join(L) + "\n", meta)


GENERATORS = {"FlashEncConsts": gen_FlashEncConsts}
