"""C13 generator: Generated/FlashEncConsts.lean from the CURRENT otfad.py / iee.py / bee.py / crc.py (pure `ast` reading).

Emits plain `def`s (namespace SpsdkVerif.Generated.FlashEncConsts) for every class / module constant the
flash-encryption model (Model/FlashEnc.lean) is written with: address masks, flag bits, unit sizes, export
sizes, IEE header tag / version / attribute tags, BEE unit size, the CRC-32/MPEG parameter set, and the
integer literals that sit inline in the anchored functions (`plaintext[:40]`, the `>> 12` of
calculate_tweak, the `>> 4` of the CTR address binding, the scramble `& 0x03`, the 256-byte table alignment).
`Properties/C13.lean` proves `consts_agree` (they equal the engine-side values the hardware model is written
with), so a changed source constant stops a theorem from compiling.  A constant that cannot be found is
emitted as 999999.
"""
from __future__ import annotations

import ast

from extract import emit, parse

OTFAD = "spsdk/utils/crypto/otfad.py"
IEE = "spsdk/utils/crypto/iee.py"
BEE = "spsdk/image/bee.py"
CRC = "spsdk/crypto/crc.py"
SB21 = "spsdk/sbfile/sb2/sb_21_helper.py"
MISSING = 999999


def _cls(tree, name):
    for n in ast.walk(tree):
        if isinstance(n, ast.ClassDef) and n.name == name:
            return n
    return None


def _fun(node, name):
    if node is None:
        return None
    for n in ast.walk(node):
        if isinstance(n, (ast.FunctionDef, ast.AsyncFunctionDef)) and n.name == name:
            return n
    return None


def _fold(node, env):
    """Restricted integer constant folder."""
    if isinstance(node, ast.Constant) and isinstance(node.value, (int, bool)):
        return int(node.value)
    if isinstance(node, ast.Name) and node.id in env:
        return env[node.id]
    if isinstance(node, ast.UnaryOp) and isinstance(node.op, ast.USub):
        v = _fold(node.operand, env)
        return None if v is None else -v
    if isinstance(node, ast.BinOp):
        a, b = _fold(node.left, env), _fold(node.right, env)
        if a is None or b is None:
            return None
        ops = {ast.Add: lambda: a + b, ast.Sub: lambda: a - b, ast.Mult: lambda: a * b, ast.LShift: lambda: a << b,
               ast.RShift: lambda: a >> b, ast.BitOr: lambda: a | b, ast.BitAnd: lambda: a & b, ast.BitXor: lambda: a ^ b}
        f = ops.get(type(node.op))
        return f() if f else None
    return None


def consts_of(body, env=None):
    """NAME = <int expr> assignments of a class / module body, folded in order."""
    out = dict(env or {})
    for st in body:
        tgt = val = None
        if isinstance(st, ast.Assign) and len(st.targets) == 1 and isinstance(st.targets[0], ast.Name):
            tgt, val = st.targets[0].id, st.value
        elif isinstance(st, ast.AnnAssign) and isinstance(st.target, ast.Name) and st.value is not None:
            tgt, val = st.target.id, st.value
        if tgt:
            v = _fold(val, out)
            if v is not None:
                out[tgt] = v
    return out


def class_consts(tree, name, env=None):
    c = _cls(tree, name)
    return consts_of(c.body, env) if c is not None else {}


def enum_tags(tree, name):
    c = _cls(tree, name)
    out = {}
    if c is None:
        return out
    for st in c.body:
        if isinstance(st, ast.Assign) and len(st.targets) == 1 and isinstance(st.targets[0], ast.Name) \
                and isinstance(st.value, ast.Tuple) and st.value.elts:
            v = _fold(st.value.elts[0], {})
            if v is not None:
                out[st.targets[0].id] = v
    return out


def int_literals(fn, pred):
    """Integer literals inside `fn` selected by `pred(parent, node)`, in source order."""
    out = []
    if fn is None:
        return out
    for parent in ast.walk(fn):
        for child in ast.iter_child_nodes(parent):
            if isinstance(child, ast.Constant) and isinstance(child.value, int) and not isinstance(child.value, bool) \
                    and pred(parent, child):
                out.append((child.lineno, child.col_offset, child.value))
    return [v for _, _, v in sorted(out)]


def shift_amounts(fn, op=ast.RShift):
    """Right operands (int literals) of `>>` (or another operator) inside `fn`."""
    return int_literals(fn, lambda p, c: isinstance(p, ast.BinOp) and isinstance(p.op, op) and p.right is c)


def crc_config(tree, member):
    """CrcConfig(...) keyword arguments of CRC_ALGORITHMS[CrcAlg.<member>]."""
    for n in ast.walk(tree):
        if isinstance(n, ast.Dict):
            for k, v in zip(n.keys, n.values):
                if isinstance(k, ast.Attribute) and k.attr == member and isinstance(v, ast.Call):
                    out = {}
                    for kw in v.keywords:
                        try:
                            out[kw.arg] = ast.literal_eval(kw.value)
                        except (ValueError, SyntaxError):
                            pass
                    return out
    return {}


def gen_FlashEncConsts():
    otfad, iee, bee, crc = (parse(p) for p in (OTFAD, IEE, BEE, CRC))
    meta = {"sources": [OTFAD, IEE, BEE, CRC, SB21], "missing": []}
    L = ["namespace SpsdkVerif.Generated.FlashEncConsts", ""]

    def d(name, val, comment):
        if val is None or not isinstance(val, int) or val < 0:
            meta["missing"].append(name)
            val = MISSING
        L.append(f"def {name} : Nat := {val}  -- {comment}")
        meta[name] = val

    # ---------------- OTFAD
    kb = class_consts(otfad, "KeyBlob")
    for lean, py in (("otfadStartAddrMask", "_START_ADDR_MASK"), ("otfadEndAddrMask", "_END_ADDR_MASK"),
                     ("otfadKeyFlagMask", "_KEY_FLAG_MASK"), ("otfadFlagRO", "KEY_FLAG_READ_ONLY"),
                     ("otfadFlagADE", "KEY_FLAG_ADE"), ("otfadFlagVLD", "KEY_FLAG_VLD"), ("otfadKeySize", "KEY_SIZE"),
                     ("otfadCtrSize", "CTR_SIZE"), ("otfadExportIvSize", "_EXPORT_CTR_IV_SIZE"),
                     ("otfadExportNBlocks", "_EXPORT_NBLOCKS_5"), ("otfadExportBlobSize", "_EXPORT_KEY_BLOB_SIZE"),
                     ("otfadEncBlockSize", "_ENCRYPTION_BLOCK_SIZE")):
        d(lean, kb.get(py), f"KeyBlob.{py}")
    d("otfadDataUnit", class_consts(otfad, "Otfad").get("OTFAD_DATA_UNIT"), "Otfad.OTFAD_DATA_UNIT")
    kbc = _cls(otfad, "KeyBlob")
    otc = _cls(otfad, "Otfad")
    # `plaintext[:40]` of KeyBlob.export = number of wrapped bytes
    wrapped = int_literals(_fun(kbc, "export"), lambda p, c: isinstance(p, ast.Slice) and p.upper is c)
    d("otfadWrappedLen", wrapped[0] if wrapped else None, "KeyBlob.export: aes_key_wrap(kek, plaintext[:N])")
    # key-blob table alignment (align_block(result, 256)) and the scramble selector arithmetic
    ekb = _fun(otc, "encrypt_key_blobs")
    al = int_literals(ekb, lambda p, c: isinstance(p, ast.Call) and getattr(p.func, "id", "") == "align_block" and len(p.args) > 1 and p.args[1] is c)
    d("otfadTableAlign", al[0] if al else None, "Otfad.encrypt_key_blobs: align_block(result, N)")
    msk = int_literals(ekb, lambda p, c: isinstance(p, ast.BinOp) and isinstance(p.op, ast.BitAnd) and p.right is c)
    d("otfadScrambleSelMask", msk[0] if msk else None, "Otfad.encrypt_key_blobs: (align >> (i * 2)) & N")
    mul = int_literals(ekb, lambda p, c: isinstance(p, ast.BinOp) and isinstance(p.op, ast.Mult) and p.right is c)
    d("otfadScrambleSelBits", mul[0] if mul else None, "Otfad.encrypt_key_blobs: align >> (i * N)")
    d("otfadScrambleWord", mul[1] if len(mul) > 1 else None, "Otfad.encrypt_key_blobs: scrambled[(long_ix * N) + j]")
    # counter increment per 16-byte block in KeyBlob.encrypt_image
    inc = int_literals(_fun(kbc, "encrypt_image"), lambda p, c: isinstance(p, ast.Call) and getattr(p.func, "attr", "") == "increment" and p.args and p.args[0] is c)
    d("otfadCtrIncrement", inc[0] if inc else None, "KeyBlob.encrypt_image: counter.increment(N)")

    # ---------------- IEE
    for lean, (cls_, member) in (("ieeLock", ("IeeKeyBlobLockAttributes", "LOCK")), ("ieeUnlock", ("IeeKeyBlobLockAttributes", "UNLOCK")),
                                 ("ieeKey128", ("IeeKeyBlobKeyAttributes", "CTR128XTS256")), ("ieeKey256", ("IeeKeyBlobKeyAttributes", "CTR256XTS512")),
                                 ("ieeModeBypass", ("IeeKeyBlobModeAttributes", "Bypass")), ("ieeModeXts", ("IeeKeyBlobModeAttributes", "AesXTS")),
                                 ("ieeModeCtrAddr", ("IeeKeyBlobModeAttributes", "AesCTRWAddress")),
                                 ("ieeModeCtrNoAddr", ("IeeKeyBlobModeAttributes", "AesCTRWOAddress")),
                                 ("ieeModeCtrKeystream", ("IeeKeyBlobModeAttributes", "AesCTRkeystream"))):
        d(lean, enum_tags(iee, cls_).get(member), f"{cls_}.{member}")
    ikb = class_consts(iee, "IeeKeyBlob")
    for lean, py in (("ieeHeaderTag", "HEADER_TAG"), ("ieeKeyblobVersion", "KEYBLOB_VERSION"), ("ieeXtsBlockSize", "_IEE_ENCR_BLOCK_SIZE_XTS"),
                     ("ieeEncBlockSize", "_ENCRYPTION_BLOCK_SIZE"), ("ieeStartAddrMask", "_START_ADDR_MASK")):
        d(lean, ikb.get(py), f"IeeKeyBlob.{py}")
    ic = class_consts(iee, "Iee")
    d("ieeDataUnit", ic.get("IEE_DATA_UNIT"), "Iee.IEE_DATA_UNIT")
    d("ieeKeyBlobsSize", ic.get("IEE_KEY_BLOBS_SIZE"), "Iee.IEE_KEY_BLOBS_SIZE")
    ikc = _cls(iee, "IeeKeyBlob")
    sh = shift_amounts(_fun(ikc, "calculate_tweak"))
    d("ieeTweakShift", sh[0] if sh else None, "IeeKeyBlob.calculate_tweak: sector = address >> N")
    sh = shift_amounts(_fun(ikc, "encrypt_image_ctr"))
    d("ieeCtrAddrShift", sh[0] if sh else None, "IeeKeyBlob.encrypt_image_ctr: ctr_value = base_address >> N")
    pads = int_literals(_fun(ikc, "plain_data"), lambda p, c: isinstance(p, ast.Call) and getattr(p.func, "id", "") == "align_block" and len(p.args) > 1 and p.args[1] is c)
    d("ieeKeyFieldSize", pads[0] if pads else None, "IeeKeyBlob.plain_data: align_block(self.key1, N)")

    # ---------------- BEE
    bm = consts_of(bee.body)
    d("beeEncrBlockSize", bm.get("BEE_ENCR_BLOCK_SIZE"), "bee.BEE_ENCR_BLOCK_SIZE")
    sh = shift_amounts(_fun(_cls(bee, "BeeProtectRegionBlock"), "encrypt_block"))
    d("beeCtrAddrShift", sh[0] if sh else None, "BeeProtectRegionBlock.encrypt_block: ctr_value = start_addr >> N")
    d("beeFacRegions", class_consts(bee, "BeeProtectRegionBlock").get("FAC_REGIONS"), "BeeProtectRegionBlock.FAC_REGIONS")

    prdb = class_consts(bee, "BeeProtectRegionBlock")
    for lean, py in (("beeTagL", "TAGL"), ("beeTagH", "TAGH"), ("beeVersion", "VERSION"), ("beePrdbSize", "SIZE")):
        d(lean, prdb.get(py), f"BeeProtectRegionBlock.{py}")
    rh = class_consts(bee, "BeeRegionHeader")
    d("beeHdrPrdbOffset", rh.get("PRDB_OFFSET"), "BeeRegionHeader.PRDB_OFFSET")
    d("beeHdrSize", rh.get("SIZE"), "BeeRegionHeader.SIZE")
    d("beeModeCtr", enum_tags(bee, "BeeProtectRegionBlockAesMode").get("CTR"), "BeeProtectRegionBlockAesMode.CTR")

    # ---------------- SB2.1 helper: `encrypt` command
    try:
        sb21 = parse(SB21)
        al = int_literals(_fun(_cls(sb21, "SB21Helper"), "_encrypt"),
                          lambda p, c: isinstance(p, ast.Call) and getattr(p.func, "id", "") == "align_block" and len(p.args) > 1 and p.args[1] is c)
    except (OSError, SyntaxError):
        al = []
    d("sb21EncryptAlign", al[0] if al else None, "SB21Helper._encrypt: align_block(data, N)")

    # ---------------- CRC-32/MPEG-2 as configured in CRC_ALGORITHMS (crcmod semantics: register init = initCrc xor xorOut)
    cc = crc_config(crc, "CRC32_MPEG")
    poly, init, fx, rev = cc.get("polynomial"), cc.get("initial_value"), cc.get("final_xor"), cc.get("reverse")
    d("crcMpegPolyFull", poly, "CRC_ALGORITHMS[CRC32_MPEG].polynomial (with the x^32 term)")
    d("crcMpegInitCrc", init, "CRC_ALGORITHMS[CRC32_MPEG].initial_value (crcmod initCrc)")
    d("crcMpegXorOut", fx, "CRC_ALGORITHMS[CRC32_MPEG].final_xor")
    L.append(f"def crcMpegReverse : Bool := {'true' if rev else 'false'}  -- CRC_ALGORITHMS[CRC32_MPEG].reverse")
    meta["crcMpegReverse"] = bool(rev)
    if rev is None:
        meta["missing"].append("crcMpegReverse")
    L += ["", "end SpsdkVerif.Generated.FlashEncConsts"]
    emit("FlashEncConsts", "\n".join(L) + "\n", meta)


GENERATORS = {"FlashEncConsts": gen_FlashEncConsts}
