"""C11 generator: Generated/RegArith.lean - the integer arithmetic of spsdk/utils/registers.py, re-translated from the AST on every run.

A small dedicated symbolic translator (py2lean.py handles neither `self.attr`, `~x`, nor "the value handed to the parent" as a
result).  Every method is executed symbolically on Python-int expressions; `self.width`, `self.offset`, the value read from the
parent register, the config processor ... become EXPLICIT PARAMETERS with a FIXED signature (given by the spec below, never by the
source), locals are substituted away (so renamed locals, extra temporaries, `a; b; c` vs one expression give the same term),
same-class helper methods (`self._helper(...)`) are inlined, early returns and if/else give the same `if` tree, `enumerate(xs)`
and `enumerate(xs, start=1)` are both expressed through the 0-based position `k`.  No line numbers, names of locals or message
texts reach the generated text.  Python-int semantics: `& | ^ ~` are the two's complement operations of Base/PyInt.lean
(`intAnd/intOr/intXor`, `Int.not`), `<<`/`>>` are `shlI/shrI` of Base/PyIntOps.lean.

Emitted (namespace SpsdkVerif.Generated.RegArith), each with an opaque `.error .other` / `0` / `false` stand-in of the same
signature when it cannot be read (every theorem about it then fails; the module still compiles):

  srPre srPost srWidth         ShiftRightConfigProcessor.pre_process / post_process / width_update (count explicit)
  nopPre nopPost nopWidth      ConfigProcessor (base class) pre_process / post_process / width_update
  bfGet                        RegsBitField.get_value: (parent value, offset, width, post) -> value
  bfSet                        RegsBitField.set_value: (new value, no_preprocess, parent value, offset, width, pre) -> the value handed
                               to `parent.set_value`, or the exception class of the range guard
  bfConfigWidth                RegsBitField.__init__: config_width from (width, width_update)
  regSetGuard                  Register.set_value: the range guard on the integer value
  regSetSwapCond / regGetSwapCond      the condition under which the bytes are reversed
  regSetSwapBytes / regGetSwapBytes    byte count handed to value_to_bytes for the reversal
  regSetSwaps / regGetSwapsBig / regGetSwapsLittle   the two endianness arguments of the reversal differ (read by value)
  subCount subValue            Register.set_value: number of sub-registers written; value written to the sub-register at 0-based position k
  asmInit asmStep              Register.get_value: start value and one step of the assembly of the group value
  altFits altSel getAltWidth   Register.get_alt_width: selection rule (first fitting element, else the width; empty list -> width)
  altSorted altCntAlign altCntByteCnt   the list is sorted ascending before the search; arguments of get_bytes_cnt_of_int
  resetOr                      Register.get_reset_value: one bit-field's contribution
"""
from __future__ import annotations

import ast
import copy

from extract import emit, parse
from consteval import ModuleEnv, NotConst

REGS = "spsdk/utils/registers.py"
MISC = "spsdk/utils/misc.py"


class Untr(Exception):
    pass


# ------------------------------------------------------------------------------------------------ IR
# int:  ("int", n) ("var", name) ("bin", op, a, b) ("inv", a) ("neg", a) ("ite", c, a, b) ("app", f, a) ("sublist", upper|None)
# bool: ("bool", b) ("bvar", name) ("cmp", op, a, b) ("and", a, b) ("or", a, b) ("not", a) ("nonzero", a) ("nonempty", listname)
# outcome: ("ret", e) ("raise", kind) ("if", c, t, e) ("break", env) ("cont", env)
BOOL_TAGS = {"bool", "bvar", "cmp", "and", "or", "not", "nonzero", "nonempty"}


def is_bool(e):
    return e[0] in BOOL_TAGS or (e[0] == "ite" and is_bool(e[2]))


def as_bool(e):
    return e if is_bool(e) else ("nonzero", e)


def mentions(e, names):
    if isinstance(e, tuple):
        if e[0] in ("var", "bvar") and e[1] in names:
            return True
        return any(mentions(x, names) for x in e[1:])
    return False


class Ctx:
    """how one method is read: attribute -> parameter, call -> meaning"""

    def __init__(self, cls_node, attrs, calls=None, sinks=(), ignore=(), lists=None):
        self.cls = cls_node
        self.attrs = attrs            # unparsed attribute expression -> IR
        self.calls = calls or {}      # unparsed callee -> function(args IR list, keywords dict) -> IR
        self.sinks = set(sinks)       # unparsed callee (or method name with "*." prefix): first argument is the result
        self.ignore = set(ignore)     # unparsed callee of statements without effect on the arithmetic
        self.lists = lists or {}      # unparsed attribute expression -> list parameter name
        self.flags = {}
        self.depth = 0

    def method(self, name):
        for st in self.cls.body:
            if isinstance(st, ast.FunctionDef) and st.name == name:
                return st
        return None


def callee(node):
    try:
        return ast.unparse(node)
    except Exception:  # noqa: BLE001
        return "?"


class Exec:
    def __init__(self, ctx: Ctx):
        self.ctx = ctx

    # ---------------- expressions
    def expr(self, e, env):
        c = self.ctx
        if isinstance(e, ast.Constant):
            if isinstance(e.value, bool):
                return ("bool", e.value)
            if isinstance(e.value, int):
                return ("int", e.value)
            raise Untr(f"constant of type {type(e.value).__name__}")
        if isinstance(e, ast.Name):
            if e.id in env:
                return env[e.id]
            raise Untr(f"free name {e.id}")
        if isinstance(e, (ast.Attribute, ast.Subscript)):
            key = callee(e)
            if key in c.attrs:
                return c.attrs[key]
            if isinstance(e, ast.Subscript) and isinstance(e.slice, ast.Slice):
                base = callee(e.value)
                if base in c.lists and e.slice.lower is None and e.slice.step is None:
                    return ("sublist", c.lists[base], None if e.slice.upper is None else self.expr(e.slice.upper, env))
            if key in c.lists:
                return ("sublist", c.lists[key], None)
            raise Untr(f"attribute {key}")
        if isinstance(e, ast.BinOp):
            ops = {ast.Add: "+", ast.Sub: "-", ast.Mult: "*", ast.FloorDiv: "//", ast.Mod: "%", ast.LShift: "<<", ast.RShift: ">>",
                   ast.BitAnd: "&", ast.BitOr: "|", ast.BitXor: "^", ast.Pow: "**"}
            if type(e.op) not in ops:
                raise Untr(f"operator {type(e.op).__name__}")
            a, b = self.expr(e.left, env), self.expr(e.right, env)
            if is_bool(a) or is_bool(b):
                raise Untr("arithmetic on booleans")
            return fold(("bin", ops[type(e.op)], a, b))
        if isinstance(e, ast.UnaryOp):
            if isinstance(e.op, ast.Not):
                return ("not", as_bool(self.expr(e.operand, env)))
            a = self.expr(e.operand, env)
            if is_bool(a):
                raise Untr("arithmetic on booleans")
            if isinstance(e.op, ast.Invert):
                return ("inv", a)
            if isinstance(e.op, ast.USub):
                return fold(("neg", a))
            if isinstance(e.op, ast.UAdd):
                return a
        if isinstance(e, ast.Compare):
            ops = {ast.Lt: "<", ast.LtE: "<=", ast.Gt: ">", ast.GtE: ">=", ast.Eq: "==", ast.NotEq: "!="}
            terms = [self.expr(x, env) for x in [e.left] + list(e.comparators)]
            out = None
            for op, a, b in zip(e.ops, terms, terms[1:]):
                if type(op) not in ops or is_bool(a) or is_bool(b):
                    raise Untr("comparison form")
                t = ("cmp", ops[type(op)], a, b)
                out = t if out is None else ("and", out, t)
            return out
        if isinstance(e, ast.BoolOp):
            vals = [as_bool(self.expr(v, env)) for v in e.values]
            out = vals[0]
            for v in vals[1:]:
                out = ("and" if isinstance(e.op, ast.And) else "or", out, v)
            return out
        if isinstance(e, ast.IfExp):
            c0 = as_bool(self.expr(e.test, env))
            a, b = self.expr(e.body, env), self.expr(e.orelse, env)
            if is_bool(a) != is_bool(b):
                raise Untr("conditional expression of mixed type")
            return ("ite", c0, a, b)
        if isinstance(e, ast.Call):
            return self.call(e, env)
        raise Untr(f"expression {type(e).__name__}")

    def call(self, e, env):
        c = self.ctx
        key = callee(e.func)
        if key in c.calls:
            args = [self.expr(a, env) for a in e.args]
            kws = {k.arg: k.value for k in e.keywords}
            return c.calls[key](self, args, kws, env)
        if key == "int" and len(e.args) == 1 and not e.keywords:
            a = self.expr(e.args[0], env)
            if not is_bool(a):
                return a
        if key == "bool" and len(e.args) == 1 and not e.keywords:
            return as_bool(self.expr(e.args[0], env))
        # same-class helper: inline
        if isinstance(e.func, ast.Attribute) and isinstance(e.func.value, ast.Name) and e.func.value.id == "self":
            m = c.method(e.func.attr)
            if m is not None and c.depth < 4:
                names = [a.arg for a in m.args.args if a.arg != "self"]
                if m.args.vararg or m.args.kwarg or m.args.kwonlyargs:
                    raise Untr("helper with varargs")
                vals = {}
                for n, a in zip(names, e.args):
                    vals[n] = self.expr(a, env)
                for k in e.keywords:
                    if k.arg not in names:
                        raise Untr("helper keyword")
                    vals[k.arg] = self.expr(k.value, env)
                defaults = m.args.defaults
                for n, d in zip(names[len(names) - len(defaults):], defaults):
                    if n not in vals:
                        vals[n] = self.expr(d, {})
                if set(vals) != set(names):
                    raise Untr("helper arity")
                c.depth += 1
                try:
                    out = self.block(list(m.body), vals, None)
                finally:
                    c.depth -= 1
                return outcome_expr(out)
        raise Untr(f"call {key}")

    # ---------------- statements
    def block(self, stmts, env, final):
        """outcome tree of `stmts` started in `env`; `final(env)` gives the outcome when control falls off the end"""
        c = self.ctx
        if not stmts:
            if final is None:
                raise Untr("falls off the end")
            return final(env)
        s, rest = stmts[0], stmts[1:]
        if isinstance(s, ast.Expr):
            v = s.value
            if isinstance(v, ast.Constant):
                return self.block(rest, env, final)
            if isinstance(v, ast.Call):
                key = callee(v.func)
                root = key.split(".")[0]
                if root in ("logger", "logging", "warnings", "print") or key in c.ignore:
                    c.flags.setdefault("ignored", []).append(key)
                    if key in c.ignore:
                        c.flags.setdefault("ignored_pos", {})[key] = dict(kw={k.arg: k.value for k in v.keywords}, nargs=len(v.args))
                    return self.block(rest, env, final)
                if key in c.sinks or (isinstance(v.func, ast.Attribute) and "*." + v.func.attr in c.sinks
                                      and self._sink_base_ok(v.func.value, env)):
                    if not v.args:
                        raise Untr("sink without argument")
                    return ("ret", self.expr(v.args[0], env))
            raise Untr("expression statement")
        if isinstance(s, (ast.Assign, ast.AnnAssign, ast.AugAssign)):
            if isinstance(s, ast.Assign):
                if len(s.targets) != 1 or not isinstance(s.targets[0], ast.Name):
                    raise Untr("assignment target")
                tgt, val = s.targets[0].id, self.expr(s.value, env)
            elif isinstance(s, ast.AnnAssign):
                if not isinstance(s.target, ast.Name) or s.value is None:
                    raise Untr("assignment target")
                tgt, val = s.target.id, self.expr(s.value, env)
            else:
                if not isinstance(s.target, ast.Name):
                    raise Untr("assignment target")
                tgt = s.target.id
                val = self.expr(ast.BinOp(left=ast.Name(id=tgt, ctx=ast.Load()), op=s.op, right=s.value), env)
            env = dict(env)
            env[tgt] = val
            return self.block(rest, env, final)
        if isinstance(s, ast.If):
            c0 = as_bool(self.expr(s.test, env))
            t = self.block(list(s.body) + rest, dict(env), final)
            f = self.block(list(s.orelse) + rest, dict(env), final)
            return mk_if(c0, t, f)
        if isinstance(s, ast.Return):
            if s.value is None:
                raise Untr("bare return")
            return ("ret", self.expr(s.value, env))
        if isinstance(s, ast.Raise):
            name = None
            if isinstance(s.exc, ast.Call):
                name = callee(s.exc.func)
            elif s.exc is not None:
                name = callee(s.exc)
            if name is None:
                raise Untr("raise form")
            return ("raise", "spsdk" if name.rsplit(".", 1)[-1].startswith("SPSDK") else "other")
        if isinstance(s, ast.Pass):
            return self.block(rest, env, final)
        if isinstance(s, ast.Try):
            # transparent when every handler re-raises an SPSDK error class (the classes raised inside are SPSDK errors already)
            for h in s.handlers:
                last = h.body[-1] if h.body else None
                if not (isinstance(last, ast.Raise) and last.exc is not None
                        and callee(last.exc.func if isinstance(last.exc, ast.Call) else last.exc).rsplit(".", 1)[-1].startswith("SPSDK")):
                    raise Untr("try handler")
            if s.orelse or s.finalbody:
                raise Untr("try form")
            return self.block(list(s.body) + rest, env, final)
        if isinstance(s, ast.Break):
            return ("break", env)
        if isinstance(s, ast.Continue):
            return ("cont", env)
        raise Untr(f"statement {type(s).__name__}")

    def _sink_base_ok(self, node, env):
        return isinstance(node, ast.Name) and env.get(node.id) == ("elem",)


def fold(e):
    """constant folding only (never algebra: the shape of non-constant code is kept for the theorems to normalise)"""
    if e[0] == "bin" and e[2][0] == "int" and e[3][0] == "int":
        a, b, op = e[2][1], e[3][1], e[1]
        try:
            if op in ("<<", ">>", "**") and not 0 <= b <= 4096:
                return e
            if op in ("//", "%") and b == 0:
                return e
            return ("int", {"+": a + b, "-": a - b, "*": a * b, "//": a // b if b else 0, "%": a % b if b else 0, "<<": a << b, ">>": a >> b,
                            "&": a & b, "|": a | b, "^": a ^ b, "**": a ** b}[op])
        except Exception:  # noqa: BLE001
            return e
    if e[0] == "neg" and e[1][0] == "int":
        return ("int", -e[1][1])
    return e


def mk_if(c, t, f):
    if c == ("bool", True):
        return t
    if c == ("bool", False):
        return f
    if t == f and t[0] in ("ret", "raise"):
        return t
    if c[0] == "not":          # `if not c: A else B` == `if c: B else A`
        return ("if", c[1], f, t)
    return ("if", c, t, f)


def outcome_expr(o):
    """outcome tree without raise/break -> expression"""
    if o[0] == "ret":
        return o[1]
    if o[0] == "if":
        a, b = outcome_expr(o[2]), outcome_expr(o[3])
        if is_bool(a) != is_bool(b):
            raise Untr("helper returns mixed types")
        return ("ite", o[1], a, b)
    raise Untr("helper raises")


def has_raise(o):
    return o[0] == "raise" or (o[0] == "if" and (has_raise(o[2]) or has_raise(o[3])))


# ------------------------------------------------------------------------------------------------ Lean text
def lint(n):
    return f"({n} : Int)" if n >= 0 else f"(-{-n} : Int)"


def lean(e):
    t = e[0]
    if t == "int":
        return lint(e[1])
    if t in ("var", "bvar"):
        return e[1]
    if t == "bin":
        a, b, op = lean(e[2]), lean(e[3]), e[1]
        if op in ("+", "-", "*"):
            return f"({a} {op} {b})"
        fn = {"//": "Int.fdiv", "%": "Int.fmod", "<<": "shlI", ">>": "shrI", "&": "intAnd", "|": "intOr", "^": "intXor", "**": "powI"}[op]
        return f"({fn} {a} {b})"
    if t == "inv":
        return f"(Int.not {lean(e[1])})"
    if t == "neg":
        return f"(- {lean(e[1])})"
    if t == "ite":
        return f"(if {lean(e[1])} then {lean(e[2])} else {lean(e[3])})"
    if t == "app":
        return f"({e[1]} {lean(e[2])})"
    if t == "bool":
        return "true" if e[1] else "false"
    if t == "cmp":
        op = {"<": "<", "<=": "≤", ">": ">", ">=": "≥", "==": "=", "!=": "≠"}[e[1]]
        return f"(decide ({lean(e[2])} {op} {lean(e[3])}))"
    if t == "and":
        return f"({lean(e[1])} && {lean(e[2])})"
    if t == "or":
        return f"({lean(e[1])} || {lean(e[2])})"
    if t == "not":
        return f"(!{lean(e[1])})"
    if t == "nonzero":
        return f"(decide ({lean(e[1])} ≠ 0))"
    if t == "nonempty":
        return f"(!{e[1]}.isEmpty)"
    raise Untr(f"cannot print {t}")


def lean_outcome(o, res):
    """res: 'PyRes' -> `.ok e` / `.error k`; 'plain' -> expression (no raise allowed)"""
    if o[0] == "ret":
        if o[1] is None:
            raise Untr("returns None")
        return f"(.ok {lean(o[1])})" if res == "PyRes" else lean(o[1])
    if o[0] == "raise":
        if res != "PyRes":
            raise Untr("raises")
        return f"(.error .{o[1]})"
    if o[0] == "if":
        return f"(if {lean(o[1])} then {lean_outcome(o[2], res)} else {lean_outcome(o[3], res)})"
    raise Untr(f"outcome {o[0]}")


# ------------------------------------------------------------------------------------------------ specs
def cls_node(tree, name):
    for st in tree.body:
        if isinstance(st, ast.ClassDef) and st.name == name:
            return st
    raise Untr(f"class {name} not found")


def method(cls, name):
    for st in cls.body:
        if isinstance(st, ast.FunctionDef) and st.name == name:
            return st
    raise Untr(f"{cls.name}.{name} not found")


def params_env(fn, mapping):
    """environment of the method's own parameters; every parameter must be accounted for in `mapping`"""
    env = {}
    for a in fn.args.args:
        if a.arg == "self":
            continue
        if a.arg not in mapping:
            raise Untr(f"unexpected parameter {a.arg}")
        env[a.arg] = mapping[a.arg]
    return env


def first_param(fn):
    names = [a.arg for a in fn.args.args if a.arg != "self"]
    if len(names) != 1:
        raise Untr("expected exactly one parameter")
    return names[0]


def walk_stmts(stmts):
    """statements in order, descending into if/try/for/with bodies; yields (statement, enclosing list, index)"""
    for i, s in enumerate(stmts):
        yield s, stmts, i
        for fld in ("body", "orelse", "finalbody"):
            sub = getattr(s, fld, None)
            if isinstance(sub, list) and sub and isinstance(sub[0], ast.stmt):
                yield from walk_stmts(sub)
        for h in getattr(s, "handlers", []) or []:
            yield from walk_stmts(h.body)


def contains_call(node, pred):
    return any(isinstance(n, ast.Call) and pred(n) for n in ast.walk(node))


class Out:
    def __init__(self):
        self.lines = []
        self.meta = {}

    def define(self, name, sig, ret, build, opaque):
        try:
            body = build()
            self.lines.append(f"def {name} {sig} : {ret} :=\n  {body}\n")
            self.meta[name] = {"mode": "translated"}
        except Exception as exc:  # noqa: BLE001 - never let the extractor die: an unreadable part becomes an opaque stand-in
            self.lines.append(f"-- untranslatable: {name}: {type(exc).__name__}")
            self.lines.append(f"def {name} {sig} : {ret} :=\n  {opaque}\n")
            self.meta[name] = {"mode": "untranslatable", "reason": f"{type(exc).__name__}: {exc}"}


def processor_funs(out, tree):
    for cname, pfx, has_count in (("ShiftRightConfigProcessor", "sr", True), ("ConfigProcessor", "nop", False)):
        for mname, suffix in (("pre_process", "Pre"), ("post_process", "Post"), ("width_update", "Width")):
            def build(cname=cname, mname=mname, has_count=has_count):
                cls = cls_node(tree, cname)
                fn = method(cls, mname)
                ctx = Ctx(cls, {"self.count": ("var", "count")} if has_count else {})
                env = {first_param(fn): ("var", "value")}
                o = Exec(ctx).block(list(fn.body), env, None)
                return lean_outcome(o, "plain")
            sig = "(count value : Int)" if has_count else "(value : Int)"
            out.define(pfx + suffix, sig, "Int", build, "0")


def bitfield_funs(out, tree):
    def bf_ctx(cls, pre=None, post=None):
        calls = {"value_to_int": lambda ex, a, k, env: a[0] if len(a) == 1 and not k and not is_bool(a[0]) else _untr("value_to_int form"),
                 "self.parent.get_value": lambda ex, a, k, env: ("var", "parent"),
                 "self.config_processor.pre_process": lambda ex, a, k, env: ("app", "pre", a[0]) if len(a) == 1 and not k else _untr("pre form"),
                 "self.config_processor.post_process": lambda ex, a, k, env: ("app", "post", a[0]) if len(a) == 1 and not k else _untr("post form"),
                 "self.config_processor.width_update": lambda ex, a, k, env: ("app", "upd", a[0]) if len(a) == 1 and not k else _untr("upd form")}
        return Ctx(cls, {"self.width": ("var", "width"), "self.offset": ("var", "offset")}, calls, sinks=("self.parent.set_value",))

    def build_get():
        cls = cls_node(tree, "RegsBitField")
        fn = method(cls, "get_value")
        o = Exec(bf_ctx(cls)).block(list(fn.body), params_env(fn, {}), None)
        return lean_outcome(o, "plain")
    out.define("bfGet", "(parent offset width : Int) (post : Int → Int)", "Int", build_get, "0")

    def build_set():
        cls = cls_node(tree, "RegsBitField")
        fn = method(cls, "set_value")
        env = params_env(fn, {"new_val": ("var", "newVal"), "raw": ("bvar", "raw"), "no_preprocess": ("bvar", "noPre")})
        o = Exec(bf_ctx(cls)).block(list(fn.body), env, None)
        if mentions(o, {"raw"}):
            raise Untr("the written value depends on `raw`")
        return lean_outcome(o, "PyRes")
    out.define("bfSet", "(newVal : Int) (noPre : Bool) (parent offset width : Int) (pre : Int → Int)", "PyRes Int", build_set, ".error .other")

    def build_cw():
        cls = cls_node(tree, "RegsBitField")
        fn = method(cls, "__init__")
        for s, _, _ in walk_stmts(fn.body):
            if isinstance(s, ast.Assign) and len(s.targets) == 1 and callee(s.targets[0]) == "self.config_width":
                ctx = bf_ctx(cls)
                ctx.attrs = {}
                return lean(Exec(ctx).expr(s.value, {"width": ("var", "width")}))
        raise Untr("config_width assignment not found")
    out.define("bfConfigWidth", "(width : Int) (upd : Int → Int)", "Int", build_cw, "0")


def _untr(msg):
    raise Untr(msg)


def register_funs(out, tree, misc_tree):
    menv = ModuleEnv(misc_tree)
    renv = ModuleEnv(tree)

    def endian(node, base):
        """value of an endianness argument ('big' / 'little'); `base` = value of self.base_endianness"""
        # Endianness.X / Endianness.X.value / self.base_endianness / conditional expression on self.base_endianness
        if isinstance(node, ast.IfExp):
            t = node.test
            if isinstance(t, ast.Compare) and len(t.ops) == 1 and isinstance(t.ops[0], (ast.Eq, ast.NotEq)):
                a, b = endian(t.left, base), endian(t.comparators[0], base)
                c = (a == b) if isinstance(t.ops[0], ast.Eq) else (a != b)
                return endian(node.body if c else node.orelse, base)
            raise Untr("endianness condition")
        key = callee(node)
        if key in ("self.base_endianness", "self.base_endianness.value"):
            if base is None:
                raise Untr("base endianness not expected here")
            return base
        if key.endswith(".value"):
            key = key[:-len(".value")]
        if key.startswith("Endianness."):
            v = menv.cls("Endianness").value(key.split(".", 1)[1])
            if v in ("big", "little"):
                return v
        if isinstance(node, ast.Constant) and node.value in ("big", "little"):
            return node.value
        raise Untr("endianness argument")

    def reg_ctx(cls):
        calls = {"value_to_int": lambda ex, a, k, env: ("var", "value"),
                 "self.get_alt_width": lambda ex, a, k, env: ("var", "altWidth"),
                 "self.has_group_registers": lambda ex, a, k, env: ("bvar", "isGroup")}
        attrs = {"self.width": ("var", "width"), "self.reverse": ("bvar", "reverse"), "self.reverse_subregs_order": ("bvar", "revSubs"),
                 "self.sub_regs[0].width": ("var", "subW"), "self._value": ("var", "stored")}
        return Ctx(cls, attrs, calls, lists={"self.sub_regs": "subs"})

    def swap_if(fn):
        """the `if` statement that reverses the bytes: its body calls value_to_bytes"""
        for s, _, _ in walk_stmts(fn.body):
            if isinstance(s, ast.If) and contains_call(ast.Module(body=s.body, type_ignores=[]), lambda c: callee(c.func) == "value_to_bytes") \
                    and not any(isinstance(x, ast.If) and contains_call(x, lambda c: callee(c.func) == "value_to_bytes") for x in s.body):
                return s
        raise Untr("byte reversal not found")

    def swap_calls(s):
        enc = dec = None
        for n in ast.walk(ast.Module(body=s.body, type_ignores=[])):
            if isinstance(n, ast.Call) and callee(n.func) == "value_to_bytes":
                enc = n
            if isinstance(n, ast.Call) and isinstance(n.func, ast.Attribute) and n.func.attr == "from_bytes":
                dec = n
        if enc is None or dec is None:
            raise Untr("byte reversal calls")
        return enc, dec

    def kwarg(call, name, pos, fn_name):
        for k in call.keywords:
            if k.arg == name:
                return k.value
        if len(call.args) > pos:
            return call.args[pos]
        # default of the callee, read from its definition
        for st in misc_tree.body:
            if isinstance(st, ast.FunctionDef) and st.name == fn_name:
                names = [a.arg for a in st.args.args]
                d = st.args.defaults
                if name in names and names.index(name) >= len(names) - len(d):
                    return d[names.index(name) - (len(names) - len(d))]
        raise Untr(f"argument {name}")

    for which, mname in (("Set", "set_value"), ("Get", "get_value")):
        def local_env(cls, fn):
            """locals a later statement may use, bound by executing the straight-line prefix symbolically is overkill here:
            the reversal only uses `raw`, the value and the alternative width"""
            return {"raw": ("bvar", "raw"), "alt_width": ("var", "altWidth")}

        def build_cond(mname=mname):
            cls = cls_node(tree, "Register")
            fn = method(cls, mname)
            s = swap_if(fn)
            ctx = reg_ctx(cls)
            return lean(as_bool(Exec(ctx).expr(s.test, {"raw": ("bvar", "raw")})))
        out.define(f"reg{which}SwapCond", "(raw reverse : Bool)", "Bool", build_cond, "false")

        def build_bytes(mname=mname):
            cls = cls_node(tree, "Register")
            fn = method(cls, mname)
            enc, _ = swap_calls(swap_if(fn))
            node = kwarg(enc, "byte_cnt", 2, "value_to_bytes")
            ctx = reg_ctx(cls)
            # the alternative width is whatever local was bound to self.get_alt_width(...)
            env = {}
            for s, _, _ in walk_stmts(fn.body):
                if isinstance(s, ast.Assign) and len(s.targets) == 1 and isinstance(s.targets[0], ast.Name) \
                        and isinstance(s.value, ast.Call) and callee(s.value.func) == "self.get_alt_width":
                    env[s.targets[0].id] = ("var", "altWidth")
            a2n = kwarg(enc, "align_to_2n", 1, "value_to_bytes")
            if renv.eval(a2n) is not False:
                raise Untr("align_to_2n of the reversal")
            return lean(Exec(ctx).expr(node, env))
        out.define(f"reg{which}SwapBytes", "(altWidth width : Int)", "Int", build_bytes, "0")

    def build_swaps(mname, base):
        cls = cls_node(tree, "Register")
        fn = method(cls, mname)
        enc, dec = swap_calls(swap_if(fn))
        e1 = endian(kwarg(enc, "endianness", 3, "value_to_bytes"), base)
        if len(dec.args) < 2 and not any(k.arg == "byteorder" for k in dec.keywords):
            raise Untr("from_bytes byte order")
        d_node = dec.args[1] if len(dec.args) >= 2 else [k.value for k in dec.keywords if k.arg == "byteorder"][0]
        e2 = endian(d_node, base)
        return "true" if e1 != e2 else "false"
    out.define("regSetSwaps", "", "Bool", lambda: build_swaps("set_value", None), "false")
    out.define("regGetSwapsBig", "", "Bool", lambda: build_swaps("get_value", "big"), "false")
    out.define("regGetSwapsLittle", "", "Bool", lambda: build_swaps("get_value", "little"), "false")

    # ---- range guard of Register.set_value: the statements up to the first `if …: raise`
    def build_guard():
        cls = cls_node(tree, "Register")
        fn = method(cls, "set_value")
        body = list(fn.body)
        while len(body) == 1 and isinstance(body[0], ast.Try) or (body and isinstance(body[0], ast.Expr) and isinstance(body[0].value, ast.Constant)):
            body = list(body[0].body) if isinstance(body[0], ast.Try) else body[1:]
        pre = []
        for s in body:
            pre.append(s)
            if isinstance(s, ast.If) and any(isinstance(x, ast.Raise) for x in ast.walk(s)):
                break
        else:
            raise Untr("no range guard")
        pre.append(ast.Return(value=ast.Constant(value=True)))
        fn2 = params_env(fn, {"val": ("var", "value"), "raw": ("bvar", "raw")})
        o = Exec(reg_ctx(cls)).block(pre, fn2, None)
        return lean_outcome(o, "PyRes")
    out.define("regSetGuard", "(value width : Int)", "PyRes Bool", build_guard, ".error .other")

    # ---- the sub-register loops
    def find_loop(fn, is_sink_loop):
        for s, lst, i in walk_stmts(fn.body):
            if isinstance(s, ast.For):
                has_sink = contains_call(ast.Module(body=s.body, type_ignores=[]),
                                         lambda c: isinstance(c.func, ast.Attribute) and c.func.attr == "set_value")
                has_get = contains_call(ast.Module(body=s.body, type_ignores=[]),
                                        lambda c: isinstance(c.func, ast.Attribute) and c.func.attr == "get_value")
                if (is_sink_loop and has_sink) or (not is_sink_loop and has_get):
                    return s, lst, i
        raise Untr("sub-register loop not found")

    def loop_header(ex, s, env):
        """-> (index variable or None, element variable, start, list IR)"""
        it = s.iter
        idx = None
        start = 0
        if isinstance(it, ast.Call) and callee(it.func) == "enumerate":
            if not (isinstance(s.target, ast.Tuple) and len(s.target.elts) == 2 and all(isinstance(x, ast.Name) for x in s.target.elts)):
                raise Untr("enumerate target")
            idx, elem = s.target.elts[0].id, s.target.elts[1].id
            lst = it.args[0]
            if len(it.args) > 1:
                start = renv.eval(it.args[1])
            for k in it.keywords:
                if k.arg != "start":
                    raise Untr("enumerate keyword")
                start = renv.eval(k.value)
            if not isinstance(start, int) or isinstance(start, bool):
                raise Untr("enumerate start")
        elif isinstance(s.target, ast.Name):
            elem, lst = s.target.id, it
        else:
            raise Untr("loop target")
        lir = ex.expr(lst, env)
        if lir[0] != "sublist":
            raise Untr("loop over something else than the sub-register list")
        return idx, elem, start, lir

    def prefix_env(ex, fn, stop, allowed):
        """bind the locals assigned (at any nesting level) before statement `stop`, by ROLE of their defining expression:
        anything computed from the written/stored value is the running `value`; other definitions are substituted"""
        env = params_env(fn, {"val": ("var", "value"), "raw": ("bvar", "raw")})
        for s, _, _ in walk_stmts(fn.body):
            if s is stop:
                break
            if isinstance(s, ast.Assign) and len(s.targets) == 1 and isinstance(s.targets[0], ast.Name):
                name = s.targets[0].id
                try:
                    v = ex.expr(s.value, env)
                except Untr:
                    # e.g. the reversal `value.from_bytes(...)` / `value_to_bytes(...)`: a value-role local stays the running value
                    if name in env and env[name] == ("var", "value"):
                        continue
                    env.pop(name, None)
                    continue
                if v[0] != "sublist" and mentions(v, {"value"}) and v != ("var", "value"):
                    raise Untr("value transformed before the loop")
                env[name] = v
        return env

    def build_sub(kind):
        cls = cls_node(tree, "Register")
        fn = method(cls, "set_value")
        loop, _, _ = find_loop(fn, True)
        ctx = reg_ctx(cls)
        ctx.sinks = {"*.set_value"}
        ex = Exec(ctx)
        env = prefix_env(ex, fn, loop, None)
        idx, elem, start, lir = loop_header(ex, loop, env)
        if kind == "count":
            if lir[2] is None:
                raise Untr("the whole list is written")
            return lean(lir[2])
        env = dict(env)
        env[elem] = ("elem",)
        if idx is not None:
            env[idx] = ("var", "k") if start == 0 else ("bin", "+", ("var", "k"), ("int", start))
        o = ex.block(list(loop.body), env, None)
        if mentions(o, {"raw", "reverse"}):
            raise Untr("the sub-register value depends on raw/reverse")
        return lean_outcome(o, "plain")
    out.define("subCount", "(altWidth subW : Int)", "Int", lambda: build_sub("count"), "0")
    out.define("subValue", "(value altWidth subW k : Int) (revSubs : Bool)", "Int", lambda: build_sub("value"), "0")

    def build_asm(kind):
        cls = cls_node(tree, "Register")
        fn = method(cls, "get_value")
        loop, _, _ = find_loop(fn, False)
        ctx = reg_ctx(cls)
        ctx.calls = dict(ctx.calls)
        ex = Exec(ctx)
        env = {"raw": ("bvar", "raw")}
        # locals bound before the loop (constants / attributes only)
        init = {}
        for s, _, _ in walk_stmts(fn.body):
            if s is loop:
                break
            if isinstance(s, ast.Assign) and len(s.targets) == 1 and isinstance(s.targets[0], ast.Name):
                try:
                    init[s.targets[0].id] = ex.expr(s.value, env)
                    env[s.targets[0].id] = init[s.targets[0].id]
                except Untr:
                    pass
        idx, elem, start, lir = loop_header(ex, loop, env)
        if lir[2] is not None:
            raise Untr("only part of the sub-registers is read")
        assigned = {n.id for st in loop.body for n in ast.walk(st) if isinstance(n, ast.Name) and isinstance(n.ctx, ast.Store)}
        carried = sorted(n for n in assigned if n in env and n not in (idx, elem))
        if len(carried) != 1:
            raise Untr("loop-carried variables")
        acc = carried[0]
        if kind == "init":
            return lean(init[acc])
        env = dict(env)
        env[acc] = ("var", "acc")
        env[elem] = ("elem",)
        if idx is not None:
            env[idx] = ("var", "k") if start == 0 else ("bin", "+", ("var", "k"), ("int", start))

        def sub_get(ex_, a, k, env_):
            return ("var", "subVal")
        # `<elem>.get_value(raw=raw)` -> the sub-register's value
        ctx.calls[elem + ".get_value"] = sub_get
        o = ex.block(list(loop.body), env, lambda e: ("ret", e[acc]))
        if mentions(o, {"raw"}):
            raise Untr("assembly depends on raw")
        return lean_outcome(o, "plain")
    out.define("asmInit", "", "Int", lambda: build_asm("init"), "(-1 : Int)")
    out.define("asmStep", "(acc subVal width subW k : Int) (revSubs : Bool)", "Int", lambda: build_asm("step"), "0")

    # ---- get_alt_width
    def alt_parts():
        cls = cls_node(tree, "Register")
        fn = method(cls, "get_alt_width")
        calls = {"get_bytes_cnt_of_int": lambda ex, a, k, env: ("var", "cnt")}
        ctx = Ctx(cls, {"self.width": ("var", "width")}, calls, ignore=("self.alt_widths.sort",), lists={"self.alt_widths": "alts"})
        ex = Exec(ctx)
        orig_expr = ex.expr

        def expr2(e, env):
            # truthiness of the list attribute
            if callee(e) == "self.alt_widths":
                return ("nonempty", "alts")
            return orig_expr(e, env)
        ex.expr = expr2
        loops = [s for s, _, _ in walk_stmts(fn.body) if isinstance(s, ast.For)]
        if len(loops) != 1 or not isinstance(loops[0].target, ast.Name) or callee(loops[0].iter) != "self.alt_widths" or loops[0].orelse:
            raise Untr("selection loop form")
        loop = loops[0]
        res = {}

        # replace the loop by a marker statement and run the whole method; at the marker, run the body once symbolically
        def run(stmts, env, final):
            if not stmts:
                return final(env)
            s, rest = stmts[0], stmts[1:]
            if s is loop:
                elem = loop.target.id
                body_env = dict(env)
                body_env[elem] = ("var", "alt")
                after_none = run(rest, dict(env), final)          # no element selected
                o = ex.block(list(loop.body), body_env, lambda e: ("cont", e))

                def leaf(t):
                    if t[0] == "if":
                        return ("if", t[1], leaf(t[2]), leaf(t[3]))
                    if t[0] == "cont":
                        e2 = {k: v for k, v in t[1].items() if k != elem}
                        if e2 != {k: v for k, v in env.items() if k != elem}:
                            raise Untr("state changes while searching")
                        return ("cont",)
                    if t[0] == "break":
                        return run(rest, {k: v for k, v in t[1].items()}, final)
                    return t
                res["step"] = leaf(o)
                res["none"] = after_none
                return ("loop",)
            if isinstance(s, ast.If) and any(x is loop for x in ast.walk(s)):
                c0 = as_bool(ex.expr(s.test, env))
                return mk_if(c0, run(list(s.body) + rest, dict(env), final), run(list(s.orelse) + rest, dict(env), final))
            if isinstance(s, ast.If):
                c0 = as_bool(ex.expr(s.test, env))
                return mk_if(c0, run(list(s.body) + rest, dict(env), final), run(list(s.orelse) + rest, dict(env), final))
            if isinstance(s, ast.Return):
                return ("ret", ex.expr(s.value, env))
            # any other statement: let the generic executor handle exactly this one, continuing with `run`
            return ex.block([s], env, lambda e: run(rest, e, final))
        first = first_param(fn)
        top = run(list(fn.body), {first: ("var", "value")}, lambda e: _untr("falls off the end"))
        res["top"] = top
        res["flags"] = ctx.flags
        # arguments of get_bytes_cnt_of_int
        cnt_call = [n for n in ast.walk(fn) if isinstance(n, ast.Call) and callee(n.func) == "get_bytes_cnt_of_int"]
        if len(cnt_call) != 1:
            raise Untr("byte count call")
        res["align"] = renv.eval(kwarg(cnt_call[0], "align_to_2n", 1, "get_bytes_cnt_of_int"))
        bc = kwarg(cnt_call[0], "byte_cnt", 2, "get_bytes_cnt_of_int")
        res["bytecnt"] = not (isinstance(bc, ast.Constant) and bc.value is None)
        if callee(cnt_call[0].args[0] if cnt_call[0].args else kwarg(cnt_call[0], "value", 0, "get_bytes_cnt_of_int")) != first:
            raise Untr("byte count of something else than the value")
        return res

    cache = {}

    def parts():
        if "r" not in cache:
            try:
                cache["r"] = alt_parts()
            except Exception as exc:  # noqa: BLE001
                cache["r"] = exc
        if isinstance(cache["r"], Exception):
            raise Untr(f"get_alt_width: {type(cache['r']).__name__}: {cache['r']}")
        return cache["r"]

    def step_text(t, kind):
        if t[0] == "if":
            return f"(if {lean(t[1])} then {step_text(t[2], kind)} else {step_text(t[3], kind)})"
        if t[0] == "cont":
            return "altSel width cnt tl" if kind == "sel" else "false"
        if t[0] == "ret":
            return lean(t[1]) if kind == "sel" else "true"
        raise Untr("selection outcome")

    def build_fits():
        r = parts()
        if mentions(r["step"], {"value"}):
            raise Untr("selection uses the value directly")
        return step_text(r["step"], "fits")
    out.define("altFits", "(width cnt alt : Int)", "Bool", build_fits, "false")

    def build_sel():
        r = parts()
        none = lean_outcome(r["none"], "plain")
        step = step_text(r["step"], "sel")
        return None, none, step

    try:
        _, none_t, step_t = build_sel()
        if "value" in none_t.split() or "value" in step_t.split():
            raise Untr("selection uses the value directly")
        out.lines.append("def altSel (width cnt : Int) : List Int → Int\n"
                         f"  | [] => {none_t}\n"
                         f"  | alt :: tl => {step_t}\n")
        out.meta["altSel"] = {"mode": "translated"}
    except Exception as exc:  # noqa: BLE001
        out.lines.append("-- untranslatable: altSel")
        out.lines.append("def altSel (width cnt : Int) : List Int → Int\n  | _ => (-1 : Int)\n")
        out.meta["altSel"] = {"mode": "untranslatable", "reason": f"{type(exc).__name__}: {exc}"}

    def build_top():
        r = parts()

        def txt(t):
            if t[0] == "if":
                return f"(if {lean(t[1])} then {txt(t[2])} else {txt(t[3])})"
            if t[0] == "loop":
                return "altSel width cnt alts"
            if t[0] == "ret":
                return lean(t[1])
            raise Untr("outcome")
        s = txt(r["top"])
        if "value" in s.replace("(", " ").replace(")", " ").split():
            raise Untr("result uses the value directly")
        return s
    out.define("getAltWidth", "(width cnt : Int) (alts : List Int)", "Int", build_top, "(-1 : Int)")

    def build_sorted():
        r = parts()
        pos = r["flags"].get("ignored_pos", {}).get("self.alt_widths.sort")
        if pos is None:
            return "false"
        rev = pos["kw"].get("reverse")
        if pos["nargs"] or set(pos["kw"]) - {"reverse"} or (rev is not None and renv.eval(rev) is not False):
            return "false"
        return "true"
    out.define("altSorted", "", "Bool", build_sorted, "false")
    out.define("altCntAlign", "", "Bool", lambda: "true" if parts()["align"] else "false", "true")
    out.define("altCntByteCnt", "", "Bool", lambda: "true" if parts()["bytecnt"] else "false", "true")

    # ---- get_reset_value: contribution of one bit-field
    def build_reset():
        cls = cls_node(tree, "Register")
        fn = method(cls, "get_reset_value")
        loops = [s for s, _, _ in walk_stmts(fn.body) if isinstance(s, ast.For)]
        if len(loops) != 1 or not isinstance(loops[0].target, ast.Name):
            raise Untr("loop form")
        loop = loops[0]
        b = loop.target.id
        ctx = Ctx(cls, {f"{b}.width": ("var", "width"), f"{b}.offset": ("var", "offset"), f"{b}.reset_value": ("var", "reset"),
                        "self._reset_value": ("var", "acc")})
        ex = Exec(ctx)
        env = {}
        for s in fn.body:
            if s is loop:
                break
            if isinstance(s, ast.Assign) and len(s.targets) == 1 and isinstance(s.targets[0], ast.Name):
                env[s.targets[0].id] = ex.expr(s.value, env)
        carried = [n for n, v in env.items() if v == ("var", "acc")]
        if len(carried) != 1:
            raise Untr("accumulator")
        o = ex.block(list(loop.body), dict(env), lambda e: ("ret", e[carried[0]]))
        return lean_outcome(o, "plain")
    out.define("resetOr", "(acc reset offset width : Int)", "Int", build_reset, "0")

    # ---- get_reset_value: WHICH bit-fields contribute (all of `_bitfields`, hidden ones included - not the filtered `get_bitfields()`)
    def build_reset_iter():
        cls = cls_node(tree, "Register")
        fn = method(cls, "get_reset_value")
        loops = [s for s, _, _ in walk_stmts(fn.body) if isinstance(s, ast.For)]
        if len(loops) != 1:
            raise Untr("loop form")
        it = loops[0].iter
        self_calls = [n for n in ast.walk(it) if isinstance(n, ast.Call) and callee(n.func).startswith("self.")]
        direct = [n for n in ast.walk(it) if isinstance(n, ast.Attribute) and callee(n) == "self._bitfields"]
        if direct and not self_calls:
            return "true"
        if self_calls:
            return "false"
        raise Untr("iteration source")
    out.define("resetIterAll", "", "Bool", build_reset_iter, "false")


def gen_RegArith() -> None:
    out = Out()
    head = ["import SpsdkVerif.Base.Py", "import SpsdkVerif.Base.PyInt", "import SpsdkVerif.Base.PyIntOps", "",
            "namespace SpsdkVerif.Generated.RegArith", "open SpsdkVerif", ""]
    try:
        tree = parse(REGS)
        misc_tree = parse(MISC)
    except (OSError, SyntaxError) as exc:
        tree = misc_tree = ast.parse("")
        out.meta["errors"] = [str(exc)]
    processor_funs(out, tree)
    bitfield_funs(out, tree)
    register_funs(out, tree, misc_tree)
    body = "\n".join(head + out.lines + ["end SpsdkVerif.Generated.RegArith"]) + "\n"
    emit("RegArith", body, {"functions": out.meta})


# ------------------------------------------------------------------------------------------------ RegProc (phase 3)
def _proc_classes(tree):
    """ConfigProcessor and every class of the module deriving from it (transitively), in source order, base class first"""
    classes = [st for st in tree.body if isinstance(st, ast.ClassDef)]
    by_name = {c.name: c for c in classes}
    derived = {"ConfigProcessor"} if "ConfigProcessor" in by_name else set()
    changed = True
    while changed:
        changed = False
        for c in classes:
            if c.name not in derived and any(callee(b) in derived for b in c.bases):
                derived.add(c.name)
                changed = True
    order = [c for c in classes if c.name in derived]
    order.sort(key=lambda c: c.name != "ConfigProcessor")
    return order, by_name


def _resolve(cls, by_name, mname, seen=()):
    for st in cls.body:
        if isinstance(st, ast.FunctionDef) and st.name == mname:
            return cls, st
    for b in cls.bases:
        bn = callee(b)
        if bn in by_name and bn not in seen:
            r = _resolve(by_name[bn], by_name, mname, seen + (cls.name,))
            if r:
                return r
    return None


def _lstr(x):
    return '"' + x.replace("\\", "\\\\").replace('"', '\\"') + '"'


def _split_consts(fn):
    """string constants handed to split / partition / replace, in evaluation (source) order"""
    out = []
    for n in ast.walk(fn):
        if isinstance(n, ast.Call) and isinstance(n.func, ast.Attribute) and n.func.attr in ("split", "partition", "replace", "rsplit"):
            for a in n.args:
                if isinstance(a, ast.Constant) and isinstance(a.value, str):
                    out.append((n.lineno, n.col_offset, n.func.attr, a.value))
    out.sort()
    return [f"{attr}:{v}" for _, _, attr, v in out]


def gen_RegProc() -> None:
    head = ["import SpsdkVerif.Base.Py", "import SpsdkVerif.Base.PyInt", "import SpsdkVerif.Base.PyIntOps", "",
            "namespace SpsdkVerif.Generated.RegProc", "open SpsdkVerif", "",
            "/-- one class of registers.py deriving from `ConfigProcessor` (the base class itself comes first): `NAME`, the instance",
            "    attributes its three methods read (`ps` carries their values in this order), the keys `from_str` takes them from -/",
            "structure Proc where", "  cls : String", "  name : String", "  params : List String", "  keys : List String",
            "  pre : List Int → Int → Int", "  post : List Int → Int → Int", "  width : List Int → Int → Int", ""]
    meta = {"classes": {}}
    entries, dispatch, syntax = [], [], []
    try:
        tree = parse(REGS)
        menv = ModuleEnv(tree)
        order, by_name = _proc_classes(tree)
    except Exception as exc:  # noqa: BLE001
        order, by_name, tree = [], {}, ast.parse("")
        meta["errors"] = [f"{type(exc).__name__}: {exc}"]
    for cls in order:
        try:
            name = menv.cls(cls.name).value("NAME")
            if not isinstance(name, str):
                raise Untr("NAME is not a string")
            attrs = set()
            fns = {}
            for mname in ("pre_process", "post_process", "width_update"):
                r = _resolve(cls, by_name, mname)
                if not r:
                    raise Untr(f"{mname} not found")
                fns[mname] = r
                for n in ast.walk(r[1]):
                    if isinstance(n, ast.Attribute) and isinstance(n.value, ast.Name) and n.value.id == "self":
                        attrs.add(n.attr)
            params = sorted(attrs)
            amap = {f"self.{a}": ("var", f"(ps.getD {i} 0)") for i, a in enumerate(params)}
            bodies = {}
            for mname, (owner, fn) in fns.items():
                o = Exec(Ctx(owner, dict(amap))).block(list(fn.body), {first_param(fn): ("var", "value")}, None)
                bodies[mname] = lean_outcome(o, "plain")
            keys = []
            fs = _resolve(cls, by_name, "from_str")
            if fs and cls.name != "ConfigProcessor":
                for n in ast.walk(fs[1]):
                    if isinstance(n, ast.Subscript) and isinstance(n.slice, ast.Constant) and isinstance(n.slice.value, str) and n.slice.value not in keys:
                        keys.append(n.slice.value)
            entries.append("  { cls := %s, name := %s, params := [%s], keys := [%s],\n    pre := fun ps value => %s,\n    post := fun ps value => %s,\n    width := fun ps value => %s }"
                           % (_lstr(cls.name), _lstr(name), ", ".join(map(_lstr, params)), ", ".join(map(_lstr, keys)),
                              bodies["pre_process"], bodies["post_process"], bodies["width_update"]))
            if cls.name != "ConfigProcessor":
                dispatch.append(name)
            meta["classes"][cls.name] = {"mode": "translated", "name": name, "params": params}
        except Exception as exc:  # noqa: BLE001 - an unreadable class becomes an entry no theorem accepts
            entries.append("  { cls := %s, name := \"?\", params := [], keys := [], pre := fun _ _ => -1, post := fun _ _ => -1, width := fun _ _ => -1 }" % _lstr(cls.name))
            meta["classes"][cls.name] = {"mode": "untranslatable", "reason": f"{type(exc).__name__}: {exc}"}
    try:
        base = by_name["ConfigProcessor"]
        for mname in ("get_method_name", "get_params", "get_description"):
            r = _resolve(base, by_name, mname)
            syntax.append((mname, _split_consts(r[1]) if r else ["?"]))
    except Exception as exc:  # noqa: BLE001
        syntax = [("?", [str(type(exc).__name__)])]
    lines = head + ["def procs : List Proc := [", ",\n".join(entries), "]", "",
                    "/-- `ConfigProcessor.from_spec`: the `NAME`s of the subclasses it dispatches over (anything else: no processor) -/",
                    "def dispatch : List String := [%s]" % ", ".join(map(_lstr, dispatch)), "",
                    "/-- the string constants of the configuration-string syntax (`<NAME>:<KEY>=<int>,…;DESC=<text>`), per method, in source order -/",
                    "def syntaxConsts : List (String × List String) := [%s]" % ", ".join("(%s, [%s])" % (_lstr(m), ", ".join(map(_lstr, cs))) for m, cs in syntax), "",
                    "end SpsdkVerif.Generated.RegProc"]
    emit("RegProc", "\n".join(lines) + "\n", meta)


GENERATORS = {"RegArith": gen_RegArith, "RegProc": gen_RegProc}
