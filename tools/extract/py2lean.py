"""Python-AST -> Lean 4 translator for small, straight-line integer functions.

Deliberately small subset (everything else raises `Untranslatable`, the caller
records it and the obligation falls back to hand model + correspondence):

  * parameters: integers (Lean `Int`) or booleans (annotation `bool`)
  * statements: docstring, `if/elif/else`, `return e`, `raise X(...)`,
    `x = e` / `x op= e` on local names
  * expressions: int/bool constants, names (parameters, locals, resolved
    module/class integer constants), `+ - * // %`, `<< >> & | ^` (modelled on
    non-negative operands, see Base/Py.lean), unary `-`/`+`/`not`, comparisons
    incl. chained ones, `and/or`, `min/max/abs/int/bool`, calls of other
    translated functions.

Python semantics kept: `//` and `%` are floor division (Int.fdiv/Int.fmod) and
raise ZeroDivisionError (-> PyErr.other) on a zero divisor; exceptions are mapped
to `PyErr.spsdk` when the raised class name starts with `SPSDK`, else `.other`.

The output is a plain nested `if … then … else …` term of type
`PyRes Int` / `PyRes Bool` (no `do` notation) so that `simp`/`omega`/`grind`
can work on it directly.

Extensions (phase 2, all additive: a function inside the subset above translates to the same text):

  * `while cond: body` over integer/boolean locals -> an auxiliary structurally recursive function
    `<name>_while<k> (consts…) : Nat → state… → PyRes (state tuple)` with an explicit FUEL argument;
    fuel exhausted = `.error .other` ("did not terminate within fuel").  The translated function (and every
    translated caller) gets a leading `(fuel : Nat)` parameter.  `break`/`continue`/`raise` inside the body are
    supported, `return` inside a loop and `while … else` are not.
  * `for x in range(<constants>)` / `for x in (<int constants>)` -> unrolled (at most 64 iterations, no break/continue).
  * `ceil(a / b)` / `floor(a / b)` (also `math.…`, usually inside `int(…)`) on integers: Python computes the quotient as
    an IEEE double.  For |a|, |b| < 2^53 both operands are exact, the quotient is correctly rounded and the result is
    the exact ceiling/floor (a quotient can only round *onto* an integer from the harmless side below 2^53).  The
    translation therefore carries the guard explicitly: outside `|a|,|b| < 2^53` the generated function is
    `.error .other` (= "no claim"), so a theorem quantifying over all integers cannot be proved about it.
  * parameters annotated `Optional[int]` (`int | None`) -> `Option Int`; truthiness `(x.getD 0 != 0)`; `x is None`,
    `x is not None`; `a or b` on int/Optional[int] operands with Python's value semantics; use of an Optional in
    arithmetic/comparison is allowed where a dominating test (`if x`, `x and …`, `x is not None`) narrows it,
    elsewhere a `None` operand is a TypeError (`.error .other` guard).
  * parameters of type 'Len' (bytes-like): only `len(p)` may be used; the Lean parameter is `p_len : Int`.
  * `assert isinstance(…)` and logging calls are skipped; other `assert c` -> AssertionError when `c` is false.
  * f-strings / exception messages are never translated (only the exception class matters).
"""
from __future__ import annotations

import ast
from dataclasses import dataclass, field
from typing import Optional


class Untranslatable(Exception):
    pass


@dataclass
class FunSig:
    lean_name: str
    params: list  # list of (name, 'Int'|'Bool')
    ret: str  # 'Int' | 'Bool'
    fuel: bool = False  # True: the Lean function takes a leading `(fuel : Nat)` argument (contains a while loop)


@dataclass
class Env:
    consts: dict = field(default_factory=dict)  # dotted python name -> int
    funs: dict = field(default_factory=dict)  # dotted python callee name -> FunSig


_RESERVED = {"end", "at", "from", "fun", "do", "then", "else", "if", "let", "in", "have", "show",
             "match", "with", "def", "theorem", "open", "section", "namespace", "local", "type",
             "start", "set", "by", "where", "instance", "class", "structure", "mut", "for"}


def lname(n: str) -> str:
    n = n.lstrip("_") or "u"
    return n + "_" if n in _RESERVED else n


def _dotted(node) -> Optional[str]:
    if isinstance(node, ast.Name):
        return node.id
    if isinstance(node, ast.Attribute):
        b = _dotted(node.value)
        return None if b is None else b + "." + node.attr
    return None


class _Tr:
    def __init__(self, env: Env, params: dict):
        self.env = env
        self.vars = dict(params)  # python name -> type
        self.binds = []  # pending monadic binds for the expression being built
        self.tmp = 0

    # ---------------- expressions -----------------
    def const(self, name: str):
        for key in (name, name.split(".", 1)[-1], name.rsplit(".", 1)[-1]):
            if key in self.env.consts:
                return self.env.consts[key]
        return None

    def expr(self, e) -> tuple:
        """returns (lean_term, type)"""
        if isinstance(e, ast.Constant):
            if isinstance(e.value, bool):
                return ("true" if e.value else "false", "Bool")
            if isinstance(e.value, int):
                return (f"({e.value} : Int)", "Int")
            raise Untranslatable(f"constant {e.value!r}")
        if isinstance(e, (ast.Name, ast.Attribute)):
            d = _dotted(e)
            if d is None:
                raise Untranslatable("attribute base")
            if d in self.vars:
                return (lname(d), self.vars[d])
            c = self.const(d)
            if c is not None:
                return (f"({c} : Int)", "Int")
            raise Untranslatable(f"unknown name {d}")
        if isinstance(e, ast.BinOp):
            a, ta = self.expr(e.left)
            b, tb = self.expr(e.right)
            if ta != "Int" or tb != "Int":
                raise Untranslatable("non-int binop")
            op = type(e.op)
            if op is ast.Add:
                return (f"({a} + {b})", "Int")
            if op is ast.Sub:
                return (f"({a} - {b})", "Int")
            if op is ast.Mult:
                return (f"({a} * {b})", "Int")
            if op in (ast.FloorDiv, ast.Mod):
                fn = "pyFloorDiv" if op is ast.FloorDiv else "pyMod"
                if not (isinstance(e.right, ast.Constant) and isinstance(e.right.value, int) and e.right.value != 0) \
                        and not (self._is_nonzero_const(e.right)):
                    self.binds.append(("guard0", b))
                return (f"({fn} {a} {b})", "Int")
            if op is ast.LShift:
                return (f"(pyShl {a} {b})", "Int")
            if op is ast.RShift:
                return (f"(pyShr {a} {b})", "Int")
            if op is ast.BitAnd:
                return (f"(pyAnd {a} {b})", "Int")
            if op is ast.BitOr:
                return (f"(pyOr {a} {b})", "Int")
            if op is ast.BitXor:
                return (f"(pyXor {a} {b})", "Int")
            raise Untranslatable(f"binop {op.__name__}")
        if isinstance(e, ast.UnaryOp):
            a, ta = self.expr(e.operand)
            if isinstance(e.op, ast.USub) and ta == "Int":
                return (f"(- {a})", "Int")
            if isinstance(e.op, ast.UAdd) and ta == "Int":
                return (a, "Int")
            if isinstance(e.op, ast.Not):
                return (f"(!{self.as_bool(a, ta)})", "Bool")
            raise Untranslatable("unary op")
        if isinstance(e, ast.Compare):
            parts = []
            left, tl = self.expr(e.left)
            for op, rhs in zip(e.ops, e.comparators):
                r, tr = self.expr(rhs)
                if tl != tr:
                    raise Untranslatable("mixed compare")
                sym = {ast.Lt: "<", ast.LtE: "≤", ast.Gt: ">", ast.GtE: "≥", ast.Eq: "==", ast.NotEq: "!="}.get(type(op))
                if sym is None:
                    raise Untranslatable("compare op")
                if sym in ("==", "!="):
                    parts.append(f"({left} {sym} {r})")
                else:
                    parts.append(f"(decide ({left} {sym} {r}))")
                left, tl = r, tr
            return ("(" + " && ".join(parts) + ")", "Bool")
        if isinstance(e, ast.BoolOp):
            n0 = len(self.binds)
            vals = [self.as_bool(*self.expr(v)) for v in e.values]
            if len(self.binds) != n0:
                raise Untranslatable("call or division inside and/or (short-circuit)")
            # NOTE: Python short-circuits; sub-expressions here are total (guards are hoisted), so
            # evaluation order does not matter except for hoisted guards, which we refuse below.
            sym = " && " if isinstance(e.op, ast.And) else " || "
            return ("(" + sym.join(vals) + ")", "Bool")
        if isinstance(e, ast.IfExp):
            c = self.as_bool(*self.expr(e.test))
            a, ta = self.expr(e.body)
            b, tb = self.expr(e.orelse)
            if ta != tb:
                raise Untranslatable("ifexp types")
            return (f"(if {c} then {a} else {b})", ta)
        if isinstance(e, ast.Call):
            d = _dotted(e.func)
            if d in ("min", "max") and len(e.args) == 2 and not e.keywords:
                a, ta = self.expr(e.args[0])
                b, tb = self.expr(e.args[1])
                if ta == tb == "Int":
                    return (f"({d} {a} {b})", "Int")
            if d == "abs" and len(e.args) == 1:
                a, ta = self.expr(e.args[0])
                if ta == "Int":
                    return (f"(Int.ofNat (Int.natAbs {a}))", "Int")
            if d == "int" and len(e.args) == 1 and not e.keywords:
                a, ta = self.expr(e.args[0])
                if ta == "Int":
                    return (a, "Int")
                return (f"(if {a} then (1:Int) else 0)", "Int")
            if d == "bool" and len(e.args) == 1:
                return (self.as_bool(*self.expr(e.args[0])), "Bool")
            sig = None
            if d is not None:
                for key in (d, d.split(".", 1)[-1], d.rsplit(".", 1)[-1]):
                    if key in self.env.funs:
                        sig = self.env.funs[key]
                        break
            if sig is None:
                raise Untranslatable(f"call {d}")
            if e.keywords or len(e.args) != len(sig.params):
                raise Untranslatable(f"call arity {d}")
            args = []
            for a_node, (pn, pt) in zip(e.args, sig.params):
                a, ta = self.expr(a_node)
                if ta != pt:
                    raise Untranslatable("call arg type")
                args.append(a)
            self.tmp += 1
            v = f"r{self.tmp}"
            self.binds.append(("call", v, f"{sig.lean_name} " + " ".join(args)))
            return (v, sig.ret)
        raise Untranslatable(type(e).__name__)

    def _is_nonzero_const(self, node) -> bool:
        d = _dotted(node)
        if d is None or d in self.vars:
            return False
        c = self.const(d)
        return c is not None and c != 0

    @staticmethod
    def as_bool(term, ty):
        return term if ty == "Bool" else f"({term} != 0)"

    def with_binds(self, build):
        """Evaluate `build()` (which calls self.expr) and wrap its result with the hoisted binds."""
        saved = self.binds
        self.binds = []
        inner = build()
        binds, self.binds = self.binds, saved
        return binds, inner

    @staticmethod
    def wrap(binds, body: str) -> str:
        for b in reversed(binds):
            if b[0] == "guard0":
                body = f"(if {b[1]} == 0 then .error .other else {body})"
            else:
                body = f"(match {b[2]} with | .error e => .error e | .ok {b[1]} => {body})"
        return body

    # ---------------- statements -----------------
    def block(self, stmts, ret_ty) -> str:
        if not stmts:
            raise Untranslatable("fall off end (implicit None)")
        s, rest = stmts[0], stmts[1:]
        if isinstance(s, ast.Expr) and isinstance(s.value, ast.Constant) and isinstance(s.value.value, str):
            return self.block(rest, ret_ty)
        if isinstance(s, ast.Return):
            if s.value is None:
                raise Untranslatable("bare return")
            binds, (t, ty) = self.with_binds(lambda: self.expr(s.value))
            if ty != ret_ty:
                if ret_ty == "Bool":
                    t = self.as_bool(t, ty)
                else:
                    raise Untranslatable("return type")
            return self.wrap(binds, f"(.ok {t})")
        if isinstance(s, ast.Raise):
            name = None
            if isinstance(s.exc, ast.Call):
                name = _dotted(s.exc.func)
            elif s.exc is not None:
                name = _dotted(s.exc)
            if name is None:
                raise Untranslatable("raise form")
            kind = ".spsdk" if name.rsplit(".", 1)[-1].startswith("SPSDK") else ".other"
            return f"(.error {kind})"
        if isinstance(s, ast.If):
            binds, c = self.with_binds(lambda: self.as_bool(*self.expr(s.test)))
            saved = dict(self.vars)
            then_t = self.block(list(s.body) + ([] if _terminates(s.body) else rest), ret_ty)
            self.vars = dict(saved)
            else_body = list(s.orelse)
            else_t = self.block(else_body + ([] if (else_body and _terminates(else_body)) else rest), ret_ty)
            self.vars = saved
            return self.wrap(binds, f"(if {c} then {then_t} else {else_t})")
        if isinstance(s, (ast.Assign, ast.AugAssign, ast.AnnAssign)):
            if isinstance(s, ast.Assign):
                if len(s.targets) != 1 or not isinstance(s.targets[0], ast.Name):
                    raise Untranslatable("assign target")
                tgt, val = s.targets[0].id, s.value
            elif isinstance(s, ast.AnnAssign):
                if not isinstance(s.target, ast.Name) or s.value is None:
                    raise Untranslatable("annassign")
                tgt, val = s.target.id, s.value
            else:
                if not isinstance(s.target, ast.Name):
                    raise Untranslatable("augassign target")
                tgt = s.target.id
                val = ast.BinOp(left=ast.Name(id=tgt, ctx=ast.Load()), op=s.op, right=s.value)
            binds, (t, ty) = self.with_binds(lambda: self.expr(val))
            self.vars[tgt] = ty
            body = self.block(rest, ret_ty)
            return self.wrap(binds, f"(let {lname(tgt)} : {ty} := {t}; {body})")
        if isinstance(s, ast.Pass):
            return self.block(rest, ret_ty)
        raise Untranslatable(f"statement {type(s).__name__}")


def _terminates(stmts) -> bool:
    if not stmts:
        return False
    last = stmts[-1]
    if isinstance(last, (ast.Return, ast.Raise)):
        return True
    if isinstance(last, ast.If):
        return _terminates(last.body) and bool(last.orelse) and _terminates(last.orelse)
    return False


def translate_function(fn: ast.FunctionDef, lean_name: str, env: Env, param_types: Optional[dict] = None,
                       ret: Optional[str] = None, drop_params=("self", "cls")) -> tuple:
    """Return (lean_def_text, FunSig)."""
    params = []
    for a in fn.args.args:
        if a.arg in drop_params:
            continue
        ty = "Int"
        ann = a.annotation
        if param_types and a.arg in param_types:
            ty = param_types[a.arg]
        elif isinstance(ann, ast.Name) and ann.id == "bool":
            ty = "Bool"
        elif isinstance(ann, ast.Name) and ann.id == "int" or ann is None:
            ty = "Int"
        else:
            raise Untranslatable(f"parameter {a.arg} annotation")
        params.append((a.arg, ty))
    if fn.args.vararg or fn.args.kwarg or fn.args.kwonlyargs:
        raise Untranslatable("varargs")
    if ret is None:
        r = fn.returns
        if isinstance(r, ast.Name) and r.id == "bool":
            ret = "Bool"
        elif isinstance(r, ast.Name) and r.id == "int":
            ret = "Int"
        else:
            raise Untranslatable("return annotation")
    tr = _Tr(env, dict(params))
    body = tr.block(list(fn.body), ret)
    args = " ".join(f"({lname(n)} : {t})" for n, t in params)
    text = f"def {lean_name} {args} : PyRes {ret} :=\n  {body}\n"
    return text, FunSig(lean_name, params, ret)


def find_function(tree: ast.AST, qualname: str) -> ast.FunctionDef:
    parts = qualname.split(".")
    node = tree
    for p in parts:
        found = None
        for ch in ast.iter_child_nodes(node):
            if isinstance(ch, (ast.FunctionDef, ast.ClassDef)) and ch.name == p:
                found = ch
                break
        if found is None:
            raise Untranslatable(f"{qualname} not found")
        node = found
    if not isinstance(node, ast.FunctionDef):
        raise Untranslatable(f"{qualname} is not a function")
    return node


def module_int_consts(tree: ast.AST, prefix: str = "") -> dict:
    """Module- and class-level `NAME = <int expr>` constants (folded)."""
    out: dict = {}

    def fold(e):
        if isinstance(e, ast.Constant) and isinstance(e.value, int) and not isinstance(e.value, bool):
            return e.value
        if isinstance(e, ast.Name) and e.id in out:
            return out[e.id]
        if isinstance(e, ast.UnaryOp) and isinstance(e.op, ast.USub):
            v = fold(e.operand)
            return None if v is None else -v
        if isinstance(e, ast.BinOp):
            a, b = fold(e.left), fold(e.right)
            if a is None or b is None:
                return None
            try:
                return {ast.Add: a + b, ast.Sub: a - b, ast.Mult: a * b, ast.LShift: a << b if b >= 0 else None,
                        ast.RShift: a >> b if b >= 0 else None, ast.BitOr: a | b, ast.BitAnd: a & b,
                        ast.FloorDiv: a // b if b else None, ast.Pow: a ** b if 0 <= b < 1024 else None}.get(type(e.op))
            except Exception:
                return None
        return None

    def visit(body, pfx):
        for s in body:
            if isinstance(s, ast.Assign) and len(s.targets) == 1 and isinstance(s.targets[0], ast.Name):
                v = fold(s.value)
                if v is not None:
                    out[s.targets[0].id] = v
                    if pfx:
                        out[pfx + s.targets[0].id] = v
            elif isinstance(s, ast.AnnAssign) and isinstance(s.target, ast.Name) and s.value is not None:
                v = fold(s.value)
                if v is not None:
                    out[s.target.id] = v
                    if pfx:
                        out[pfx + s.target.id] = v
            elif isinstance(s, ast.ClassDef):
                visit(s.body, pfx + s.name + ".")

    visit(tree.body, prefix)
    return out
