"""Python-AST -> Lean 4 translator for small, straight-line integer functions.

Deliberately small subset (everything else raises `Untranslatable`, the caller
records it and the obligation falls back to hand model + correspondence):

  * parameters: integers (Lean `Int`) or booleans (annotation `bool`)
  * statements: docstring, `if/elif/else`, `return e`, `raise X(...)`,
    `x = e` / `x op= e` on local names
  * expressions: int/bool constants, names (parameters, locals, resolved
    module/class integer constants), `+ - * // %`, `<< >> & | ^` (modelled on
    non-negative operands, see Base/Py.lean), unary `-`/`+`/`not`, comparisons
    incl. chained ones, `and/or`, `min/max/abs/int/bool`, calls of other
    translated functions.

Python semantics kept: `//` and `%` are floor division (Int.fdiv/Int.fmod) and
raise ZeroDivisionError (-> PyErr.other) on a zero divisor; exceptions are mapped
to `PyErr.spsdk` when the raised class name starts with `SPSDK`, else `.other`.

The output is a plain nested `if … then … else …` term of type
`PyRes Int` / `PyRes Bool` (no `do` notation) so that `simp`/`omega`/`grind`
can work on it directly.

Extensions (phase 2, all additive: a function inside the subset above translates to the same text):

  * `while cond: body` over integer/boolean locals -> an auxiliary structurally recursive function
    `<name>_while<k> (consts…) : Nat → state… → PyRes (state tuple)` with an explicit FUEL argument;
    fuel exhausted = `.error .other` ("did not terminate within fuel").  The translated function (and every
    translated caller) gets a leading `(fuel : Nat)` parameter.  `break`/`continue`/`raise` inside the body are
    supported, `return` inside a loop and `while … else` are not.
  * `for x in range(<constants>)` / `for x in (<int constants>)` -> unrolled (at most 64 iterations, no break/continue).
  * `ceil(a / b)` / `floor(a / b)` (also `math.…`, usually inside `int(…)`) on integers: Python computes the quotient as
    an IEEE double.  For |a|, |b| < 2^53 both operands are exact, the quotient is correctly rounded and the result is
    the exact ceiling/floor (a quotient can only round *onto* an integer from the harmless side below 2^53).  The
    translation therefore carries the guard explicitly: outside `|a|,|b| < 2^53` the generated function is
    `.error .other` (= "no claim"), so a theorem quantifying over all integers cannot be proved about it.
  * parameters annotated `Optional[int]` (`int | None`) -> `Option Int`; truthiness `(x.getD 0 != 0)`; `x is None`,
    `x is not None`; `a or b` on int/Optional[int] operands with Python's value semantics; use of an Optional in
    arithmetic/comparison is allowed where a dominating test (`if x`, `x and …`, `x is not None`) narrows it,
    elsewhere a `None` operand is a TypeError (`.error .other` guard).
  * parameters of type 'Len' (bytes-like): only `len(p)` may be used; the Lean parameter is `p_len : Int`.
  * `assert isinstance(…)` and logging calls are skipped; other `assert c` -> AssertionError when `c` is false.
  * f-strings / exception messages are never translated (only the exception class matters).
"""
from __future__ import annotations

import ast
from dataclasses import dataclass, field
from typing import Optional


class Untranslatable(Exception):
    pass


@dataclass
class FunSig:
    lean_name: str
    params: list  # list of (name, 'Int'|'Bool')
    ret: str  # 'Int' | 'Bool'
    fuel: bool = False  # True: the Lean function takes a leading `(fuel : Nat)` argument (contains a while loop)


@dataclass
class Env:
    consts: dict = field(default_factory=dict)  # dotted python name -> int
    funs: dict = field(default_factory=dict)  # dotted python callee name -> FunSig


_RESERVED = {"end", "at", "from", "fun", "do", "then", "else", "if", "let", "in", "have", "show",
             "match", "with", "def", "theorem", "open", "section", "namespace", "local", "type",
             "start", "set", "by", "where", "instance", "class", "structure", "mut", "for"}


def lname(n: str) -> str:
    n = n.lstrip("_") or "u"
    return n + "_" if n in _RESERVED else n


def _dotted(node) -> Optional[str]:
    if isinstance(node, ast.Name):
        return node.id
    if isinstance(node, ast.Attribute):
        b = _dotted(node.value)
        return None if b is None else b + "." + node.attr
    return None


_LEAN_TY = {"Int": "Int", "Bool": "Bool", "OptInt": "Option Int", "Len": "Int"}
_F53 = 9007199254740992  # 2^53: integers below are exact IEEE doubles
_MAX_UNROLL = 64


def _is_none(node) -> bool:
    return isinstance(node, ast.Constant) and node.value is None


class _Tr:
    def __init__(self, env: Env, params: dict, lean_name: str = "f"):
        self.env = env
        self.vars = dict(params)  # python name -> type
        self.binds = []  # pending monadic binds for the expression being built
        self.tmp = 0
        # --- phase-2 state
        self.lean_name = lean_name
        self.aux = []  # texts of auxiliary (loop) definitions, emitted before the function
        self.nloops = 0
        self.uses_fuel = False
        self.narrowed = set()  # Optional names known to be not-None (and truthy tests passed) at this point
        self.fall = None  # continuation at the end of a loop body (None = fall off the function end)
        self.brk = None  # continuation of `break`
        self.in_loop = False

    # ---------------- expressions -----------------
    def const(self, name: str):
        for key in (name, name.split(".", 1)[-1], name.rsplit(".", 1)[-1]):
            if key in self.env.consts:
                return self.env.consts[key]
        return None

    def as_int(self, term, ty, node=None):
        """An operand that must be an integer; an Optional is allowed when narrowed, else guarded (TypeError)."""
        if ty == "Int":
            return term
        if ty == "OptInt":
            if not (isinstance(node, ast.Name) and node.id in self.narrowed):
                self.binds.append(("guardNone", term))
            return f"(Option.getD {term} 0)"
        raise Untranslatable("non-int operand")

    def const_int(self, node):
        """Statically known integer value of an expression node, or None."""
        if isinstance(node, ast.Constant) and isinstance(node.value, int) and not isinstance(node.value, bool):
            return node.value
        if isinstance(node, ast.UnaryOp) and isinstance(node.op, ast.USub):
            v = self.const_int(node.operand)
            return None if v is None else -v
        d = _dotted(node)
        if d is not None and d not in self.vars:
            return self.const(d)
        return None

    def expr(self, e) -> tuple:
        """returns (lean_term, type)"""
        if isinstance(e, ast.Constant):
            if isinstance(e.value, bool):
                return ("true" if e.value else "false", "Bool")
            if isinstance(e.value, int):
                return (f"({e.value} : Int)", "Int")
            if e.value is None:
                return ("(none : Option Int)", "OptInt")
            raise Untranslatable(f"constant {e.value!r}")
        if isinstance(e, (ast.Name, ast.Attribute)):
            d = _dotted(e)
            if d is None:
                raise Untranslatable("attribute base")
            if d in self.vars:
                if self.vars[d] == "Len":
                    raise Untranslatable(f"bytes-like parameter {d} used other than through len()")
                return (lname(d), self.vars[d])
            c = self.const(d)
            if c is not None:
                return (f"({c} : Int)", "Int")
            raise Untranslatable(f"unknown name {d}")
        if isinstance(e, ast.BinOp):
            a, ta = self.expr(e.left)
            b, tb = self.expr(e.right)
            if ta == "OptInt" or tb == "OptInt":
                a, ta = self.as_int(a, ta, e.left), "Int"
                b, tb = self.as_int(b, tb, e.right), "Int"
            if ta != "Int" or tb != "Int":
                raise Untranslatable("non-int binop")
            op = type(e.op)
            if op is ast.Add:
                return (f"({a} + {b})", "Int")
            if op is ast.Sub:
                return (f"({a} - {b})", "Int")
            if op is ast.Mult:
                return (f"({a} * {b})", "Int")
            if op in (ast.FloorDiv, ast.Mod):
                fn = "pyFloorDiv" if op is ast.FloorDiv else "pyMod"
                if not (isinstance(e.right, ast.Constant) and isinstance(e.right.value, int) and e.right.value != 0) \
                        and not (self._is_nonzero_const(e.right)):
                    self.binds.append(("guard0", b))
                return (f"({fn} {a} {b})", "Int")
            if op is ast.LShift:
                return (f"(pyShl {a} {b})", "Int")
            if op is ast.RShift:
                return (f"(pyShr {a} {b})", "Int")
            if op is ast.BitAnd:
                return (f"(pyAnd {a} {b})", "Int")
            if op is ast.BitOr:
                return (f"(pyOr {a} {b})", "Int")
            if op is ast.BitXor:
                return (f"(pyXor {a} {b})", "Int")
            raise Untranslatable(f"binop {op.__name__}")
        if isinstance(e, ast.UnaryOp):
            if isinstance(e.op, ast.Not):
                return (f"(!{self.test(e.operand)})", "Bool")
            a, ta = self.expr(e.operand)
            if ta == "OptInt":
                a, ta = self.as_int(a, ta, e.operand), "Int"
            if isinstance(e.op, ast.USub) and ta == "Int":
                return (f"(- {a})", "Int")
            if isinstance(e.op, ast.UAdd) and ta == "Int":
                return (a, "Int")
            raise Untranslatable("unary op")
        if isinstance(e, ast.Compare):
            # `x is None` / `x is not None` (also ==/!= None) on an Optional
            if len(e.ops) == 1 and _is_none(e.comparators[0]) and isinstance(e.ops[0], (ast.Is, ast.IsNot, ast.Eq, ast.NotEq)):
                a, ta = self.expr(e.left)
                neg = isinstance(e.ops[0], (ast.IsNot, ast.NotEq))
                if ta == "OptInt":
                    return (f"(Option.isSome {a})" if neg else f"(Option.isNone {a})", "Bool")
                return ("true" if neg else "false", "Bool")
            parts = []
            left, tl = self.expr(e.left)
            lnode = e.left
            for op, rhs in zip(e.ops, e.comparators):
                r, tr = self.expr(rhs)
                if tl == "OptInt" or tr == "OptInt":
                    if tl == "OptInt":
                        left, tl = self.as_int(left, tl, lnode), "Int"
                    if tr == "OptInt":
                        r, tr = self.as_int(r, tr, rhs), "Int"
                if tl != tr:
                    raise Untranslatable("mixed compare")
                sym = {ast.Lt: "<", ast.LtE: "≤", ast.Gt: ">", ast.GtE: "≥", ast.Eq: "==", ast.NotEq: "!="}.get(type(op))
                if sym is None:
                    raise Untranslatable("compare op")
                if sym in ("==", "!="):
                    parts.append(f"({left} {sym} {r})")
                else:
                    parts.append(f"(decide ({left} {sym} {r}))")
                left, tl, lnode = r, tr, rhs
            return ("(" + " && ".join(parts) + ")", "Bool")
        if isinstance(e, ast.BoolOp):
            n0 = len(self.binds)
            saved_narrow = set(self.narrowed)
            pairs = []
            for v in e.values:
                pairs.append(self.expr(v))
                # short-circuit narrowing: later operands are only evaluated when the earlier ones are truthy (and) / falsy (or)
                self.narrowed |= (_pos_names(v) if isinstance(e.op, ast.And) else _neg_names(v))
            self.narrowed = saved_narrow
            if len(self.binds) != n0:
                self.binds = self.binds[:n0]
                raise Untranslatable("call or division inside and/or (short-circuit)")
            # NOTE: Python short-circuits; sub-expressions here are total (guards are hoisted), so
            # evaluation order does not matter except for hoisted guards, which we refuse above.
            tys = [t for _, t in pairs]
            if isinstance(e.op, ast.Or) and "OptInt" in tys and all(t in ("Int", "OptInt") for t in tys):
                # Python value semantics: the first truthy operand, else the last one
                term, ty = pairs[-1]
                for a, ta in reversed(pairs[:-1]):
                    if ta == ty:
                        conv = a
                    elif ty == "Int":
                        conv = f"(Option.getD {a} 0)"
                    else:
                        conv = f"(some {a})"
                    term = f"(if {self.as_bool(a, ta)} then {conv} else {term})"
                return (term, ty)
            vals = [self.as_bool(a, ta) for a, ta in pairs]
            sym = " && " if isinstance(e.op, ast.And) else " || "
            return ("(" + sym.join(vals) + ")", "Bool")
        if isinstance(e, ast.IfExp):
            c = self.test(e.test)
            a, ta = self.expr(e.body)
            b, tb = self.expr(e.orelse)
            if ta != tb:
                raise Untranslatable("ifexp types")
            return (f"(if {c} then {a} else {b})", ta)
        if isinstance(e, ast.Call):
            d = _dotted(e.func)
            if d in ("min", "max") and len(e.args) == 2 and not e.keywords:
                a, ta = self.expr(e.args[0])
                b, tb = self.expr(e.args[1])
                if ta == tb == "Int":
                    return (f"({d} {a} {b})", "Int")
            if d == "abs" and len(e.args) == 1:
                a, ta = self.expr(e.args[0])
                if ta == "Int":
                    return (f"(Int.ofNat (Int.natAbs {a}))", "Int")
            if d in ("ceil", "math.ceil", "floor", "math.floor") and len(e.args) == 1 and not e.keywords \
                    and isinstance(e.args[0], ast.BinOp) and isinstance(e.args[0].op, ast.Div):
                a, ta = self.expr(e.args[0].left)
                b, tb = self.expr(e.args[0].right)
                a, b = self.as_int(a, ta, e.args[0].left), self.as_int(b, tb, e.args[0].right)
                cb = self.const_int(e.args[0].right)
                if cb is None or cb == 0:
                    self.binds.append(("guard0", b))
                # float true division: exact only while both operands are exact doubles (see module docstring)
                self.binds.append(("guardF", a, None if (cb is not None and abs(cb) < _F53) else b))
                if d.endswith("ceil"):
                    return (f"(- (pyFloorDiv (- {a}) {b}))", "Int")
                return (f"(pyFloorDiv {a} {b})", "Int")
            if d == "len" and len(e.args) == 1 and not e.keywords and isinstance(e.args[0], ast.Name) \
                    and self.vars.get(e.args[0].id) == "Len":
                return (lname(e.args[0].id) + "_len", "Int")
            if d == "int" and len(e.args) == 1 and not e.keywords:
                a, ta = self.expr(e.args[0])
                if ta == "Int":
                    return (a, "Int")
                if ta == "OptInt":
                    raise Untranslatable("int() of an Optional")
                return (f"(if {a} then (1:Int) else 0)", "Int")
            if d == "bool" and len(e.args) == 1:
                return (self.as_bool(*self.expr(e.args[0])), "Bool")
            sig = None
            if d is not None:
                for key in (d, d.split(".", 1)[-1], d.rsplit(".", 1)[-1]):
                    if key in self.env.funs:
                        sig = self.env.funs[key]
                        break
            if sig is None:
                raise Untranslatable(f"call {d}")
            if e.keywords or len(e.args) != len(sig.params):
                raise Untranslatable(f"call arity {d}")
            args = []
            for a_node, (pn, pt) in zip(e.args, sig.params):
                a, ta = self.expr(a_node)
                if ta != pt:
                    if pt == "OptInt" and ta == "Int":
                        a = f"(some {a})"
                    elif pt == "Int" and ta == "OptInt":
                        a = self.as_int(a, ta, a_node)
                    else:
                        raise Untranslatable("call arg type")
                args.append(a)
            if getattr(sig, "fuel", False):
                self.uses_fuel = True
                args.insert(0, "fuel")
            self.tmp += 1
            v = f"r{self.tmp}"
            self.binds.append(("call", v, f"{sig.lean_name} " + " ".join(args)))
            return (v, sig.ret)
        raise Untranslatable(type(e).__name__)

    def test(self, e) -> str:
        """A condition (boolean context)."""
        return self.as_bool(*self.expr(e))

    def _is_nonzero_const(self, node) -> bool:
        d = _dotted(node)
        if d is None or d in self.vars:
            return False
        c = self.const(d)
        return c is not None and c != 0

    @staticmethod
    def as_bool(term, ty):
        if ty == "Bool":
            return term
        if ty == "OptInt":
            return f"((Option.getD {term} 0) != 0)"
        return f"({term} != 0)"

    def with_binds(self, build):
        """Evaluate `build()` (which calls self.expr) and wrap its result with the hoisted binds."""
        saved = self.binds
        self.binds = []
        try:
            inner = build()
            binds = self.binds
        finally:
            self.binds = saved
        return binds, inner

    @staticmethod
    def wrap(binds, body: str) -> str:
        for b in reversed(binds):
            if b[0] == "guard0":
                body = f"(if {b[1]} == 0 then .error .other else {body})"
            elif b[0] == "guardNone":
                body = f"(if (Option.isNone {b[1]}) then .error .other else {body})"
            elif b[0] == "guardF":
                conds = [f"decide ((Int.natAbs {x}) < {_F53})" for x in b[1:] if x is not None]
                body = f"(if ({' && '.join(conds)}) then {body} else .error .other)"
            else:
                body = f"(match {b[2]} with | .error e => .error e | .ok {b[1]} => {body})"
        return body

    # ---------------- statements -----------------
    def block(self, stmts, ret_ty) -> str:
        if not stmts:
            if self.fall is not None:
                return self.fall()
            raise Untranslatable("fall off end (implicit None)")
        s, rest = stmts[0], stmts[1:]
        if isinstance(s, ast.Expr) and isinstance(s.value, ast.Constant) and isinstance(s.value.value, str):
            return self.block(rest, ret_ty)
        if isinstance(s, ast.Expr) and isinstance(s.value, ast.Call):
            d = _dotted(s.value.func) or ""
            if d.split(".")[0] in ("logger", "logging", "warnings") or d == "print":
                return self.block(rest, ret_ty)  # no effect on the result
        if isinstance(s, ast.Return):
            if self.in_loop:
                raise Untranslatable("return inside a loop")
            if s.value is None:
                raise Untranslatable("bare return")
            binds, (t, ty) = self.with_binds(lambda: self._ret_value(s.value, ret_ty))
            if ty != ret_ty:
                if ret_ty == "Bool":
                    t = self.as_bool(t, ty)
                else:
                    raise Untranslatable("return type")
            return self.wrap(binds, f"(.ok {t})")
        if isinstance(s, ast.Raise):
            name = None
            if isinstance(s.exc, ast.Call):
                name = _dotted(s.exc.func)
            elif s.exc is not None:
                name = _dotted(s.exc)
            if name is None:
                raise Untranslatable("raise form")
            kind = ".spsdk" if name.rsplit(".", 1)[-1].startswith("SPSDK") else ".other"
            return f"(.error {kind})"
        if isinstance(s, ast.If):
            binds, c = self.with_binds(lambda: self.test(s.test))
            saved, saved_n = dict(self.vars), set(self.narrowed)
            self.narrowed = saved_n | _pos_names(s.test)
            then_t = self.block(list(s.body) + ([] if _terminates(s.body) else rest), ret_ty)
            self.vars, self.narrowed = dict(saved), saved_n | _neg_names(s.test)
            else_body = list(s.orelse)
            else_t = self.block(else_body + ([] if (else_body and _terminates(else_body)) else rest), ret_ty)
            self.vars, self.narrowed = saved, saved_n
            return self.wrap(binds, f"(if {c} then {then_t} else {else_t})")
        if isinstance(s, (ast.Assign, ast.AugAssign, ast.AnnAssign)):
            if isinstance(s, ast.Assign):
                if len(s.targets) != 1 or not isinstance(s.targets[0], ast.Name):
                    raise Untranslatable("assign target")
                tgt, val = s.targets[0].id, s.value
            elif isinstance(s, ast.AnnAssign):
                if not isinstance(s.target, ast.Name) or s.value is None:
                    raise Untranslatable("annassign")
                tgt, val = s.target.id, s.value
            else:
                if not isinstance(s.target, ast.Name):
                    raise Untranslatable("augassign target")
                tgt = s.target.id
                val = ast.BinOp(left=ast.Name(id=tgt, ctx=ast.Load()), op=s.op, right=s.value)
            if tgt == "fuel":
                raise Untranslatable("local named fuel")
            binds, (t, ty) = self.with_binds(lambda: self.expr(val))
            self.vars[tgt] = ty
            self.narrowed.discard(tgt)
            body = self.block(rest, ret_ty)
            return self.wrap(binds, f"(let {lname(tgt)} : {_LEAN_TY.get(ty, ty)} := {t}; {body})")
        if isinstance(s, ast.Pass):
            return self.block(rest, ret_ty)
        if isinstance(s, ast.Assert):
            t = s.test
            if isinstance(t, ast.Call) and _dotted(t.func) == "isinstance":
                return self.block(rest, ret_ty)  # static typing fact
            binds, c = self.with_binds(lambda: self.test(t))
            saved_n = set(self.narrowed)
            self.narrowed = saved_n | _pos_names(t)
            body = self.block(rest, ret_ty)
            self.narrowed = saved_n
            return self.wrap(binds, f"(if {c} then {body} else .error .other)")
        if isinstance(s, ast.For):
            return self.block(self._unroll(s) + rest, ret_ty)
        if isinstance(s, ast.While):
            return self._while(s, rest, ret_ty)
        if isinstance(s, ast.Break) and self.brk is not None:
            return self.brk()
        if isinstance(s, ast.Continue) and self.brk is not None and self.fall is not None:
            return self.fall()
        raise Untranslatable(f"statement {type(s).__name__}")

    def _ret_value(self, node, ret_ty):
        t, ty = self.expr(node)
        if ty == "OptInt" and ret_ty == "Int":
            return (self.as_int(t, ty, node), "Int")
        return (t, ty)

    # ---------------- loops -----------------
    def _unroll(self, s: ast.For) -> list:
        """`for x in range(<consts>)` / `for x in (<consts>)` -> `x = c0; body; x = c1; body; …`."""
        if s.orelse or not isinstance(s.target, ast.Name):
            raise Untranslatable("for form")
        for n in ast.walk(ast.Module(body=list(s.body), type_ignores=[])):
            if isinstance(n, (ast.Break, ast.Continue)):
                raise Untranslatable("break/continue inside a for loop")
        it = s.iter
        values = None
        if isinstance(it, ast.Call) and _dotted(it.func) == "range" and not it.keywords and 1 <= len(it.args) <= 3:
            cs = [self.const_int(a) for a in it.args]
            if all(c is not None for c in cs) and (len(cs) < 3 or cs[2] != 0):
                values = list(range(*cs)) if len(range(*cs)) <= _MAX_UNROLL else None
        elif isinstance(it, (ast.Tuple, ast.List)):
            cs = [self.const_int(a) for a in it.elts]
            if all(c is not None for c in cs) and len(cs) <= _MAX_UNROLL:
                values = cs
        if values is None:
            raise Untranslatable("for loop over a non-constant (or too long) range")
        out = []
        if len(values) * max(1, len(s.body)) > 4 * _MAX_UNROLL:
            raise Untranslatable("unrolled loop too large")
        for v in values:
            out.append(ast.Assign(targets=[ast.Name(id=s.target.id, ctx=ast.Store())], value=ast.Constant(value=v)))
            out.extend(s.body)
        return out

    def _while(self, s: ast.While, rest, ret_ty) -> str:
        if s.orelse:
            raise Untranslatable("while … else")
        if "fuel" in self.vars:
            raise Untranslatable("variable named fuel")
        mod = ast.Module(body=list(s.body), type_ignores=[])
        assigned = []
        for n in ast.walk(mod):
            if isinstance(n, ast.Name) and isinstance(n.ctx, ast.Store) and n.id not in assigned:
                assigned.append(n.id)
        used = {n.id for n in ast.walk(mod) if isinstance(n, ast.Name)} | {n.id for n in ast.walk(s.test) if isinstance(n, ast.Name)}
        state = [v for v in self.vars if v in assigned]
        consts = [v for v in self.vars if v in used and v not in assigned]
        if not state:
            raise Untranslatable("while loop without integer state")
        for v in state + consts:
            if self.vars[v] not in ("Int", "Bool", "OptInt"):
                raise Untranslatable(f"loop variable {v} type")
        self.nloops += 1
        self.uses_fuel = True
        aux = f"{self.lean_name}_while{self.nloops}"
        st_types = {v: self.vars[v] for v in state}
        call = lambda: self._loop_call(aux, consts, state, st_types)  # noqa: E731
        tup = lname(state[0]) if len(state) == 1 else "(" + ", ".join(lname(v) for v in state) + ")"
        done = lambda: self._loop_exit(state, st_types, tup)  # noqa: E731
        # --- the auxiliary function
        saved = (dict(self.vars), set(self.narrowed), self.fall, self.brk, self.in_loop)
        self.vars = {v: saved[0][v] for v in consts + state}
        self.narrowed = saved[1] - set(state)
        self.fall, self.brk, self.in_loop = call, done, True
        try:
            binds, c = self.with_binds(lambda: self.test(s.test))
            n_in = set(self.narrowed)
            self.narrowed = n_in | (_pos_names(s.test) - set(state))
            body = self.block(list(s.body), ret_ty)
            self.narrowed = n_in
            step = self.wrap(binds, f"(if {c} then {body} else {done()})")
        finally:
            self.vars, self.narrowed, self.fall, self.brk, self.in_loop = saved
        cargs = "".join(f" ({lname(v)} : {_LEAN_TY[self.vars[v]]})" for v in consts)
        sty = " → ".join(_LEAN_TY[st_types[v]] for v in state)
        rty = _LEAN_TY[st_types[state[0]]] if len(state) == 1 else "(" + " × ".join(_LEAN_TY[st_types[v]] for v in state) + ")"
        self.aux.append(
            f"def {aux}{cargs} : Nat → {sty} → PyRes {rty}\n"
            f"  | 0, {', '.join('_' for _ in state)} => .error .other\n"
            f"  | fuel + 1, {', '.join(lname(v) for v in state)} =>\n    {step}\n")
        # --- the call site
        self.narrowed -= set(state)
        after = self.block(rest, ret_ty)
        cc = " ".join(lname(v) for v in consts)
        return (f"(match {aux}{' ' + cc if cc else ''} fuel {' '.join(lname(v) for v in state)} with "
                f"| .error e => .error e | .ok {tup} => {after})")

    def _loop_call(self, aux, consts, state, st_types) -> str:
        for v in state:
            if self.vars.get(v) != st_types[v]:
                raise Untranslatable(f"loop variable {v} changes type")
        cc = " ".join(lname(v) for v in consts)
        return f"({aux}{' ' + cc if cc else ''} fuel {' '.join(lname(v) for v in state)})"

    def _loop_exit(self, state, st_types, tup) -> str:
        for v in state:
            if self.vars.get(v) != st_types[v]:
                raise Untranslatable(f"loop variable {v} changes type")
        return f"(.ok {tup})"


def _pos_names(test) -> set:
    """Optional names known to be not-None (truthy / `is not None`) when `test` is true."""
    if isinstance(test, ast.Name):
        return {test.id}
    if isinstance(test, ast.Compare) and len(test.ops) == 1 and isinstance(test.left, ast.Name) and _is_none(test.comparators[0]):
        return {test.left.id} if isinstance(test.ops[0], (ast.IsNot, ast.NotEq)) else set()
    if isinstance(test, ast.BoolOp) and isinstance(test.op, ast.And):
        return set().union(*[_pos_names(v) for v in test.values])
    if isinstance(test, ast.UnaryOp) and isinstance(test.op, ast.Not):
        return _neg_names(test.operand)
    return set()


def _neg_names(test) -> set:
    """Optional names known to be not-None when `test` is false."""
    if isinstance(test, ast.Compare) and len(test.ops) == 1 and isinstance(test.left, ast.Name) and _is_none(test.comparators[0]):
        return {test.left.id} if isinstance(test.ops[0], (ast.Is, ast.Eq)) else set()
    if isinstance(test, ast.BoolOp) and isinstance(test.op, ast.Or):
        return set().union(*[_neg_names(v) for v in test.values])
    if isinstance(test, ast.UnaryOp) and isinstance(test.op, ast.Not):
        return _pos_names(test.operand)
    return set()


def _terminates(stmts) -> bool:
    if not stmts:
        return False
    last = stmts[-1]
    if isinstance(last, (ast.Return, ast.Raise)):
        return True
    if isinstance(last, ast.If):
        return _terminates(last.body) and bool(last.orelse) and _terminates(last.orelse)
    return False


def _param_type(ann) -> Optional[str]:
    if ann is None or (isinstance(ann, ast.Name) and ann.id == "int"):
        return "Int"
    if isinstance(ann, ast.Name) and ann.id == "bool":
        return "Bool"
    # Optional[int] / int | None
    if isinstance(ann, ast.Subscript) and _dotted(ann.value) in ("Optional", "typing.Optional") \
            and isinstance(ann.slice, ast.Name) and ann.slice.id == "int":
        return "OptInt"
    if isinstance(ann, ast.BinOp) and isinstance(ann.op, ast.BitOr):
        l, r = ann.left, ann.right
        if isinstance(l, ast.Name) and l.id == "int" and _is_none(r) or isinstance(r, ast.Name) and r.id == "int" and _is_none(l):
            return "OptInt"
    return None


def translate_function(fn: ast.FunctionDef, lean_name: str, env: Env, param_types: Optional[dict] = None,
                       ret: Optional[str] = None, drop_params=("self", "cls")) -> tuple:
    """Return (lean_def_text, FunSig)."""
    params = []
    for a in fn.args.args:
        if a.arg in drop_params:
            continue
        if param_types and a.arg in param_types:
            ty = param_types[a.arg]
        else:
            ty = _param_type(a.annotation)
            if ty is None:
                raise Untranslatable(f"parameter {a.arg} annotation")
        params.append((a.arg, ty))
    if fn.args.vararg or fn.args.kwarg or fn.args.kwonlyargs:
        raise Untranslatable("varargs")
    if ret is None:
        r = fn.returns
        if isinstance(r, ast.Name) and r.id == "bool":
            ret = "Bool"
        elif isinstance(r, ast.Name) and r.id == "int":
            ret = "Int"
        else:
            raise Untranslatable("return annotation")
    tr = _Tr(env, dict(params), lean_name)
    body = tr.block(list(fn.body), ret)
    if tr.uses_fuel and any(n == "fuel" for n, _ in params):
        raise Untranslatable("parameter named fuel")
    args = " ".join(f"({lname(n) + ('_len' if t == 'Len' else '')} : {_LEAN_TY.get(t, t)})" for n, t in params)
    if tr.uses_fuel:
        args = "(fuel : Nat)" + (" " + args if args else "")
    text = "".join(a + "\n" for a in tr.aux) + f"def {lean_name} {args} : PyRes {ret} :=\n  {body}\n"
    if tr.aux and len(text) > 200000:  # non-terminating `if`s duplicate their continuation (exponential in unrolled loops)
        raise Untranslatable("translation too large")
    return text, FunSig(lean_name, params, ret, tr.uses_fuel)


def find_function(tree: ast.AST, qualname: str) -> ast.FunctionDef:
    parts = qualname.split(".")
    node = tree
    for p in parts:
        found = None
        for ch in ast.iter_child_nodes(node):
            if isinstance(ch, (ast.FunctionDef, ast.ClassDef)) and ch.name == p:
                found = ch
                break
        if found is None:
            raise Untranslatable(f"{qualname} not found")
        node = found
    if not isinstance(node, ast.FunctionDef):
        raise Untranslatable(f"{qualname} is not a function")
    return node


def module_int_consts(tree: ast.AST, prefix: str = "") -> dict:
    """Module- and class-level `NAME = <int expr>` constants (folded)."""
    out: dict = {}

    def fold(e):
        if isinstance(e, ast.Constant) and isinstance(e.value, int) and not isinstance(e.value, bool):
            return e.value
        if isinstance(e, ast.Name) and e.id in out:
            return out[e.id]
        if isinstance(e, ast.UnaryOp) and isinstance(e.op, ast.USub):
            v = fold(e.operand)
            return None if v is None else -v
        if isinstance(e, ast.BinOp):
            a, b = fold(e.left), fold(e.right)
            if a is None or b is None:
                return None
            try:
                return {ast.Add: a + b, ast.Sub: a - b, ast.Mult: a * b, ast.LShift: a << b if b >= 0 else None,
                        ast.RShift: a >> b if b >= 0 else None, ast.BitOr: a | b, ast.BitAnd: a & b,
                        ast.FloorDiv: a // b if b else None, ast.Pow: a ** b if 0 <= b < 1024 else None}.get(type(e.op))
            except Exception:
                return None
        return None

    def visit(body, pfx):
        for s in body:
            if isinstance(s, ast.Assign) and len(s.targets) == 1 and isinstance(s.targets[0], ast.Name):
                v = fold(s.value)
                if v is not None:
                    out[s.targets[0].id] = v
                    if pfx:
                        out[pfx + s.targets[0].id] = v
            elif isinstance(s, ast.AnnAssign) and isinstance(s.target, ast.Name) and s.value is not None:
                v = fold(s.value)
                if v is not None:
                    out[s.target.id] = v
                    if pfx:
                        out[pfx + s.target.id] = v
            elif isinstance(s, ast.ClassDef):
                visit(s.body, pfx + s.name + ".")

    visit(tree.body, prefix)
    return out
