"""C17 generator: `Generated/SecretSites.lean` - every place in /repo/spsdk where a random value is drawn,
classified by WHEN the drawing expression is evaluated (pure static `ast` reading, never imports spsdk).

  perCall       the call sits in a function / method / lambda body: evaluated every time that code runs
  atDefinition  the call sits in a default-argument (or decorator) expression of a module-/class-level `def`:
                evaluated once, when the `def` statement is executed
  atImport      the call sits in a module-level or class-body statement (e.g. a dict value of a class attribute)

A *draw* is a call of an OS-entropy primitive (`secrets.*`, `os.urandom`, `random.*`) or of one of the wrappers that
spsdk/crypto/rng.py defines around them (discovered from that file, not hard-coded).  Calls of spsdk callables whose
body (transitively, through statically resolvable calls) draws are followed when they occur in an early-evaluated
position: `def f(p=SBV2xAdvancedParams())` yields one early site per draw reachable from the constructor
(`loc` = the draw, `via` = the default-argument expression).

Also emitted: `rngWrappers` - for each function of rng.py the primitive it wraps and whether every `return`
returns a fresh draw (a cache / constant in rng.py would defeat every per-call site at once).
"""
from __future__ import annotations

import ast
from pathlib import Path

from extract import REPO, emit

PKG = "spsdk"
RNG_FILE = "spsdk/crypto/rng.py"

# external entropy primitives: module -> attribute names ("*" = every callable attribute)
EXTERNAL = {
    "secrets": {"token_bytes", "token_hex", "token_urlsafe", "randbelow", "randbits", "choice", "SystemRandom"},
    "os": {"urandom", "getrandom"},
    "random": {"*"},
    "numpy.random": {"*"},
    "Crypto.Random": {"*"},
}

KIND_BY_PATH = [  # first match wins
    ("spsdk/crypto/rng.py", "rng"),
    ("spsdk/sbfile/sb2/", "sb2"),
    ("spsdk/sbfile/sb1/", "sb1"),
    ("spsdk/sbfile/sb31/", "sb3"),
    ("spsdk/sbfile/sbx/", "sb3"),
    ("spsdk/image/mbi/", "mbi"),
    ("spsdk/utils/crypto/otfad.py", "otfad"),
    ("spsdk/utils/crypto/iee.py", "iee"),
    ("spsdk/image/bee.py", "bee"),
    ("spsdk/image/hab/", "hab"),
    ("spsdk/image/images.py", "hab"),
    ("spsdk/image/", "image"),
    ("spsdk/utils/misc.py", "filler"),
    ("spsdk/crypto/", "keys"),
    ("spsdk/tp/", "tp"),
    ("spsdk/dice/", "dice"),
    ("spsdk/apps/nxpdice.py", "dice"),
]
KINDS = ["rng", "sb1", "sb2", "sb3", "mbi", "otfad", "iee", "bee", "hab", "image", "filler", "keys", "tp", "dice", "other"]


def kind_of(rel: str) -> str:
    for pre, k in KIND_BY_PATH:
        if rel.startswith(pre):
            return k
    return "other"


# ------------------------------------------------------------------------------------------------ module index
class Mod:
    def __init__(self, rel: str, tree: ast.Module):
        self.rel = rel
        parts = rel[:-3].split("/")
        self.is_pkg = parts[-1] == "__init__"
        if self.is_pkg:
            parts = parts[:-1]
        self.name = ".".join(parts)
        self.tree = tree
        self.imports: dict = {}  # local name -> ("mod", dotted) | ("obj", dotted_module, attr)
        self.funcs: dict = {}  # qualname -> FunctionDef (module level functions and methods of module level classes, nested classes)
        self.classes: dict = {}  # qualname -> ClassDef

    def package(self) -> str:
        return self.name if self.is_pkg else self.name.rsplit(".", 1)[0] if "." in self.name else ""


def _index_defs(mod: Mod, body, prefix=""):
    for st in body:
        if isinstance(st, (ast.FunctionDef, ast.AsyncFunctionDef)):
            mod.funcs.setdefault(prefix + st.name, st)
        elif isinstance(st, ast.ClassDef):
            mod.classes.setdefault(prefix + st.name, st)
            _index_defs(mod, st.body, prefix + st.name + ".")
        elif isinstance(st, (ast.If, ast.Try, ast.With)):
            for sub in _sub_bodies(st):
                _index_defs(mod, sub, prefix)


def _sub_bodies(st):
    out = []
    for f in ("body", "orelse", "finalbody"):
        v = getattr(st, f, None)
        if isinstance(v, list):
            out.append(v)
    for h in getattr(st, "handlers", []) or []:
        out.append(h.body)
    return out


def _index_imports(mod: Mod):
    for node in ast.walk(mod.tree):
        if isinstance(node, ast.Import):
            for a in node.names:
                if a.asname:
                    mod.imports[a.asname] = ("mod", a.name)
                else:
                    top = a.name.split(".")[0]
                    mod.imports.setdefault(top, ("mod", top))
        elif isinstance(node, ast.ImportFrom):
            base = node.module or ""
            if node.level:
                pk = mod.package().split(".") if mod.package() else []
                if node.level > 1:
                    pk = pk[: len(pk) - (node.level - 1)]
                base = ".".join(pk + ([node.module] if node.module else []))
            for a in node.names:
                if a.name == "*":
                    continue
                mod.imports[a.asname or a.name] = ("obj", base, a.name)


class World:
    def __init__(self):
        self.mods: dict = {}  # dotted name -> Mod
        self.errors: list = []
        root = REPO / PKG
        for p in sorted(root.rglob("*.py")):
            rel = p.relative_to(REPO).as_posix()
            try:
                tree = ast.parse(p.read_text(encoding="utf-8"))
            except (SyntaxError, UnicodeDecodeError, OSError) as exc:
                self.errors.append((rel, f"{type(exc).__name__}"))
                continue
            m = Mod(rel, tree)
            _index_defs(m, tree.body)
            _index_imports(m)
            self.mods[m.name] = m
        self.wrappers: dict = {}  # name in rng.py -> dict(prim, every_return_draws, line)
        self._find_wrappers()

    # -------------------------------------------------------------------------------------------- name resolution
    def resolve_dotted(self, mod: Mod, dotted_mod: str, attr: str, depth=0):
        """-> ("prim", src) | ("func", modname, qualname) | ("class", modname, qualname) | ("mod", dotted) | None"""
        if dotted_mod in EXTERNAL and (attr in EXTERNAL[dotted_mod] or "*" in EXTERNAL[dotted_mod]):
            return ("prim", f"{dotted_mod}.{attr}")
        full = f"{dotted_mod}.{attr}"
        if full in EXTERNAL or full in self.mods:
            return ("mod", full)
        m = self.mods.get(dotted_mod)
        if m is None:
            return None
        if m.rel == RNG_FILE and attr in self.wrappers:
            return ("prim", "rng." + attr)
        if attr in m.funcs:
            return ("func", m.name, attr)
        if attr in m.classes:
            return ("class", m.name, attr)
        if attr in m.imports and depth < 6:  # re-export
            return self.resolve_import(m, m.imports[attr], depth + 1)
        return None

    def resolve_import(self, mod: Mod, imp, depth=0):
        if imp[0] == "mod":
            return ("mod", imp[1])
        return self.resolve_dotted(mod, imp[1], imp[2], depth)

    def resolve_name(self, mod: Mod, name: str):
        if name in mod.funcs:
            return ("func", mod.name, name)
        if name in mod.classes:
            return ("class", mod.name, name)
        if name in mod.imports:
            return self.resolve_import(mod, mod.imports[name])
        return None

    def resolve_expr(self, mod: Mod, node, cls_ctx=None):
        """Resolve the callee expression of a call."""
        if isinstance(node, ast.Name):
            if node.id in ("self", "cls") and cls_ctx:
                return ("class", mod.name, cls_ctx)
            return self.resolve_name(mod, node.id)
        if isinstance(node, ast.Attribute):
            base = self.resolve_expr(mod, node.value, cls_ctx)
            if base is None:
                return None
            if base[0] == "mod":
                return self.resolve_dotted(mod, base[1], node.attr)
            if base[0] == "class":
                return self.find_method(base[1], base[2], node.attr)
            return None
        if isinstance(node, ast.Call):  # super().method / Class().method : type of the call result
            if isinstance(node.func, ast.Name) and node.func.id == "super" and cls_ctx:
                return ("super", mod.name, cls_ctx)
            r = self.resolve_expr(mod, node.func, cls_ctx)
            return r if r and r[0] == "class" else None
        return None

    def find_method(self, modname, clsq, attr, seen=None, skip_self=False):
        seen = seen or set()
        if (modname, clsq) in seen:
            return None
        seen.add((modname, clsq))
        m = self.mods.get(modname)
        if m is None or clsq not in m.classes:
            return None
        if not skip_self:
            if f"{clsq}.{attr}" in m.funcs:
                return ("func", modname, f"{clsq}.{attr}")
            if f"{clsq}.{attr}" in m.classes:
                return ("class", modname, f"{clsq}.{attr}")
        for b in m.classes[clsq].bases:
            r = self.resolve_expr(m, b)
            if r and r[0] == "class":
                f = self.find_method(r[1], r[2], attr, seen)
                if f:
                    return f
        return None

    def callee_targets(self, mod: Mod, call: ast.Call, cls_ctx=None):
        """-> list of ("prim", src) | ("func", modname, qualname)."""
        f = call.func
        if isinstance(f, ast.Attribute) and isinstance(f.value, ast.Call) and isinstance(f.value.func, ast.Name) \
                and f.value.func.id == "super" and cls_ctx:
            r = self.find_method(mod.name, cls_ctx, f.attr, skip_self=True)
            return [r] if r and r[0] == "func" else []
        r = self.resolve_expr(mod, f, cls_ctx)
        if r is None:
            return []
        if r[0] == "prim":
            return [r]
        if r[0] == "func":
            return [r]
        if r[0] == "class":  # constructor call
            out = []
            for meth in ("__init__", "__new__", "__post_init__"):
                t = self.find_method(r[1], r[2], meth)
                if t and t[0] == "func":
                    out.append(t)
            return out
        return []

    # -------------------------------------------------------------------------------------------- rng.py wrappers
    def _find_wrappers(self):
        m = next((x for x in self.mods.values() if x.rel == RNG_FILE), None)
        if m is None:
            return
        for name, fn in m.funcs.items():
            if "." in name:
                continue
            prims, returns, good_returns = [], 0, 0
            for node in ast.walk(fn):
                if isinstance(node, ast.Call):
                    r = self._ext_prim(m, node.func)
                    if r:
                        prims.append(r)
                if isinstance(node, ast.Return):
                    returns += 1
                    v = node.value
                    if isinstance(v, ast.Call) and self._ext_prim(m, v.func):
                        good_returns += 1
            if prims:
                self.wrappers[name] = {"prim": sorted(set(prims))[0], "every_return_draws": returns > 0 and returns == good_returns,
                                       "line": fn.lineno}

    def _ext_prim(self, m: Mod, f):
        if isinstance(f, ast.Name) and f.id in m.imports:
            imp = m.imports[f.id]
            if imp[0] == "obj" and imp[1] in EXTERNAL and (imp[2] in EXTERNAL[imp[1]] or "*" in EXTERNAL[imp[1]]):
                return f"{imp[1]}.{imp[2]}"
        if isinstance(f, ast.Attribute) and isinstance(f.value, ast.Name) and f.value.id in m.imports:
            imp = m.imports[f.value.id]
            if imp[0] == "mod" and imp[1] in EXTERNAL and (f.attr in EXTERNAL[imp[1]] or "*" in EXTERNAL[imp[1]]):
                return f"{imp[1]}.{f.attr}"
        return None


# ------------------------------------------------------------------------------------------------ call collection
class CallRec:
    __slots__ = ("mod", "node", "ctx", "owner", "cls", "field", "scope")

    def __init__(self, mod, node, ctx, owner, cls, field, scope):
        self.mod, self.node, self.ctx, self.owner, self.cls, self.field, self.scope = mod, node, ctx, owner, cls, field, scope


def _is_main_guard(st) -> bool:
    if not isinstance(st, ast.If):
        return False
    t = st.test
    return (isinstance(t, ast.Compare) and isinstance(t.left, ast.Name) and t.left.id == "__name__"
            and len(t.comparators) == 1 and isinstance(t.comparators[0], ast.Constant) and t.comparators[0].value == "__main__")


def _target_name(t):
    if isinstance(t, ast.Name):
        return t.id
    if isinstance(t, ast.Attribute):
        return t.attr
    if isinstance(t, ast.Subscript):
        if isinstance(t.slice, ast.Constant) and isinstance(t.slice.value, str):
            return t.slice.value
        return _target_name(t.value)
    if isinstance(t, (ast.Tuple, ast.List)) and t.elts:
        return _target_name(t.elts[0])
    return None


class Collector:
    """Walks one module keeping track of the evaluation context of every expression."""

    def __init__(self, world: World, mod: Mod):
        self.w, self.mod = world, mod
        self.calls: list = []

    def run(self):
        self.block(self.mod.tree.body, "atImport", None, None, "<module>", toplevel=True)
        return self.calls

    # ctx: "atImport" | "atDefinition" | "perCall"; owner: (modname, qualname) of the function whose body we are in
    def block(self, body, ctx, owner, cls, scope, toplevel=False):
        for st in body:
            if toplevel and _is_main_guard(st):
                continue
            self.stmt(st, ctx, owner, cls, scope)

    def stmt(self, st, ctx, owner, cls, scope):
        if isinstance(st, (ast.FunctionDef, ast.AsyncFunctionDef)):
            qual = (scope + "." if scope != "<module>" else "") + st.name
            early = "atDefinition" if ctx != "perCall" else "perCall"
            for d in st.decorator_list:
                self.expr(d, early, owner, cls, "decorator", qual)
            a = st.args
            pos = a.posonlyargs + a.args
            for arg, dflt in zip(pos[len(pos) - len(a.defaults):], a.defaults):
                self.expr(dflt, early, owner, cls, arg.arg, qual)
            for arg, dflt in zip(a.kwonlyargs, a.kw_defaults):
                if dflt is not None:
                    self.expr(dflt, early, owner, cls, arg.arg, qual)
            if ctx == "perCall":  # nested function: body attributed to the enclosing function (over-approximation)
                self.block(st.body, "perCall", owner, cls, scope)
            else:
                self.block(st.body, "perCall", (self.mod.name, qual), cls, qual)
            return
        if isinstance(st, ast.ClassDef):
            qual = (scope + "." if scope != "<module>" else "") + st.name
            for d in st.decorator_list + st.bases + [k.value for k in st.keywords]:
                self.expr(d, ctx, owner, cls, "class", qual)
            if ctx == "perCall":
                self.block(st.body, "perCall", owner, cls, scope)
            else:
                self.block(st.body, ctx, owner, qual, qual)
            return
        field = None
        if isinstance(st, ast.Assign):
            field = _target_name(st.targets[0])
        elif isinstance(st, (ast.AnnAssign, ast.AugAssign)):
            field = _target_name(st.target)
        elif isinstance(st, ast.Return):
            field = scope.rsplit(".", 1)[-1]
        for name, value in ast.iter_fields(st):
            if isinstance(value, list):
                if value and isinstance(value[0], ast.stmt):
                    self.block(value, ctx, owner, cls, scope)
                else:
                    for v in value:
                        if isinstance(v, ast.AST):
                            self.generic(v, ctx, owner, cls, field, scope)
            elif isinstance(value, ast.AST):
                self.generic(value, ctx, owner, cls, field, scope)

    def generic(self, node, ctx, owner, cls, field, scope):
        if isinstance(node, ast.stmt):
            self.stmt(node, ctx, owner, cls, scope)
        elif isinstance(node, ast.expr):
            self.expr(node, ctx, owner, cls, field, scope)
        elif isinstance(node, ast.ExceptHandler):
            if node.type is not None:
                self.expr(node.type, ctx, owner, cls, field, scope)
            self.block(node.body, ctx, owner, cls, scope)
        elif isinstance(node, (ast.withitem, ast.keyword, ast.comprehension, ast.match_case, ast.arguments, ast.arg)):
            for ch in ast.iter_child_nodes(node):
                self.generic(ch, ctx, owner, cls, field, scope)
        else:
            for ch in ast.iter_child_nodes(node):
                self.generic(ch, ctx, owner, cls, field, scope)

    def expr(self, node, ctx, owner, cls, field, scope):
        if isinstance(node, ast.Lambda):
            # the body runs when the lambda is called; its defaults run now
            for d in node.args.defaults + [k for k in node.args.kw_defaults if k is not None]:
                self.expr(d, ctx, owner, cls, field, scope)
            lam_owner = owner if ctx == "perCall" else (self.mod.name, f"{scope}.<lambda@{node.lineno}>")
            self.expr(node.body, "perCall", lam_owner, cls, field, scope)
            return
        if isinstance(node, ast.Dict):
            for k, v in zip(node.keys, node.values):
                f = k.value if isinstance(k, ast.Constant) and isinstance(k.value, str) else field
                if k is not None:
                    self.expr(k, ctx, owner, cls, field, scope)
                self.expr(v, ctx, owner, cls, f, scope)
            return
        if isinstance(node, ast.Call):
            self.calls.append(CallRec(self.mod, node, ctx, owner, cls, field, scope))
            self.expr(node.func, ctx, owner, cls, field, scope)
            for a in node.args:
                self.expr(a, ctx, owner, cls, field, scope)
            for k in node.keywords:
                self.expr(k.value, ctx, owner, cls, k.arg or field, scope)
            return
        for ch in ast.iter_child_nodes(node):
            self.generic(ch, ctx, owner, cls, field, scope)


# ------------------------------------------------------------------------------------------------ analysis
_MEMO = {}


def analyse():
    if "r" not in _MEMO:
        _MEMO["r"] = _analyse()
    return _MEMO["r"]


def _analyse():
    w = World()
    calls = []
    for m in w.mods.values():
        calls.extend(Collector(w, m).run())
    # resolve
    resolved = []  # (CallRec, targets)
    for c in calls:
        if c.mod.rel == RNG_FILE and c.ctx == "perCall" and c.owner and c.owner[1] in w.wrappers:
            continue  # the primitive call inside a wrapper *is* the oracle
        t = w.callee_targets(c.mod, c.node, c.cls)
        if c.mod.rel == RNG_FILE and not t:
            p = w._ext_prim(c.mod, c.node.func)
            if p:
                t = [("prim", p)]
        if t:
            resolved.append((c, t))
    # per function: direct draws and callees (perCall context only)
    draws_in: dict = {}
    callees: dict = {}
    for c, ts in resolved:
        if c.ctx != "perCall" or c.owner is None:
            continue
        for t in ts:
            if t[0] == "prim":
                draws_in.setdefault(c.owner, []).append((c, t[1]))
            else:
                callees.setdefault(c.owner, set()).add((t[1], t[2]))

    def reach(fn, seen):
        """all (CallRec, src) draws reachable from calling `fn`"""
        if fn in seen:
            return []
        seen.add(fn)
        out = list(draws_in.get(fn, []))
        for g in sorted(callees.get(fn, ())):
            out.extend(reach(g, seen))
        return out

    sites = []
    for c, ts in resolved:
        loc = f"{c.mod.rel}:{c.node.lineno}"
        fld = (c.field or "").lstrip("_") or "value"
        for t in ts:
            if t[0] == "prim":
                sites.append(dict(kind=kind_of(c.mod.rel), field=fld, evalTime=c.ctx, loc=loc, via="", scope=c.scope, src=t[1],
                                  key=(c.mod.rel, c.node.lineno, c.node.col_offset, "", 0)))
            elif c.ctx != "perCall":
                for d, src in reach((t[1], t[2]), set()):
                    dloc = f"{d.mod.rel}:{d.node.lineno}"
                    sites.append(dict(kind=kind_of(d.mod.rel), field=(d.field or "").lstrip("_") or "value", evalTime=c.ctx, loc=dloc,
                                      via=loc, scope=c.scope, src=src,
                                      key=(d.mod.rel, d.node.lineno, d.node.col_offset, loc, c.node.col_offset)))
    for rel, err in w.errors:
        sites.append(dict(kind="other", field="unparsable", evalTime="atImport", loc=f"{rel}:0", via="", scope=err, src="?",
                          key=(rel, 0, 0, "", 0)))
    # de-duplicate (the same draw reached twice from one early expression)
    uniq = {}
    for s in sites:
        uniq.setdefault(s["key"], s)
    sites = [uniq[k] for k in sorted(uniq)]
    n_early_calls = sum(1 for c in calls if c.ctx != "perCall")
    # call nodes that (may) draw: primitive calls and calls of callables from which a draw is reachable
    memo = {}
    draw_nodes = {}
    direct_nodes = set()
    for c, ts in resolved:
        for t in ts:
            if t[0] == "prim":
                draw_nodes[id(c.node)] = c
                direct_nodes.add(id(c.node))
            else:
                fn = (t[1], t[2])
                if fn not in memo:
                    memo[fn] = bool(reach(fn, set()))
                if memo[fn]:
                    draw_nodes[id(c.node)] = c
                    # a helper of the same class that itself contains a primitive draw (e.g. `_create_nonce`, `generate_nonce`)
                    if c.cls and t[1] == c.mod.name and t[2].rsplit(".", 1)[0] == c.cls and draws_in.get(fn):
                        direct_nodes.add(id(c.node))
    w.draw_nodes = draw_nodes
    w.direct_nodes = direct_nodes
    return w, sites, {"calls_total": len(calls), "calls_in_early_position": n_early_calls, "modules": len(w.mods)}


def source_of(src: str) -> str:
    if src.startswith("rng."):
        return "rngWrapper"
    if src.startswith("secrets."):
        return "secrets"
    if src.startswith("os."):
        return "osUrandom"
    if src.startswith("random.") or src.startswith("numpy.random."):
        return "pseudo"
    return "unknown"


def lean_str(s: str) -> str:
    return '"' + s.replace("\\", "\\\\").replace('"', '\\"') + '"'


def gen_SecretSites() -> None:
    w, sites, stats = analyse()
    out = ["import SpsdkVerif.Model.Fresh", "", "namespace SpsdkVerif.Generated", "open SpsdkVerif.Fresh", "",
           "/-- every drawing site of /repo/spsdk with the time its expression is evaluated -/",
           "def secretSites : List Site := ["]
    rows = []
    for s in sites:
        rows.append("  { kind := .%s, field := %s, evalTime := .%s, loc := %s, via := %s, scope := %s, source := .%s, src := %s }" % (
            s["kind"], lean_str(s["field"]), s["evalTime"], lean_str(s["loc"]), lean_str(s["via"]), lean_str(s["scope"]),
            source_of(s["src"]), lean_str(s["src"])))
    out.append(",\n".join(rows))
    out.append("]")
    out.append("")
    out.append("/-- the functions of spsdk/crypto/rng.py: wrapped primitive, and whether every `return` returns a fresh draw -/")
    out.append("def rngWrappers : List Wrapper := [")
    out.append(",\n".join("  { name := %s, prim := %s, source := .%s, everyReturnDraws := %s }" % (
        lean_str(n), lean_str(v["prim"]), source_of(v["prim"]), "true" if v["every_return_draws"] else "false") for n, v in sorted(w.wrappers.items())))
    out.append("]")
    out.append("")
    out.append("end SpsdkVerif.Generated")
    meta = {"sites": [{k: v for k, v in s.items() if k != "key"} for s in sites], "wrappers": w.wrappers, "stats": stats,
            "unparsable": w.errors,
            "by_evalTime": {e: sum(1 for s in sites if s["evalTime"] == e) for e in ("perCall", "atDefinition", "atImport")}}
    emit("SecretSites", "\n".join(out) + "\n", meta)


# ================================================================================================ carried secret state
def _self_attr(node):
    if isinstance(node, ast.Attribute) and isinstance(node.value, ast.Name) and node.value.id == "self":
        return node.attr
    return None


def _mentions(expr, names):
    """does the expression read `self.<n>` for an n in names"""
    for n in ast.walk(expr):
        a = _self_attr(n)
        if a is not None and a in names and isinstance(n.ctx, ast.Load):
            return True
    return False


class MethodInfo:
    def __init__(self, fn):
        self.fn = fn
        self.kind = "method"  # getter | setter | method
        self.prop = None
        for d in fn.decorator_list:
            if isinstance(d, ast.Name) and d.id in ("property", "cached_property"):
                self.kind, self.prop = "getter", fn.name
            elif isinstance(d, ast.Attribute) and d.attr == "setter" and isinstance(d.value, ast.Name):
                self.kind, self.prop = "setter", d.value.id
            elif isinstance(d, ast.Attribute) and d.attr in ("cached_property",):
                self.kind, self.prop = "getter", fn.name


def _tainted_locals(fn, draw_nodes):
    """local names that (may) hold a drawn value"""
    tainted = set()

    def has_draw(e):
        for n in ast.walk(e):
            if isinstance(n, ast.Call) and id(n) in draw_nodes:
                return True
            if isinstance(n, ast.Name) and n.id in tainted and isinstance(n.ctx, ast.Load):
                return True
        return False

    for _ in range(3):
        for n in ast.walk(fn):
            if isinstance(n, ast.Assign) and has_draw(n.value):
                for t in n.targets:
                    if isinstance(t, ast.Name):
                        tainted.add(t.id)
            elif isinstance(n, (ast.AnnAssign, ast.AugAssign)) and n.value is not None and has_draw(n.value):
                if isinstance(n.target, ast.Name):
                    tainted.add(n.target.id)
    return tainted, has_draw


def _assign_targets(st):
    if isinstance(st, ast.Assign):
        return st.targets, st.value
    if isinstance(st, (ast.AnnAssign, ast.AugAssign)) and st.value is not None:
        return [st.target], st.value
    return [], None


class SlotFlow:
    """must-assign analysis of one slot in one method.  `writes` = names whose assignment (re)sets the slot:
    the slot itself and the properties whose setter assigns it on every path; `reads` = names that read it."""

    def __init__(self, writes, reads):
        self.writes, self.reads = writes, reads
        self.returns = []
        self.lazy = False
        self.may = False

    def stmt_assigns(self, st):
        targets, value = _assign_targets(st)
        for t in targets:
            for tt in (t.elts if isinstance(t, (ast.Tuple, ast.List)) else [t]):
                a = _self_attr(tt)
                if a is not None and a in self.writes:
                    self.may = True
                    if isinstance(st, ast.AugAssign) or _mentions(value, self.reads):
                        return False  # `self.x = self.x or draw()` keeps the old value
                    return True
        return False

    def flow(self, stmts, states):
        for st in stmts:
            if not states:
                return states
            states = self.one(st, states)
        return states

    def one(self, st, states):
        if isinstance(st, (ast.Return,)):
            self.returns.extend(states)
            return set()
        if isinstance(st, ast.Raise):
            return set()
        if isinstance(st, ast.If):
            if _mentions(st.test, self.reads):
                # `if self.x is None: self.x = draw()` - lazy initialisation, not a reset
                sub = SlotFlow(self.writes, self.reads)
                sub.flow(st.body, {False})
                sub.flow(st.orelse, {False})
                if sub.may:
                    self.lazy = True
                    self.may = True
                    self.returns.extend(sub.returns and states or [])
                    return states
            return self.flow(st.body, set(states)) | self.flow(st.orelse, set(states))
        if isinstance(st, (ast.For, ast.AsyncFor, ast.While)):
            body = self.flow(st.body, set(states))
            return states | body | self.flow(st.orelse, states | body)
        if isinstance(st, (ast.With, ast.AsyncWith)):
            return self.flow(st.body, states)
        if isinstance(st, ast.Try):
            body = self.flow(st.body, set(states))
            out = self.flow(st.orelse, set(body)) if st.orelse else set(body)
            for h in st.handlers:
                out |= self.flow(h.body, states | body)
            if st.finalbody:
                out = self.flow(st.finalbody, out)
            return out
        if isinstance(st, ast.Match):
            out = set(states)
            for c in st.cases:
                out |= self.flow(c.body, set(states))
            return out
        if isinstance(st, (ast.FunctionDef, ast.AsyncFunctionDef, ast.ClassDef)):
            return states
        if self.stmt_assigns(st):
            return {True}
        return states

    def run(self, fn):
        out = self.flow(fn.body, {False})
        ends = list(out) + self.returns
        return self.may, bool(ends) and all(ends)


import re  # noqa: E402

# public entry points that re-specify an existing object from user input
_RESPEC_NAME = re.compile(r"(load.*config|from_config|parse)", re.I)


def analyse_state():
    w, _sites, _stats = analyse()
    rows = []
    for m in sorted(w.mods.values(), key=lambda x: x.rel):
        for clsq, cdef in sorted(m.classes.items()):
            if not any(isinstance(n, ast.Call) and id(n) in w.draw_nodes for n in ast.walk(cdef)):
                continue  # no (possibly) drawing call anywhere in the class: no secret slot
            methods = {st.name + ("#set" if MethodInfo(st).kind == "setter" else ""): MethodInfo(st)
                       for st in cdef.body if isinstance(st, (ast.FunctionDef, ast.AsyncFunctionDef))}
            # 1. slots: self.A assigned from a (possibly) drawn value
            slots = {}
            direct = set()
            for mi in methods.values():
                _t, has_draw = _tainted_locals(mi.fn, w.draw_nodes)
                _t2, has_direct = _tainted_locals(mi.fn, w.direct_nodes)
                for n in ast.walk(mi.fn):
                    targets, value = _assign_targets(n) if isinstance(n, ast.stmt) else ([], None)
                    if value is None or not has_draw(value):
                        continue
                    for t in targets:
                        a = _self_attr(t)
                        if a is not None:
                            slots.setdefault(a, n.lineno)
                            if has_direct(value):
                                direct.add(a)
            if not slots:
                continue
            # a property whose setter draws stores into the slots its setter assigns: resolve property -> slot
            setters = {mi.prop: mi for mi in methods.values() if mi.kind == "setter"}
            getters = {mi.prop: mi for mi in methods.values() if mi.kind == "getter"}
            real_slots = {a: ln for a, ln in slots.items() if a not in setters}
            for slot, line in sorted(real_slots.items()):
                # properties that read / (always) write the slot
                reads = {slot} | {p for p, g in getters.items() if _mentions_any(g.fn, {slot})}
                writes = {slot}
                for p, smi in setters.items():
                    may, must = SlotFlow({slot}, reads).run(smi.fn)
                    if must:
                        writes.add(p)
                for name, mi in sorted(methods.items()):
                    sf = SlotFlow(writes, reads)
                    may, must = sf.run(mi.fn)
                    # conditional writes through a property whose setter only sometimes assigns
                    cond_props = {p for p, smi in setters.items() if p not in writes and SlotFlow({slot}, reads).run(smi.fn)[0]}
                    if not may and cond_props and mi.kind != "setter":
                        sf2 = SlotFlow(cond_props, reads)
                        may2, _ = sf2.run(mi.fn)
                        may, must = may2, False
                    if not may:
                        continue
                    if mi.fn.name in ("__init__", "__new__", "__post_init__"):
                        role = "init"
                    elif mi.kind == "getter":
                        role = "getter"
                    elif sf.lazy and not must:
                        role = "lazy"
                    elif mi.kind == "setter" or _RESPEC_NAME.search(mi.fn.name):
                        role = "respec"
                    else:
                        role = "other"
                    rows.append(dict(cls=clsq, slot=slot, method=mi.fn.name + (".setter" if mi.kind == "setter" else ""), role=role,
                                     resets=bool(must), direct=slot in direct, loc=f"{m.rel}:{mi.fn.lineno}", kind=kind_of(m.rel)))
    return rows


def _mentions_any(fn, names):
    return any(_self_attr(n) in names for n in ast.walk(fn) if isinstance(n, ast.Attribute))


# ================================================================================================ choice of the secret's source
# calls that look at / read the file system: a guard that depends on one of them makes "what lies around in the
# output / search path" decide whether a new secret is drawn
FS_PROBES = {"find_file", "find_first", "find_dir", "exists", "isfile", "isdir", "is_file", "is_dir", "glob", "iglob", "listdir", "scandir",
             "access", "stat", "lstat", "load_binary", "load_text", "load_file", "load_configuration", "open", "read_bytes", "read_text"}
FILE_LOADERS = {"load_binary", "load_text", "load_file", "load_configuration", "open", "read_bytes", "read_text", "load_secret"}


def _tname(t):
    if isinstance(t, ast.Name):
        return t.id
    a = _self_attr(t)
    return ("self." + a) if a else None


def _assigned_in(stmts):
    """name -> list of value expressions assigned anywhere in the statements"""
    out = {}
    for st in stmts:
        for n in ast.walk(st):
            if isinstance(n, ast.stmt):
                targets, value = _assign_targets(n)
                for t in targets:
                    for tt in (t.elts if isinstance(t, (ast.Tuple, ast.List)) else [t]):
                        nm = _tname(tt)
                        if nm and value is not None:
                            out.setdefault(nm, []).append(value)
    return out


def _call_names(expr, defs, seen=None, depth=0):
    """names of the functions called in `expr`, following local names to their definitions"""
    seen = seen if seen is not None else set()
    out = set()
    for n in ast.walk(expr):
        if isinstance(n, ast.Call):
            f = n.func
            out.add(f.attr if isinstance(f, ast.Attribute) else (f.id if isinstance(f, ast.Name) else "?"))
        nm = _tname(n) if isinstance(n, (ast.Name, ast.Attribute)) else None
        if nm and nm in defs and nm not in seen and depth < 6:
            seen.add(nm)
            for v in defs[nm]:
                out |= _call_names(v, defs, seen, depth + 1)
    return out


def analyse_sources():
    """Every draw that is one of several alternative sources of the same variable (`if g: x = <other> else: x = draw()`,
    `x = a if g else draw()`): does the guard probe the file system, does the alternative read a file."""
    w, _sites, _stats = analyse()
    rows = []
    for m in sorted(w.mods.values(), key=lambda x: x.rel):
        for qual, fn in sorted(m.funcs.items()):
            if not any(id(n) in w.direct_nodes for n in ast.walk(fn) if isinstance(n, ast.Call)):
                continue
            defs = _assigned_in(fn.body)

            def has_draw(e):
                return any(isinstance(n, ast.Call) and id(n) in w.direct_nodes for n in ast.walk(e))

            def add(var, line, test, alt_values):
                calls = _call_names(test, defs)
                alt_calls = set()
                for v in alt_values:
                    alt_calls |= _call_names(v, defs, {var})
                rows.append(dict(kind=kind_of(m.rel), scope=qual, var=var.replace("self.", "").lstrip("_"), loc=f"{m.rel}:{line}",
                                 guardFs=bool(calls & FS_PROBES), altFile=bool(alt_calls & FILE_LOADERS),
                                 test=ast.unparse(test)[:80]))

            for node in ast.walk(fn):
                if isinstance(node, ast.If):
                    a_body, a_else = _assigned_in(node.body), _assigned_in(node.orelse)
                    for mine, other in ((a_body, a_else), (a_else, a_body)):
                        for var, vals in mine.items():
                            for v in vals:
                                if has_draw(v) and not isinstance(v, ast.IfExp) and var in other:
                                    add(var, v.lineno, node.test, other[var])
                elif isinstance(node, ast.stmt):
                    targets, value = _assign_targets(node)
                    if isinstance(value, ast.IfExp) and targets:
                        var = _tname(targets[0])
                        for mine, other in ((value.body, value.orelse), (value.orelse, value.body)):
                            if var and has_draw(mine) and not has_draw(other):
                                add(var, mine.lineno, value.test, [other])
    uniq = {}
    for r in rows:
        uniq.setdefault((r["loc"], r["var"]), r)
    return [uniq[k] for k in sorted(uniq)]


# ================================================================================================ draws and artifact loops
import builtins as _builtins  # noqa: E402

_BUILTIN_NAMES = set(dir(_builtins))


def analyse_loops():
    """For every function: every local variable that receives a (possibly) drawn value - a primitive draw or the result of a
    callable that draws, e.g. `kib = BeeKIB()` - and every loop in whose body that variable is READ: is the defining
    statement inside that loop (a new value per iteration) or hoisted out of it (one value serves every iteration)?"""
    w, _sites, _stats = analyse()
    rows = []
    for m in sorted(w.mods.values(), key=lambda x: x.rel):
        for qual, fn in sorted(m.funcs.items()):
            if not any(id(n) in w.draw_nodes for n in ast.walk(fn) if isinstance(n, ast.Call)):
                continue
            # loops over artifacts: `for x in <collection>` (retry loops - `while ...`, `for _ in range(n)` - repeat ONE artifact)
            loops = [n for n in ast.walk(fn) if isinstance(n, (ast.For, ast.AsyncFor))
                     and not (isinstance(n.target, ast.Name) and n.target.id.startswith("_"))]
            if not loops:
                continue
            # defining statements: `v = <expr with a draw call>` (first level taint only: the object / bytes that were drawn)
            defs = []
            for n in ast.walk(fn):
                if isinstance(n, ast.stmt):
                    targets, value = _assign_targets(n)
                    if value is None:
                        continue
                    calls = [c for c in ast.walk(value) if isinstance(c, ast.Call) and id(c) in w.draw_nodes]
                    if not calls:
                        continue
                    for t in targets:
                        for tt in (t.elts if isinstance(t, (ast.Tuple, ast.List)) else [t]):
                            if isinstance(tt, ast.Name):
                                defs.append((tt.id, n, calls[0]))

            def inside(node, loop):
                return any(x is node for b in (loop.body, loop.orelse) for st in b for x in ast.walk(st))

            for var, dst, call in defs:
                for lp in loops:
                    body_nodes = [x for b in (lp.body, lp.orelse) for st in b for x in ast.walk(st)]
                    # the value itself is handed to something created / called per iteration: `Header(prdb, key, kib)`.
                    # (`obj.add(x)`, `obj[i] = x`, `obj.attr` in the loop body use ONE artifact `obj` whose parts the loop adds.)
                    reads = [c for c in body_nodes if isinstance(c, ast.Call)
                             and not (isinstance(c.func, ast.Name) and c.func.id in _BUILTIN_NAMES)
                             and any(isinstance(a, ast.Name) and a.id == var for a in list(c.args) + [k.value for k in c.keywords])]
                    if not reads:
                        continue
                    d_in = inside(dst, lp)
                    if not d_in:
                        # re-defined inside the loop before use? then the outer definition does not serve the iterations
                        if any(v2 == var and inside(d2, lp) for v2, d2, _c in defs):
                            continue
                        # a definition AFTER the loop cannot serve it
                        if dst.lineno > lp.lineno:
                            continue
                    rows.append(dict(kind=kind_of(m.rel), scope=qual, var=var, drawLoc=f"{m.rel}:{call.lineno}", loopLoc=f"{m.rel}:{lp.lineno}",
                                     inside=bool(d_in)))
    uniq = {}
    for r in rows:
        uniq.setdefault((r["drawLoc"], r["var"], r["loopLoc"]), r)
    return [uniq[k] for k in sorted(uniq)]


def gen_SecretState() -> None:
    rows = analyse_state()
    srcs = analyse_sources()
    lps = analyse_loops()
    out = ["import SpsdkVerif.Model.FreshObj", "import SpsdkVerif.Model.FreshFile", "import SpsdkVerif.Model.FreshLoop", "", "namespace SpsdkVerif.Generated", "open SpsdkVerif.Fresh", "",
           "/-- every method that writes an attribute holding a self-chosen secret: role and whether every normal path (re)sets it -/",
           "def secretSlots : List SlotPath := ["]
    out.append(",\n".join("  { kind := .%s, cls := %s, slot := %s, method := %s, role := .%s, resets := %s, direct := %s, loc := %s }" % (
        r["kind"], lean_str(r["cls"]), lean_str(r["slot"]), lean_str(r["method"]), r["role"], "true" if r["resets"] else "false",
        "true" if r["direct"] else "false", lean_str(r["loc"]))
        for r in rows))
    out.append("]")
    out.append("")
    out.append("/-- every draw that is one of several alternative sources of a variable: what decides between them -/")
    out.append("def secretSources : List SourceChoice := [")
    out.append(",\n".join("  { kind := .%s, scope := %s, var := %s, loc := %s, guard := .%s, altFile := %s, test := %s }" % (
        r["kind"], lean_str(r["scope"]), lean_str(r["var"]), lean_str(r["loc"]), "fileExists" if r["guardFs"] else "flag",
        "true" if r["altFile"] else "false", lean_str(r["test"])) for r in srcs))
    out.append("]")
    out.append("")
    out.append("/-- every (variable holding a drawn value, loop that reads it): is the draw / drawing constructor call inside the loop -/")
    out.append("def loopUses : List LoopUse := [")
    out.append(",\n".join("  { kind := .%s, scope := %s, var := %s, drawLoc := %s, loopLoc := %s, inside := %s }" % (
        r["kind"], lean_str(r["scope"]), lean_str(r["var"]), lean_str(r["drawLoc"]), lean_str(r["loopLoc"]), "true" if r["inside"] else "false")
        for r in lps))
    out.append("]")
    out.append("")
    out.append("end SpsdkVerif.Generated")
    emit("SecretState", "\n".join(out) + "\n", {"slots": rows, "sources": srcs, "loops": lps, "by_role": {k: sum(1 for r in rows if r["role"] == k) for k in ("init", "getter", "lazy", "respec", "other")}})


GENERATORS = {"SecretSites": gen_SecretSites, "SecretState": gen_SecretState}
