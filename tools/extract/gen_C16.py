"""C16 (phase 3): Generated/BinImageGeo.lean - the geometry arithmetic of `spsdk/utils/images.py::BinaryImage`, read from /repo's
current source on every run (pure `ast` reading, constants by value through consteval).

A small symbolic executor turns the integer / boolean code of the methods into terms over explicit parameters (`self._size` -> `size`,
`len(self.binary) if self.binary else 0` -> `binTruthy`/`binLen`, a child's `offset`/`len()` -> the components of a pair in `kids`) and
NORMALISES the program shape, so that behaviour-preserving rewrites give the same generated text or a text the same robust proof accepts:

  * reductions over `self.sub_images` - an accumulator loop (`m = max(e, m)`), a list built by `append` in a loop, a list
    comprehension / generator, `lst.append(x)` afterwards, `max(lst)` / `min(lst)` - all become `maxOf / minOf (scalars ++ kids.map f)`;
  * `validate()` is walked path by path: every `raise` is recorded with its path condition inside its loop nest (self / child / sibling),
    `continue`, early `return`, nested `if` vs guard clauses and one-level same-class helper calls (`self._helper(..)`) are inlined; the
    identity guard `sibling != image` (any spelling) is factored out; what is emitted is ONE decision function per scope;
  * `add_image`: `for i, c in enumerate(L): if COND: L.insert(i, x); return` + `L.append(x)` and
    `L.insert(next((i for i, c in enumerate(L) if COND), len(L)), x)` both give the rule "before the first child with COND, else at the end";
  * `load_from_config`: `d.get("offset", D)`, `d["offset"] if "offset" in d else D` (explicit value wins) vs `d.get("offset") or D`
    (a falsy explicit value is dropped) are told apart semantically.

Anything the executor cannot read becomes an `opaque` stand-in of the same type (the module still compiles, every theorem about the
part fails -> broken obligation, never exit 2).  No line numbers, messages, docstrings or source spellings reach the generated text.
"""
from __future__ import annotations

import ast
import copy

from consteval import ModuleEnv, NotConst
from extract import emit, parse

IMAGES = "spsdk/utils/images.py"
EXCEPTIONS = "spsdk/exceptions.py"
CLASS = "BinaryImage"


class Untr(Exception):
    pass


# ================================================================================================ terms
def I(n):
    return ("int", int(n))


def V(name, ty="Int"):
    return ("var", name, ty)


TRUE, FALSE, SAME = ("true",), ("false",), ("same",)


def t_not(a):
    if a == TRUE:
        return FALSE
    if a == FALSE:
        return TRUE
    if a[0] == "not":
        return a[1]
    return ("not", a)


def t_and(a, b):
    if a == FALSE or b == FALSE:
        return FALSE
    if a == TRUE:
        return b
    if b == TRUE:
        return a
    return ("and", a, b)


def t_or(a, b):
    if a == TRUE or b == TRUE:
        return TRUE
    if a == FALSE:
        return b
    if b == FALSE:
        return a
    return ("or", a, b)


def subst(t, what, by):
    if t == what:
        return by
    if not isinstance(t, tuple):
        return t
    if t[0] in ("int", "var"):
        return t
    if t[0] in ("maxof", "minof"):
        return (t[0], tuple(subst(x, what, by) for x in t[1]), tuple(subst(x, what, by) for x in t[2]))
    r = tuple([t[0]] + [subst(x, what, by) for x in t[1:]])
    if r[0] == "not":
        return t_not(r[1])
    if r[0] == "and":
        return t_and(r[1], r[2])
    if r[0] == "or":
        return t_or(r[1], r[2])
    return r


def contains(t, what):
    if t == what:
        return True
    if isinstance(t, tuple):
        return any(contains(x, what) for x in t[1:])
    return False


def free_vars(t, acc=None):
    acc = set() if acc is None else acc
    if isinstance(t, tuple):
        if t and t[0] == "var":
            acc.add(t[1])
        else:
            for x in t[1:]:
                free_vars(x, acc)
    return acc


FAILING = ("align", "maxof", "minof")


def has_failing(t):
    if not isinstance(t, tuple):
        return False
    if t[0] in ("maxof", "minof"):
        return bool(t[2]) or not t[1] or any(has_failing(x) for x in t[1])
    return t[0] == "align" or any(has_failing(x) for x in t[1:])


def merge_ite(c, a, b):
    """`if c then a else b` with the condition pushed to the place where the two terms differ (anti-unification)"""
    if a == b:
        return a
    if isinstance(a, tuple) and isinstance(b, tuple) and a[0] == b[0] and len(a) == len(b) and a[0] not in ("int", "var", "acc"):
        if a[0] in ("maxof", "minof"):
            # as sets: common scalars stay, the one scalar each side has extra goes under the condition
            # (a side without an extra one repeats a common scalar, which changes nothing)
            if set(a[2]) == set(b[2]):
                common = [x for x in a[1] if x in b[1]]
                xa = [x for x in a[1] if x not in b[1]]
                xb = [x for x in b[1] if x not in a[1]]
                if len(xa) <= 1 and len(xb) <= 1 and (common or (xa and xb)):
                    ea = xa[0] if xa else common[0]
                    eb = xb[0] if xb else common[0]
                    sc = sorted(set(common + [merge_ite(c, ea, eb)]), key=repr)
                    return (a[0], tuple(sc), a[2])
        else:
            diff = [i for i in range(1, len(a)) if a[i] != b[i]]
            if len(diff) == 1 and is_int_pos(a[0], diff[0]):
                i = diff[0]
                return a[:i] + (merge_ite(c, a[i], b[i]),) + a[i + 1:]
    return ("ite", c, a, b)


def is_int_pos(kind, i):
    """argument `i` of a `kind` term is an integer term (so an integer `ite` may be put there)"""
    if kind in ("add", "sub", "mul", "neg", "fdiv", "fmod", "floorf", "ceilf", "max2", "min2", "align"):
        return True
    if kind == "ite":
        return i in (2, 3)
    return False


def norm(t):
    """max / min as n-ary, order-free sets: `max(a, max(b, ..))`, `max(x, max(list))` -> one `maxof`; scalars deduplicated and sorted"""
    if not isinstance(t, tuple) or t[0] in ("int", "var", "acc", "true", "false", "same"):
        return t
    if t[0] in ("max2", "min2"):
        kind = t[0][:3] + "of"
        return norm((kind, (t[1], t[2]), ()))
    if t[0] in ("maxof", "minof"):
        sc, pc = [], [norm(x) for x in t[2]]
        for x in t[1]:
            x = norm(x)
            if isinstance(x, tuple) and x[0] == t[0]:
                sc += list(x[1])
                pc += list(x[2])
            else:
                sc.append(x)
        sc = sorted(set(sc), key=repr)
        pc = sorted(set(pc), key=repr)
        if len(sc) == 1 and not pc:
            return sc[0]
        return (t[0], tuple(sc), tuple(pc))
    if t[0] == "ite":
        return merge_ite(norm(t[1]), norm(t[2]), norm(t[3]))
    return tuple([t[0]] + [norm(x) for x in t[1:]])


# ------------------------------------------------------------------------------------------------ Lean text of terms
def lean_int(t, binds=None):
    k = t[0]
    if k == "int":
        return f"({t[1]} : Int)"
    if k == "var":
        return t[1]
    if k == "bound":
        return t[1]
    if k in ("add", "sub", "mul"):
        return f"({lean_int(t[1], binds)} {dict(add='+', sub='-', mul='*')[k]} {lean_int(t[2], binds)})"
    if k == "neg":
        return f"(-{lean_int(t[1], binds)})"
    if k == "fdiv":
        return f"(Int.fdiv {lean_int(t[1], binds)} {lean_int(t[2], binds)})"
    if k == "fmod":
        return f"(Int.fmod {lean_int(t[1], binds)} {lean_int(t[2], binds)})"
    if k == "floorf":
        return f"(floorTrueDiv {lean_int(t[1], binds)} {lean_int(t[2], binds)})"
    if k == "ceilf":
        return f"(ceilTrueDiv {lean_int(t[1], binds)} {lean_int(t[2], binds)})"
    if k in ("max2", "min2"):
        return f"({k[:3]} {lean_int(t[1], binds)} {lean_int(t[2], binds)})"
    if k == "ite":
        return f"(if {lean_bool(t[1], binds)} then {lean_int(t[2], binds)} else {lean_int(t[3], binds)})"
    if k in ("maxof", "minof") and not t[2] and t[1]:
        r = lean_int(t[1][0], binds)
        for x in t[1][1:]:
            r = f"({k[:3]} {r} {lean_int(x, binds)})"
        return r
    if k in FAILING:
        if binds is None:
            raise Untr("a partial operation (align / max / min of a list) in a position that cannot fail")
        for name, bt in binds:
            if bt == t:
                return name
        name = f"r{len(binds) + 1}"
        binds.append((name, t))
        return name
    raise Untr(f"integer term {k}")


def lean_bool(t, binds=None):
    k = t[0]
    if k == "true":
        return "true"
    if k == "false":
        return "false"
    if k == "var":
        return t[1]
    if k in ("lt", "le", "eq", "ne"):
        op = dict(lt="<", le="≤", eq="=", ne="≠")[k]
        return f"(decide ({lean_int(t[1], binds)} {op} {lean_int(t[2], binds)}))"
    if k == "not":
        return f"(!{lean_bool(t[1], binds)})"
    if k in ("and", "or"):
        return f"({lean_bool(t[1], binds)} {'&&' if k == 'and' else '||'} {lean_bool(t[2], binds)})"
    if k == "bite":
        return f"(if {lean_bool(t[1], binds)} then {lean_bool(t[2], binds)} else {lean_bool(t[3], binds)})"
    if k == "same":
        raise Untr("object identity outside the sibling guard")
    raise Untr(f"boolean term {k}")


def lean_failing(t, binds):
    """Lean text (a `PyRes Int`) of one partial operation whose operands are already bound"""
    if t[0] == "align":
        return f"PyFuns.align {lean_int(t[1], binds)} {lean_int(t[2], binds)}"
    sc = "[" + ", ".join(lean_int(x, binds) for x in t[1]) + "]"
    pcs = [f"kids.map (fun k => {lean_int(x, binds)})" for x in t[2]]
    lst = " ++ ".join([sc] + pcs) if t[1] or not pcs else " ++ ".join(pcs)
    return f"ofOption ({t[0][:3]}Of ({lst}))"


def lean_res_ordered(t, normalised=False):
    """Lean text of type `PyRes Int`; operands of a partial operation that are themselves partial are bound first"""
    if not normalised:
        t = norm(t)
    if t[0] == "ite" and (has_failing(t[2]) or has_failing(t[3])):
        if has_failing(t[1]):
            raise Untr("partial operation inside a condition")
        return f"(if {lean_bool(t[1])} then {lean_res_ordered(t[2], True)} else {lean_res_ordered(t[3], True)})"
    order = []

    def visit(x):
        if not isinstance(x, tuple) or x[0] in ("int", "var"):
            return
        if x[0] in ("maxof", "minof"):
            for y in x[1] + x[2]:
                visit(y)
        else:
            for y in x[1:]:
                visit(y)
        if (x[0] == "align" or (x[0] in ("maxof", "minof") and (x[2] or not x[1]))) and x not in [b for _, b in order]:
            order.append((f"r{len(order) + 1}", x))

    visit(t)
    binds = list(order)
    body = lean_int(t, binds)
    out = f".ok {body}"
    for i in range(len(order) - 1, -1, -1):
        name, bt = order[i]
        out = f"(match {lean_failing(bt, list(order[:i]))} with | .error e => .error e | .ok {name} => {out})"
    return out


# ================================================================================================ symbolic values
class IntV:
    def __init__(self, t):
        self.t = t


class BoolV:
    def __init__(self, t):
        self.t = t


class BytesV:
    def __init__(self, truthy, length):
        self.truthy, self.length = truthy, length


class NoneV:
    pass


class BlockV:
    """`pattern.get_block(n)`"""

    def __init__(self, size):
        self.size = size


class KidsV:
    pass


class EnumKidsV:
    pass


class ListV:
    def __init__(self, scalars=None, perchild=None):
        self.scalars, self.perchild = list(scalars or []), list(perchild or [])

    def copy(self):
        return ListV(self.scalars, self.perchild)


class ObjV:
    def __init__(self, role, attrs=None, length=None, truthy=None):
        self.role, self.attrs, self.length, self.truthy = role, dict(attrs or {}), length, truthy


def copy_env(env):
    return {k: (v.copy() if isinstance(v, ListV) else v) for k, v in env.items()}


def is_doc(st):
    return isinstance(st, ast.Expr) and isinstance(st.value, ast.Constant) and isinstance(st.value.value, str)


def assigns(st):
    return any(isinstance(n, (ast.Assign, ast.AugAssign, ast.AnnAssign, ast.NamedExpr)) for n in ast.walk(st))


def is_log(st):
    """a statement without effect on the computation: logging call, `pass`, a bare assert-free comment expression"""
    if isinstance(st, ast.Pass):
        return True
    if isinstance(st, ast.Expr) and isinstance(st.value, ast.Call):
        f = st.value.func
        while isinstance(f, ast.Attribute):
            f = f.value
        return isinstance(f, ast.Name) and f.id in ("logger", "logging", "log", "warnings")
    return False


class Sym:
    """symbolic executor over the methods of one class"""

    def __init__(self, cls_node: ast.ClassDef, menv: ModuleEnv, exc_classes: dict):
        self.cls_node, self.menv, self.exc = cls_node, menv, exc_classes
        self.methods = {n.name: n for n in cls_node.body if isinstance(n, ast.FunctionDef)}
        self.depth = 0

    # -------------------------------------------------------------------------------------------- helpers
    def method(self, name):
        if name not in self.methods:
            raise Untr(f"method {name} not found")
        return self.methods[name]

    @staticmethod
    def decorators(fn):
        out = set()
        for d in fn.decorator_list:
            out.add(d.id if isinstance(d, ast.Name) else d.attr if isinstance(d, ast.Attribute) else "?")
        return out

    def exc_class(self, st: ast.Raise):
        e = st.exc
        if isinstance(e, ast.Call):
            e = e.func
        name = e.id if isinstance(e, ast.Name) else e.attr if isinstance(e, ast.Attribute) else None
        if name is None:
            return "other"
        return "spsdk" if self.exc.get(name) else "other"

    def truth(self, v):
        if isinstance(v, BoolV):
            return v.t
        if isinstance(v, IntV):
            return ("ne", v.t, I(0))
        if isinstance(v, BytesV):
            return v.truthy
        if isinstance(v, NoneV):
            return FALSE
        if isinstance(v, ObjV) and v.truthy is not None:
            return v.truthy
        if isinstance(v, KidsV):
            return ("ne", V("nKids"), I(0))
        raise Untr(f"truth value of {type(v).__name__}")

    def int_of(self, v):
        if isinstance(v, IntV):
            return v.t
        raise Untr(f"integer expected, got {type(v).__name__}")

    # -------------------------------------------------------------------------------------------- expressions
    def ev(self, e, env):
        if isinstance(e, ast.Constant):
            if isinstance(e.value, bool):
                return BoolV(TRUE if e.value else FALSE)
            if isinstance(e.value, int):
                return IntV(I(e.value))
            if e.value is None:
                return NoneV()
            raise Untr("constant " + type(e.value).__name__)
        if isinstance(e, ast.Name):
            if e.id in env:
                return env[e.id]
            try:
                c = self.menv.eval(e, cls=self.cls_node.name)
                if isinstance(c, bool):
                    return BoolV(TRUE if c else FALSE)
                if isinstance(c, int):
                    return IntV(I(c))
            except NotConst:
                pass
            raise Untr(f"unknown name {e.id}")
        if isinstance(e, ast.Attribute):
            base = self.ev(e.value, env) if not (isinstance(e.value, ast.Name) and e.value.id not in env) else None
            if isinstance(base, ObjV):
                if e.attr in base.attrs:
                    return base.attrs[e.attr]
                fn = self.methods.get(e.attr)
                if fn is not None and "property" in self.decorators(fn):
                    return self.inline(fn, base, [], {})
                raise Untr(f"attribute {e.attr} of the {base.role} object")
            try:
                c = self.menv.eval(e, cls=self.cls_node.name)
                if isinstance(c, int) and not isinstance(c, bool):
                    return IntV(I(c))
            except NotConst:
                pass
            raise Untr("attribute " + e.attr)
        if isinstance(e, ast.BinOp):
            if isinstance(e.op, ast.Div):
                raise Untr("true division outside math.floor / math.ceil")
            a, b = self.int_of(self.ev(e.left, env)), self.int_of(self.ev(e.right, env))
            ops = {ast.Add: "add", ast.Sub: "sub", ast.Mult: "mul", ast.FloorDiv: "fdiv", ast.Mod: "fmod"}
            if type(e.op) not in ops:
                raise Untr("operator " + type(e.op).__name__)
            return IntV((ops[type(e.op)], a, b))
        if isinstance(e, ast.UnaryOp):
            if isinstance(e.op, ast.Not):
                return BoolV(t_not(self.truth(self.ev(e.operand, env))))
            if isinstance(e.op, ast.USub):
                v = self.int_of(self.ev(e.operand, env))
                return IntV(I(-v[1]) if v[0] == "int" else ("neg", v))
            if isinstance(e.op, ast.UAdd):
                return self.ev(e.operand, env)
            raise Untr("unary operator")
        if isinstance(e, ast.BoolOp):
            # only in boolean position (the callers take truth()): `a and b` / `a or b` as booleans
            ts = [self.truth(self.ev(x, env)) for x in e.values]
            r = ts[0]
            for t in ts[1:]:
                r = t_and(r, t) if isinstance(e.op, ast.And) else t_or(r, t)
            return BoolV(r)
        if isinstance(e, ast.Compare):
            left = self.ev(e.left, env)
            r = TRUE
            for op, c in zip(e.ops, e.comparators):
                right = self.ev(c, env)
                r = t_and(r, self.compare(op, left, right))
                left = right
            return BoolV(r)
        if isinstance(e, ast.IfExp):
            c = self.truth(self.ev(e.test, env))
            a, b = self.ev(e.body, env), self.ev(e.orelse, env)
            if c == TRUE:
                return a
            if c == FALSE:
                return b
            if isinstance(a, IntV) and isinstance(b, IntV):
                return IntV(("ite", c, a.t, b.t))
            if isinstance(a, BoolV) and isinstance(b, BoolV):
                return BoolV(("bite", c, a.t, b.t))
            raise Untr("conditional expression of mixed types")
        if isinstance(e, (ast.ListComp, ast.GeneratorExp)):
            return self.comprehension(e, env)
        if isinstance(e, ast.List) and not e.elts:
            return ListV()
        if isinstance(e, (ast.List, ast.Tuple)):
            return ListV(scalars=[self.int_of(self.ev(x, env)) for x in e.elts])
        if isinstance(e, ast.Call):
            return self.call(e, env)
        raise Untr("expression " + type(e).__name__)

    def compare(self, op, a, b):
        if isinstance(op, (ast.In, ast.NotIn)) and isinstance(b, ListV) and not b.perchild:
            x = self.int_of(a)
            r = FALSE
            for t in b.scalars:
                r = t_or(r, ("eq", x, t))
            return r if isinstance(op, ast.In) else t_not(r)
        if isinstance(a, ObjV) and isinstance(b, ObjV):
            if {a.role, b.role} == {"child", "sibling"}:
                if isinstance(op, (ast.Eq, ast.Is)):
                    return SAME
                if isinstance(op, (ast.NotEq, ast.IsNot)):
                    return t_not(SAME)
            raise Untr("comparison of objects")
        if isinstance(a, BoolV) and isinstance(b, BoolV) and isinstance(op, (ast.Eq, ast.NotEq, ast.Is, ast.IsNot)):
            eq = t_or(t_and(a.t, b.t), t_and(t_not(a.t), t_not(b.t)))
            return eq if isinstance(op, (ast.Eq, ast.Is)) else t_not(eq)
        x, y = self.int_of(a), self.int_of(b)
        table = {ast.Lt: ("lt", x, y), ast.LtE: ("le", x, y), ast.Gt: ("lt", y, x), ast.GtE: ("le", y, x), ast.Eq: ("eq", x, y), ast.NotEq: ("ne", x, y)}
        if type(op) not in table:
            raise Untr("comparison " + type(op).__name__)
        return table[type(op)]

    def comprehension(self, e, env):
        if len(e.generators) != 1 or e.generators[0].ifs or e.generators[0].is_async:
            raise Untr("comprehension with filters / several loops")
        g = e.generators[0]
        it = self.ev(g.iter, env)
        if isinstance(it, KidsV) and isinstance(g.target, ast.Name):
            env2 = copy_env(env)
            env2[g.target.id] = self.kid()
            return ListV(perchild=[self.int_of(self.ev(e.elt, env2))])
        if isinstance(it, ListV) and isinstance(g.target, ast.Name):
            # map over an already symbolic list
            out = ListV()
            for t in it.scalars:
                env2 = copy_env(env)
                env2[g.target.id] = IntV(t)
                out.scalars.append(self.int_of(self.ev(e.elt, env2)))
            for t in it.perchild:
                env2 = copy_env(env)
                env2[g.target.id] = IntV(t)
                out.perchild.append(self.int_of(self.ev(e.elt, env2)))
            return out
        raise Untr("comprehension over something else than the sub-images")

    @staticmethod
    def kid():
        return ObjV("kid", {"offset": IntV(V("k.1"))}, IntV(V("k.2")))

    def call(self, e, env):
        f = e.func
        if e.keywords and not (isinstance(f, ast.Name) and f.id in ("max", "min")):
            kw = {k.arg: k.value for k in e.keywords}
        else:
            kw = {k.arg: k.value for k in e.keywords}
        if isinstance(f, ast.Name):
            if f.id == "len" and len(e.args) == 1:
                v = self.ev(e.args[0], env)
                if isinstance(v, BytesV):
                    return IntV(v.length)
                if isinstance(v, ObjV) and v.length is not None:
                    return v.length
                if isinstance(v, KidsV):
                    return IntV(V("nKids"))
                raise Untr("len() of " + type(v).__name__)
            if f.id in ("max", "min"):
                vals = [self.ev(a, env) for a in e.args]
                if len(vals) == 1 and isinstance(vals[0], ListV):
                    lst = vals[0]
                    if "default" in kw:
                        lst = lst.copy()
                        lst.scalars.append(self.int_of(self.ev(kw["default"], env)))  # same value whenever the list is non-empty; total otherwise
                    if len(lst.scalars) == 1 and not lst.perchild:
                        return IntV(lst.scalars[0])
                    return IntV((f.id + "of", tuple(lst.scalars), tuple(lst.perchild)))
                if len(vals) >= 2:
                    ts = [self.int_of(v) for v in vals]
                    r = ts[0]
                    for t in ts[1:]:
                        r = (f.id + "2", r, t)
                    return IntV(r)
                raise Untr(f.id + " of one non-list argument")
            if f.id == "align" and len(e.args) == 2 and not kw:
                return IntV(("align", self.int_of(self.ev(e.args[0], env)), self.int_of(self.ev(e.args[1], env))))
            if f.id == "align" and len(e.args) == 1 and set(kw) == {"alignment"}:
                return IntV(("align", self.int_of(self.ev(e.args[0], env)), self.int_of(self.ev(kw["alignment"], env))))
            if f.id in ("int", "abs") and len(e.args) == 1 and f.id == "int":
                v = self.ev(e.args[0], env)
                if isinstance(v, IntV):
                    return v
            if f.id in ("list", "tuple", "sorted") and len(e.args) == 1:
                v = self.ev(e.args[0], env)
                if isinstance(v, ListV):
                    return v.copy()
            if f.id == "enumerate" and len(e.args) == 1 and isinstance(self.ev(e.args[0], env), KidsV):
                return EnumKidsV()
            if f.id == "bool" and len(e.args) == 1:
                return BoolV(self.truth(self.ev(e.args[0], env)))
            raise Untr("call of " + f.id)
        if isinstance(f, ast.Attribute):
            # math.floor(a / b), math.ceil(a / b)
            if isinstance(f.value, ast.Name) and f.value.id == "math" and f.attr in ("floor", "ceil") and len(e.args) == 1:
                a = e.args[0]
                if isinstance(a, ast.BinOp) and isinstance(a.op, ast.Div):
                    return IntV((f.attr + "f" if f.attr == "ceil" else "floorf", self.int_of(self.ev(a.left, env)), self.int_of(self.ev(a.right, env))))
                v = self.ev(a, env)
                if isinstance(v, IntV):
                    return v
                raise Untr("math." + f.attr)
            # same-class helpers: self.helper(..), Class.helper(..), obj.method(..)
            recv = None
            if isinstance(f.value, ast.Name) and f.value.id == self.cls_node.name:
                recv = "class"
            else:
                try:
                    recv = self.ev(f.value, env)
                except Untr:
                    recv = None
            if isinstance(recv, ObjV) and recv.role == "pattern" and f.attr == "get_block" and len(e.args) == 1 and not kw:
                return BlockV(self.int_of(self.ev(e.args[0], env)))
            if (recv == "class" or isinstance(recv, ObjV)) and recv != "class" and recv.role == "pattern":
                raise Untr("pattern method " + f.attr)
            if (recv == "class" or isinstance(recv, ObjV)) and f.attr in self.methods:
                fn = self.methods[f.attr]
                args = [self.ev(a, env) for a in e.args]
                kws = {k: self.ev(v, env) for k, v in kw.items()}
                return self.inline(fn, recv if isinstance(recv, ObjV) else None, args, kws)
            raise Untr("method call " + f.attr)
        raise Untr("call")

    def inline(self, fn, recv, args, kws):
        """value returned by a same-class method / property / static helper, executed symbolically"""
        if self.depth >= 4:
            raise Untr("helper calls nested too deep")
        decos = self.decorators(fn)
        params = [a.arg for a in fn.args.args]
        env = {}
        if "staticmethod" not in decos:
            if not params:
                raise Untr("method without self")
            if "classmethod" in decos:
                env[params[0]] = ObjV("class")
            else:
                if recv is None:
                    raise Untr("instance method called on the class")
                env[params[0]] = recv
            params = params[1:]
        defaults = fn.args.defaults
        dvals = {}
        for p, d in zip(params[len(params) - len(defaults):], defaults):
            dvals[p] = d
        for i, p in enumerate(params):
            if i < len(args):
                env[p] = args[i]
            elif p in kws:
                env[p] = kws[p]
            elif p in dvals:
                env[p] = self.ev(dvals[p], {})
            else:
                raise Untr(f"missing argument {p}")
        self.depth += 1
        try:
            return self.tree_value(self.run(fn.body, env))
        finally:
            self.depth -= 1

    # -------------------------------------------------------------------------------------------- statements (pure functions)
    def run(self, stmts, env):
        """-> ('ret', value) | ('raise', cls) | ('if', cond, t1, t2) | ('fall', env)"""
        for idx, st in enumerate(stmts):
            if is_doc(st) or is_log(st):
                continue
            if isinstance(st, ast.Return):
                return ("ret", self.ev(st.value, env) if st.value is not None else NoneV())
            if isinstance(st, ast.Raise):
                return ("raise", self.exc_class(st))
            if isinstance(st, ast.If):
                c = self.truth(self.ev(st.test, env))
                rest = stmts[idx + 1:]
                if c == TRUE:
                    return self.run(st.body + rest, env)
                if c == FALSE:
                    return self.run(st.orelse + rest, env)
                return ("if", c, self.run(st.body + rest, copy_env(env)), self.run(st.orelse + rest, copy_env(env)))
            if isinstance(st, ast.For):
                self.reduce_loop(st, env, None)
                continue
            self.simple(st, env, None)
        return ("fall", env)

    def simple(self, st, env, effects):
        """assignment / augmented assignment / list append; attribute targets are recorded in `effects` (when allowed)"""
        if isinstance(st, ast.AnnAssign) and st.value is not None:
            st = ast.Assign(targets=[st.target], value=st.value)
        if isinstance(st, ast.AnnAssign):
            return
        if isinstance(st, ast.Assign) and len(st.targets) == 1:
            tgt = st.targets[0]
            if isinstance(tgt, ast.Name):
                env[tgt.id] = self.ev(st.value, env)
                return
            if isinstance(tgt, ast.Attribute) and effects is not None:
                base = self.ev(tgt.value, env)
                if isinstance(base, ObjV):
                    val = self.ev(st.value, env)
                    effects.append((base.role, tgt.attr, val))
                    if tgt.attr in base.attrs or isinstance(val, IntV):
                        base.attrs[tgt.attr] = val
                    return
            raise Untr("assignment target")
        if isinstance(st, ast.AugAssign):
            ops = {ast.Add: "add", ast.Sub: "sub", ast.Mult: "mul"}
            if type(st.op) not in ops:
                raise Untr("augmented operator")
            if isinstance(st.target, ast.Name):
                cur = self.ev(st.target, env)
                if isinstance(cur, ListV) and isinstance(st.op, ast.Add):
                    other = self.ev(st.value, env)
                    if isinstance(other, ListV):
                        cur.scalars += other.scalars
                        cur.perchild += other.perchild
                        return
                env[st.target.id] = IntV((ops[type(st.op)], self.int_of(cur), self.int_of(self.ev(st.value, env))))
                return
            if isinstance(st.target, ast.Attribute) and effects is not None:
                base = self.ev(st.target.value, env)
                if isinstance(base, ObjV) and st.target.attr in base.attrs:
                    val = IntV((ops[type(st.op)], self.int_of(base.attrs[st.target.attr]), self.int_of(self.ev(st.value, env))))
                    effects.append((base.role, st.target.attr, val))
                    base.attrs[st.target.attr] = val
                    return
            raise Untr("augmented assignment target")
        if isinstance(st, ast.Expr) and isinstance(st.value, ast.Call) and isinstance(st.value.func, ast.Attribute):
            f = st.value.func
            if f.attr in ("append", "extend") and isinstance(f.value, ast.Name) and isinstance(env.get(f.value.id), ListV) and len(st.value.args) == 1:
                lst = env[f.value.id]
                if f.attr == "append":
                    lst.scalars.append(self.int_of(self.ev(st.value.args[0], env)))
                else:
                    other = self.ev(st.value.args[0], env)
                    if not isinstance(other, ListV):
                        raise Untr("extend with a non-list")
                    lst.scalars += other.scalars
                    lst.perchild += other.perchild
                return
        raise Untr("statement " + type(st).__name__)

    def reduce_loop(self, st: ast.For, env, effects):
        """`for child in self.sub_images:` whose body only accumulates (max / min / append) or updates the child"""
        if st.orelse:
            raise Untr("for-else")
        it = self.ev(st.iter, env)
        if not isinstance(it, KidsV) or not isinstance(st.target, ast.Name):
            raise Untr("loop over something else than the sub-images")
        body_env = copy_env(env)
        kid = self.kid()
        body_env[st.target.id] = kid
        # accumulators: outer integer variables re-assigned in the body
        assigned = set()
        for s in st.body:
            if isinstance(s, ast.Assign) and len(s.targets) == 1 and isinstance(s.targets[0], ast.Name):
                assigned.add(s.targets[0].id)
            elif isinstance(s, (ast.AugAssign, ast.AnnAssign)) and isinstance(s.target, ast.Name):
                assigned.add(s.target.id)
        accs = {n for n in assigned if isinstance(env.get(n), IntV)}
        for n in accs:
            body_env[n] = IntV(("acc", n))
        # lists of the outer scope are shared on purpose (append in the body = one element per child)
        for n, v in env.items():
            if isinstance(v, ListV):
                body_env[n] = ListV()
        kid_effects = []
        for s in st.body:
            if is_doc(s) or is_log(s):
                continue
            if isinstance(s, ast.If):
                # `if e > acc: acc = e`  /  `if acc < e: acc = e`
                self.cond_update(s, body_env)
                continue
            self.simple(s, body_env, kid_effects)
        for n in accs:
            new = body_env[n].t
            old = ("acc", n)
            if new == old:
                continue
            init = env[n].t
            if new[0] in ("max2", "min2") and (new[1] == old) != (new[2] == old):
                e = new[2] if new[1] == old else new[1]
                if contains(e, old):
                    raise Untr("accumulator used inside its own update")
                kind = new[0][:3] + "of"
                if init[0] == kind:
                    env[n] = IntV((kind, init[1], init[2] + (e,)))
                else:
                    env[n] = IntV((kind, (init,), (e,)))
            else:
                raise Untr("loop-carried variable that is not a max / min accumulator")
        for n, v in env.items():
            if isinstance(v, ListV):
                inner = body_env[n]
                if any(contains(t, ("acc", a)) for t in inner.scalars for a in accs):
                    raise Untr("list element depends on an accumulator")
                v.perchild += inner.scalars      # appended once per child
                if inner.perchild:
                    raise Untr("nested per-child list")
        # names assigned in the body that are not accumulators hold the value of the LAST child afterwards: poison them
        for n in assigned - accs:
            env.pop(n, None)
        if kid_effects:
            if effects is None:
                raise Untr("attribute update in a pure function")
            for role, attr, val in kid_effects:
                effects.append((role, attr, val))

    def cond_update(self, s: ast.If, env):
        if s.orelse or len(s.body) != 1 or not isinstance(s.body[0], ast.Assign) or len(s.body[0].targets) != 1 \
                or not isinstance(s.body[0].targets[0], ast.Name):
            raise Untr("conditional statement inside a reduction loop")
        name = s.body[0].targets[0].id
        old = env.get(name)
        if not isinstance(old, IntV):
            raise Untr("conditional update of a non-integer")
        new = self.int_of(self.ev(s.body[0].value, env))
        c = self.truth(self.ev(s.test, env))
        if c in (("lt", old.t, new), ("le", old.t, new)):
            env[name] = IntV(("max2", new, old.t))
        elif c in (("lt", new, old.t), ("le", new, old.t)):
            env[name] = IntV(("min2", new, old.t))
        else:
            raise Untr("conditional update that is not a max / min")

    def tree_value(self, tree):
        k = tree[0]
        if k == "ret":
            return tree[1]
        if k == "if":
            a, b = self.tree_value(tree[2]), self.tree_value(tree[3])
            if isinstance(a, IntV) and isinstance(b, IntV):
                return IntV(("ite", tree[1], a.t, b.t))
            if isinstance(a, BoolV) and isinstance(b, BoolV):
                return BoolV(("bite", tree[1], a.t, b.t))
            raise Untr("branches of different types")
        if k == "fall":
            return NoneV()
        raise Untr("helper that raises")

    # -------------------------------------------------------------------------------------------- validate(): paths to every raise
    def walk(self, stmts, env, pc, scope, events, self_obj):
        states = [(env, pc)]
        for st in stmts:
            nxt = []
            for (e, p) in states:
                nxt += self.step(st, e, p, scope, events, self_obj)
            states = nxt
            if not states:
                break
        return states

    def step(self, st, env, pc, scope, events, self_obj):
        if is_doc(st) or is_log(st):
            return [(env, pc)]
        if isinstance(st, ast.Raise):
            events.append((scope, self.exc_class(st), pc))
            return []
        if isinstance(st, (ast.Continue, ast.Return)):
            if isinstance(st, ast.Return) and scope != "self":
                raise Untr("return inside a validation loop")
            return []
        if isinstance(st, ast.Break):
            raise Untr("break inside a validation loop")
        if isinstance(st, ast.If):
            c = self.truth(self.ev(st.test, env))
            a = self.walk(st.body, copy_env(env), t_and(pc, c), scope, events, self_obj) if c != FALSE else []
            b = self.walk(st.orelse, copy_env(env), t_and(pc, t_not(c)), scope, events, self_obj) if c != TRUE else []
            if len(a) == 1 and len(b) == 1 and not assigns(st):
                return [(env, pc)]      # both branches fall through and change nothing: one state again
            return a + b
        if isinstance(st, ast.For):
            if st.orelse:
                raise Untr("for-else")
            it = self.ev(st.iter, env)
            if not isinstance(it, KidsV) or not isinstance(st.target, ast.Name):
                raise Untr("validation loop over something else than the sub-images")
            if scope == "self":
                inner, obj = "child", ObjV("child", {"offset": IntV(V("cOff"))}, IntV(V("cLen")))
            elif scope == "child":
                inner, obj = "sibling", ObjV("sibling", {"offset": IntV(V("sOff"))}, IntV(V("sLen")))
            else:
                raise Untr("validation loops nested deeper than child / sibling")
            e2 = copy_env(env)
            e2[st.target.id] = obj
            self.walk(st.body, e2, TRUE, inner, events, self_obj)
            return [(env, pc)]
        if isinstance(st, ast.Expr) and isinstance(st.value, ast.Call) and isinstance(st.value.func, ast.Attribute) \
                and st.value.func.attr == "validate" and not st.value.args:
            recv = self.ev(st.value.func.value, env)
            if isinstance(recv, ObjV) and recv.role == "child" and scope == "child":
                events.append((scope, "recurse", pc))
                return [(env, pc)]
            raise Untr("validate() called on something else than the child")
        self.simple(st, env, None)
        return [(env, pc)]


# ================================================================================================ the generated parts
def opaque(name, sig, reason, out, meta):
    out.append(f"-- not readable from the current source: {reason}")
    out.append(f"opaque {name} : {sig}\n")
    meta["functions"][name] = {"mode": "untranslatable", "reason": reason}


def check_vars(term, allowed):
    extra = free_vars(term) - set(allowed)
    if extra:
        raise Untr("depends on " + ", ".join(sorted(extra)))


def self_obj_for_len():
    return ObjV("self", {"_size": IntV(V("size")), "binary": BytesV(V("binTruthy", "Bool"), V("binLen")), "sub_images": KidsV(),
                         "alignment": IntV(V("alignment"))})


def gen_BinImageGeo() -> None:
    out = ["import SpsdkVerif.Base.Py", "import SpsdkVerif.Base.GeoComb", "import SpsdkVerif.Generated.PyFuns", "",
           "namespace SpsdkVerif.Generated.BinImageGeo", "open SpsdkVerif SpsdkVerif.GeoComb SpsdkVerif.Generated", ""]
    meta = {"functions": {}, "source": IMAGES}
    sym = None
    try:
        tree = parse(IMAGES)
        menv = ModuleEnv(tree)
        cls_node = next(n for n in tree.body if isinstance(n, ast.ClassDef) and n.name == CLASS)
        exc = {}
        try:
            etree = parse(EXCEPTIONS)
            classes = {n.name: n for n in etree.body if isinstance(n, ast.ClassDef)}

            def is_spsdk(name, seen=()):
                if name == "SPSDKError":
                    return True
                n = classes.get(name)
                if n is None or name in seen:
                    return False
                return any(is_spsdk(b.id if isinstance(b, ast.Name) else getattr(b, "attr", ""), seen + (name,)) for b in n.bases)

            exc = {n: is_spsdk(n) for n in classes}
        except (OSError, SyntaxError):
            pass
        sym = Sym(cls_node, menv, exc)
    except (OSError, SyntaxError, StopIteration) as e:
        meta["error"] = f"{type(e).__name__}: {e}"

    def part(name, sig, builder):
        if sym is None:
            opaque(name, sig, "source file / class unreadable", out, meta)
            return
        try:
            sym.depth = 0
            text = builder()
            out.append(text + "\n")
            meta["functions"][name] = {"mode": "translated"}
        except (Untr, NotConst, KeyError, IndexError, AttributeError, TypeError, ValueError, RecursionError) as e:
            opaque(name, sig, f"{type(e).__name__}: {e}", out, meta)

    # ------------------------------------------------------------------ __len__
    def b_len():
        fn = sym.method("__len__")
        t = sym.int_of(sym.tree_value(sym.run(fn.body, {fn.args.args[0].arg: self_obj_for_len()})))
        check_vars(t, ["size", "binTruthy", "binLen", "alignment", "k.1", "k.2"])
        return ("/-- `BinaryImage.__len__` -/\ndef genLen (size : Int) (binTruthy : Bool) (binLen : Int) (alignment : Int) (kids : List (Int × Int)) : PyRes Int :=\n  "
                + lean_res_ordered(t))

    part("genLen", "Int → Bool → Int → Int → List (Int × Int) → PyRes Int", b_len)

    # ------------------------------------------------------------------ aligned_start / aligned_length
    def geo_obj():
        return ObjV("self", {"absolute_address": IntV(V("absAddr")), "alignment": IntV(V("ownAlignment"))}, IntV(V("selfLen")))

    def b_astart():
        fn = sym.method("aligned_start")
        v = sym.inline(fn, geo_obj(), [IntV(V("alignment"))], {})
        t = sym.int_of(v)
        check_vars(t, ["absAddr", "alignment"])
        return "/-- `BinaryImage.aligned_start(alignment)` -/\ndef genAlignedStart (absAddr alignment : Int) : Int :=\n  " + lean_int(norm(t))

    part("genAlignedStart", "Int → Int → Int", b_astart)

    def b_alen():
        fn = sym.method("aligned_length")
        v = sym.inline(fn, geo_obj(), [IntV(V("alignment"))], {})
        t = sym.int_of(v)
        check_vars(t, ["absAddr", "selfLen", "alignment"])
        return "/-- `BinaryImage.aligned_length(alignment)` -/\ndef genAlignedLength (absAddr selfLen alignment : Int) : Int :=\n  " + lean_int(norm(t))

    part("genAlignedLength", "Int → Int → Int → Int", b_alen)

    # ------------------------------------------------------------------ validate()
    vstate = {}

    def validate_events():
        if "ev" in vstate:
            return vstate["ev"]
        fn = sym.method("validate")
        sobj = ObjV("self", {"offset": IntV(V("offset")), "binary": BytesV(V("binTruthy", "Bool"), V("binLen")), "sub_images": KidsV()}, IntV(V("selfLen")))
        events = []
        sym.walk(fn.body, {fn.args.args[0].arg: sobj}, TRUE, "self", events, sobj)
        vstate["ev"] = events
        return events

    def scope_cond(scope):
        evs = [e for e in validate_events() if e[0] == scope and e[1] != "recurse"]
        if not evs:
            raise Untr(f"no check in the {scope} scope")
        c = FALSE
        for _, _, pc in evs:
            c = t_or(c, pc)
        return c

    def b_vself():
        c = scope_cond("self")
        check_vars(c, ["offset", "selfLen", "binTruthy", "binLen"])
        return ("/-- `validate()`: an error is raised for the image itself (negative offset / length, own binary larger than the image) -/\n"
                "def vSelfErr (offset selfLen : Int) (binTruthy : Bool) (binLen : Int) : Bool :=\n  " + lean_bool(c))

    part("vSelfErr", "Int → Int → Bool → Int → Bool", b_vself)

    def b_vchild():
        c = scope_cond("child")
        check_vars(c, ["cOff", "cLen", "selfLen"])
        return ("/-- `validate()`: an error is raised for a child with this offset and length in a parent of length `selfLen` (does not fit) -/\n"
                "def vChildErr (cOff cLen selfLen : Int) : Bool :=\n  " + lean_bool(c))

    part("vChildErr", "Int → Int → Int → Bool", b_vchild)

    def b_vsib():
        c = scope_cond("sibling")
        if subst(c, SAME, TRUE) != FALSE:
            raise Untr("the sibling check is not guarded by `sibling is not the child itself`")
        c = subst(c, SAME, FALSE)
        check_vars(c, ["cOff", "cLen", "sOff", "sLen"])
        return ("/-- `validate()`: an error is raised for a child against ANOTHER child (overlap) -/\n"
                "def vSiblingErr (cOff cLen sOff sLen : Int) : Bool :=\n  " + lean_bool(c))

    part("vSiblingErr", "Int → Int → Int → Int → Bool", b_vsib)

    def b_vshape():
        evs = validate_events()
        facts = set()
        for scope, kind, pc in evs:
            if kind == "recurse":
                facts.add("child:validate-recursively" + ("" if pc == TRUE else ":conditionally"))
            else:
                facts.add(f"{scope}:raises-{kind}")
        return ("/-- which checks `validate()` makes (scope:what), sorted; every child and every ordered pair of different children is visited -/\n"
                "def validateShape : List String := [" + ", ".join(f'"{x}"' for x in sorted(facts)) + "]")

    part("validateShape", "List String", b_vshape)

    # ------------------------------------------------------------------ add_image
    def b_insert():
        fn = sym.method("add_image")
        ps = [a.arg for a in fn.args.args]
        if len(ps) != 2:
            raise Untr("add_image signature")
        selfn, imgn = ps
        newobj = ObjV("new", {"offset": IntV(V("newOff"))})
        childobj = ObjV("old", {"offset": IntV(V("childOff"))})
        sobj = ObjV("self", {"sub_images": KidsV()})

        def is_kids(node):
            try:
                return isinstance(sym.ev(node, {selfn: sobj}), KidsV)
            except Untr:
                return False

        def is_enum_kids(node):
            return isinstance(node, ast.Call) and isinstance(node.func, ast.Name) and node.func.id == "enumerate" and len(node.args) == 1 and is_kids(node.args[0])

        def list_call(node, meth, nargs):
            return isinstance(node, ast.Call) and isinstance(node.func, ast.Attribute) and node.func.attr == meth and is_kids(node.func.value) and len(node.args) == nargs

        body = [s for s in fn.body if not is_doc(s) and not is_log(s)]
        # bookkeeping that does not concern the position: `image.parent = self`
        body = [s for s in body if not (isinstance(s, ast.Assign) and len(s.targets) == 1 and isinstance(s.targets[0], ast.Attribute)
                                        and isinstance(s.targets[0].value, ast.Name) and s.targets[0].value.id == imgn and s.targets[0].attr == "parent")]
        cond = None
        # shape A: loop with early return, append afterwards
        if len(body) == 2 and isinstance(body[0], ast.For) and isinstance(body[1], ast.Expr) and list_call(body[1].value, "append", 1):
            lp = body[0]
            if is_enum_kids(lp.iter) and isinstance(lp.target, ast.Tuple) and len(lp.target.elts) == 2 and not lp.orelse and len(lp.body) == 1 \
                    and isinstance(lp.body[0], ast.If) and not lp.body[0].orelse:
                iname, cname = lp.target.elts[0].id, lp.target.elts[1].id
                ifb = [s for s in lp.body[0].body if not is_log(s)]
                if len(ifb) == 2 and isinstance(ifb[0], ast.Expr) and list_call(ifb[0].value, "insert", 2) and isinstance(ifb[1], (ast.Return, ast.Break)) \
                        and isinstance(ifb[0].value.args[0], ast.Name) and ifb[0].value.args[0].id == iname \
                        and isinstance(ifb[0].value.args[1], ast.Name) and ifb[0].value.args[1].id == imgn \
                        and isinstance(body[1].value.args[0], ast.Name) and body[1].value.args[0].id == imgn and isinstance(ifb[1], ast.Return):
                    cond = sym.truth(sym.ev(lp.body[0].test, {selfn: sobj, imgn: newobj, cname: childobj}))
        # shape B: index = next((i for i, c in enumerate(L) if COND), len(L)); L.insert(index, image)   (index possibly inline)
        if cond is None:
            env_names = {}
            stmts = list(body)
            if len(stmts) == 2 and isinstance(stmts[0], ast.Assign) and len(stmts[0].targets) == 1 and isinstance(stmts[0].targets[0], ast.Name):
                env_names[stmts[0].targets[0].id] = stmts[0].value
                stmts = stmts[1:]
            if len(stmts) == 1 and isinstance(stmts[0], ast.Expr) and list_call(stmts[0].value, "insert", 2):
                idx, what = stmts[0].value.args
                if isinstance(idx, ast.Name) and idx.id in env_names:
                    idx = env_names[idx.id]
                if isinstance(what, ast.Name) and what.id == imgn and isinstance(idx, ast.Call) and isinstance(idx.func, ast.Name) and idx.func.id == "next" \
                        and len(idx.args) == 2 and isinstance(idx.args[0], ast.GeneratorExp):
                    g = idx.args[0]
                    dflt = idx.args[1]
                    if len(g.generators) == 1 and is_enum_kids(g.generators[0].iter) and isinstance(g.generators[0].target, ast.Tuple) \
                            and len(g.generators[0].target.elts) == 2 and len(g.generators[0].ifs) == 1 and isinstance(g.elt, ast.Name) \
                            and g.elt.id == g.generators[0].target.elts[0].id \
                            and isinstance(dflt, ast.Call) and isinstance(dflt.func, ast.Name) and dflt.func.id == "len" and len(dflt.args) == 1 and is_kids(dflt.args[0]):
                        cname = g.generators[0].target.elts[1].id
                        cond = sym.truth(sym.ev(g.generators[0].ifs[0], {selfn: sobj, imgn: newobj, cname: childobj}))
        if cond is None:
            raise Untr("add_image is not 'insert before the first child satisfying a condition, else append'")
        check_vars(cond, ["newOff", "childOff"])
        return ("/-- `add_image`: the new image goes before the FIRST child for which this holds, else to the end -/\n"
                "def genInsertBefore (newOff childOff : Int) : Bool :=\n  " + lean_bool(cond))

    part("genInsertBefore", "Int → Int → Bool", b_insert)

    # ------------------------------------------------------------------ size setter / constructor: how `_size` is stored
    def size_store(fn, value_param, what):
        """the integer stored into `self._size` by `fn` (only that assignment is read; parameters are free variables)"""
        selfn = fn.args.args[0].arg
        names = [a.arg for a in fn.args.args[1:]] + [a.arg for a in fn.args.kwonlyargs]
        if value_param not in names:
            raise Untr(f"{what}: parameter {value_param} not found")
        sobj = ObjV("self", {"alignment": IntV(V("alignment"))})
        env = {selfn: sobj, value_param: IntV(V("value"))}
        if "alignment" in names:
            env["alignment"] = IntV(V("alignment"))
        hits = []
        for st in fn.body:
            if is_doc(st) or is_log(st):
                continue
            if isinstance(st, ast.Assign) and len(st.targets) == 1 and isinstance(st.targets[0], ast.Attribute) \
                    and isinstance(st.targets[0].value, ast.Name) and st.targets[0].value.id == selfn:
                if st.targets[0].attr == "_size":
                    hits.append(sym.int_of(sym.ev(st.value, env)))
                elif st.targets[0].attr == "alignment":
                    v = sym.ev(st.value, env)
                    sobj.attrs["alignment"] = v
                continue
            if isinstance(st, ast.Assign) and len(st.targets) == 1 and isinstance(st.targets[0], ast.Name) and st.targets[0].id in (value_param, "alignment"):
                raise Untr(f"{what}: parameter rebound before `_size` is stored")
        if len(hits) != 1:
            raise Untr(f"{what}: `self._size` is not assigned exactly once")
        check_vars(hits[0], ["value", "alignment"])
        return hits[0]

    def b_setsize():
        setters = [n for n in cls_node.body if isinstance(n, ast.FunctionDef) and n.name == "size" and "setter" in Sym.decorators(n)]
        if len(setters) != 1:
            raise Untr("size setter not found")
        fn = setters[0]
        t = size_store(fn, fn.args.args[1].arg, "size setter")
        return ("/-- `BinaryImage.size = value` (the property setter): what is stored as the explicit size -/\ndef genSetSize (value alignment : Int) : PyRes Int :=\n  "
                + lean_res_ordered(t))

    part("genSetSize", "Int → Int → PyRes Int", b_setsize)

    def b_ctorsize():
        t = size_store(sym.method("__init__"), "size", "constructor")
        return ("/-- `BinaryImage(size=value, alignment=alignment)`: what the constructor stores as the explicit size -/\ndef genCtorSize (value alignment : Int) : PyRes Int :=\n  "
                + lean_res_ordered(t))

    part("genCtorSize", "Int → Int → PyRes Int", b_ctorsize)

    # ------------------------------------------------------------------ append_image
    def b_append():
        fn = sym.method("append_image")
        ps = [a.arg for a in fn.args.args]
        selfn, imgn = ps
        sobj = ObjV("self", {"sub_images": KidsV()}, IntV(V("selfLen")))
        img = ObjV("new", {"offset": IntV(V("newOff"))})
        env = {selfn: sobj, imgn: img}
        effects, added = [], False
        for s in fn.body:
            if is_doc(s) or is_log(s):
                continue
            if isinstance(s, ast.Expr) and isinstance(s.value, ast.Call) and isinstance(s.value.func, ast.Attribute) and s.value.func.attr == "add_image" \
                    and isinstance(s.value.func.value, ast.Name) and s.value.func.value.id == selfn and len(s.value.args) == 1 \
                    and isinstance(s.value.args[0], ast.Name) and s.value.args[0].id == imgn:
                added = True
                continue
            if added:
                raise Untr("statements after add_image")
            sym.simple(s, env, effects)
        offs = [v for role, attr, v in effects if role == "new" and attr == "offset"]
        if not added or not offs:
            raise Untr("append_image does not set the offset and then call add_image")
        t = sym.int_of(offs[-1])
        check_vars(t, ["selfLen"])
        return "/-- `append_image`: the offset given to the image before it is added -/\ndef genAppendOffset (selfLen : Int) : Int :=\n  " + lean_int(norm(t))

    part("genAppendOffset", "Int → Int", b_append)

    # ------------------------------------------------------------------ min_offset / update_offsets
    def b_minoff():
        fn = sym.method("min_offset")
        v = sym.inline(fn, ObjV("self", {"sub_images": KidsV()}), [], {})
        t = sym.int_of(v)
        check_vars(t, ["k.1", "k.2"])
        return "/-- `min_offset` (a `ValueError` without children) -/\ndef genMinOffset (kids : List (Int × Int)) : PyRes Int :=\n  " + lean_res_ordered(t)

    part("genMinOffset", "List (Int × Int) → PyRes Int", b_minoff)

    ustate = {}

    def upd_effects():
        if "e" in ustate:
            return ustate["e"]
        fn = sym.method("update_offsets")
        sobj = ObjV("self", {"sub_images": KidsV(), "offset": IntV(V("offset")), "min_offset": IntV(V("m"))})
        env = {fn.args.args[0].arg: sobj}
        effects = []
        for s in fn.body:
            if is_doc(s) or is_log(s):
                continue
            if isinstance(s, ast.For):
                sym.reduce_loop(s, env, effects)
            else:
                sym.simple(s, env, effects)
        ustate["e"] = effects
        return effects

    def b_updchild():
        ts = [v for role, attr, v in upd_effects() if role == "kid" and attr == "offset"]
        if len(ts) != 1:
            raise Untr("update_offsets does not update every child's offset exactly once")
        t = subst(sym.int_of(ts[0]), V("k.1"), V("childOff"))
        check_vars(t, ["childOff", "m"])
        return "/-- `update_offsets`: new offset of a child (`m` = `min_offset`) -/\ndef genUpdChildOffset (childOff m : Int) : Int :=\n  " + lean_int(norm(t))

    part("genUpdChildOffset", "Int → Int → Int", b_updchild)

    def b_updself():
        ts = [v for role, attr, v in upd_effects() if role == "self" and attr == "offset"]
        if len(ts) != 1:
            raise Untr("update_offsets does not update the own offset exactly once")
        t = sym.int_of(ts[0])
        check_vars(t, ["offset", "m"])
        return "/-- `update_offsets`: new offset of the image itself -/\ndef genUpdSelfOffset (offset m : Int) : Int :=\n  " + lean_int(norm(t))

    part("genUpdSelfOffset", "Int → Int → Int", b_updself)

    # ------------------------------------------------------------------ load_from_config: offset of a region
    cstate = {}

    def cfg_sites():
        if "s" in cstate:
            return cstate["s"]
        fn = sym.method("load_from_config")
        # the image under construction: a name bound to a call of the class
        roots = {s.targets[0].id for s in ast.walk(fn) if isinstance(s, ast.Assign) and len(s.targets) == 1 and isinstance(s.targets[0], ast.Name)
                 and isinstance(s.value, ast.Call) and isinstance(s.value.func, ast.Name) and s.value.func.id in (CLASS, "cls")}
        # region dictionaries: names bound to something mentioning the region key
        kinds = {}
        for s in ast.walk(fn):
            if isinstance(s, (ast.Assign, ast.AnnAssign)):
                tg = s.targets[0] if isinstance(s, ast.Assign) else s.target
                if isinstance(tg, ast.Name) and s.value is not None:
                    keys = {c.value for c in ast.walk(s.value) if isinstance(c, ast.Constant) and c.value in ("binary_file", "binary_block")}
                    if len(keys) == 1:
                        kinds[tg.id] = keys.pop()
            if isinstance(s, ast.NamedExpr) and isinstance(s.target, ast.Name):
                keys = {c.value for c in ast.walk(s.value) if isinstance(c, ast.Constant) and c.value in ("binary_file", "binary_block")}
                if len(keys) == 1:
                    kinds[s.target.id] = keys.pop()
        sites = {}
        for s in ast.walk(fn):
            val = s.value if isinstance(s, (ast.Assign, ast.AnnAssign)) and s.value is not None else None
            if val is None or not any(isinstance(c, ast.Constant) and c.value == "offset" for c in ast.walk(val)):
                continue
            form = cfg_form(val)
            if form is None:
                raise Untr("an expression reading the region key 'offset' has an unknown form")
            mode, dname, default = form
            kind = kinds.get(dname)
            if kind is None:
                raise Untr("cannot tell which region kind an 'offset' lookup belongs to")
            if kind in sites:
                raise Untr(f"several 'offset' lookups for {kind}")
            robj = ObjV("self", {"absolute_address": IntV(V("absAddr")), "alignment": IntV(V("alignment"))}, IntV(V("curLen")))
            env = {r: robj for r in roots}
            t = sym.int_of(sym.ev(default, env))
            check_vars(t, ["absAddr", "curLen", "alignment"])
            sites[kind] = (mode, t)
        cstate["s"] = sites
        return sites

    def cfg_form(val):
        def is_key(n):
            return isinstance(n, ast.Constant) and n.value == "offset"
        # d.get("offset", DEFAULT)
        if isinstance(val, ast.Call) and isinstance(val.func, ast.Attribute) and val.func.attr == "get" and isinstance(val.func.value, ast.Name) \
                and len(val.args) == 2 and is_key(val.args[0]) and not val.keywords:
            return ("explicit-wins", val.func.value.id, val.args[1])
        # d.get("offset") or DEFAULT
        if isinstance(val, ast.BoolOp) and isinstance(val.op, ast.Or) and len(val.values) == 2:
            a = val.values[0]
            if isinstance(a, ast.Call) and isinstance(a.func, ast.Attribute) and a.func.attr == "get" and isinstance(a.func.value, ast.Name) \
                    and 1 <= len(a.args) <= 2 and is_key(a.args[0]) and (len(a.args) == 1 or (isinstance(a.args[1], ast.Constant) and not a.args[1].value)):
                return ("truthy-wins", a.func.value.id, val.values[1])
        # d["offset"] if "offset" in d else DEFAULT
        if isinstance(val, ast.IfExp) and isinstance(val.test, ast.Compare) and len(val.test.ops) == 1:
            t = val.test
            if isinstance(t.ops[0], ast.In) and is_key(t.left) and isinstance(t.comparators[0], ast.Name) and isinstance(val.body, ast.Subscript) \
                    and isinstance(val.body.value, ast.Name) and val.body.value.id == t.comparators[0].id and is_key(val.body.slice):
                return ("explicit-wins", t.comparators[0].id, val.orelse)
            if isinstance(t.ops[0], ast.NotIn) and is_key(t.left) and isinstance(t.comparators[0], ast.Name) and isinstance(val.orelse, ast.Subscript) \
                    and isinstance(val.orelse.value, ast.Name) and val.orelse.value.id == t.comparators[0].id and is_key(val.orelse.slice):
                return ("explicit-wins", t.comparators[0].id, val.body)
        return None

    def b_cfg(kind, lname):
        def build():
            sites = cfg_sites()
            if kind not in sites:
                raise Untr(f"no 'offset' lookup found for {kind}")
            mode, t = sites[kind]
            d = lean_int(norm(t))
            if mode == "explicit-wins":
                body = f"match given with\n  | some v => v\n  | none => {d}"
            else:
                body = f"match given with\n  | some v => if v ≠ 0 then v else {d}\n  | none => {d}"
            return (f"/-- `load_from_config`: offset of a `{kind}` region; `given` = the region's own `offset` entry when present;\n"
                    f"    `absAddr`, `curLen`, `alignment` describe the image built so far -/\n"
                    f"def {lname} (given : Option Int) (absAddr curLen alignment : Int) : Int :=\n  {body}")
        return build

    part("genCfgOffsetFile", "Option Int → Int → Int → Int → Int", b_cfg("binary_file", "genCfgOffsetFile"))
    part("genCfgOffsetBlock", "Option Int → Int → Int → Int → Int", b_cfg("binary_block", "genCfgOffsetBlock"))

    # ------------------------------------------------------------------ export(): the fast path that returns the own binary unchanged
    def b_fast():
        fn = sym.method("export")
        selfn = fn.args.args[0].arg
        sobj = ObjV("self", {"_size": IntV(V("size")), "binary": BytesV(V("binTruthy", "Bool"), V("binLen")), "sub_images": KidsV(),
                             "alignment": IntV(V("alignment"))}, IntV(V("selfLen")))
        body = [s for s in fn.body if not is_doc(s) and not is_log(s)]

        def returns_binary(st):
            return isinstance(st, ast.Return) and isinstance(st.value, ast.Attribute) and st.value.attr == "binary" \
                and isinstance(st.value.value, ast.Name) and st.value.value.id == selfn

        if not body or not isinstance(body[0], ast.If) or body[0].orelse or not (len(body[0].body) == 1 and returns_binary(body[0].body[0])):
            raise Untr("export() does not start with `if …: return self.binary`")
        c = sym.truth(sym.ev(body[0].test, {selfn: sobj}))
        check_vars(c, ["binTruthy", "binLen", "selfLen", "size", "nKids"])
        return ("/-- `export()`: the own binary is returned as it is (no pattern, no padding) -/\n"
                "def genExportFast (binTruthy : Bool) (binLen selfLen size nKids : Int) : Bool :=\n  " + lean_bool(c))

    part("genExportFast", "Bool → Int → Int → Int → Int → Bool", b_fast)

    # ------------------------------------------------------------------ save_binary_image (HEX / S19): what is handed to bincopy, in which order
    sstate = {}

    def save_events():
        if "e" in sstate:
            return sstate["e"]
        fn = sym.method("save_binary_image")
        inner = [n for n in ast.walk(fn) if isinstance(n, ast.FunctionDef) and n is not fn]
        cands = [n for n in inner if any(isinstance(c, ast.Call) and isinstance(c.func, ast.Attribute) and c.func.attr == "add_binary" for c in ast.walk(n))]
        if len(cands) != 1 or len(cands[0].args.args) != 1:
            raise Untr("no single local helper that feeds the image into bincopy")
        helper = cands[0]
        pn = helper.args.args[0].arg
        obj = ObjV("self", {"binary": BytesV(V("binTruthy", "Bool"), V("binLen")), "sub_images": KidsV(), "absolute_address": IntV(V("absAddr")),
                            "offset": IntV(V("offset")), "pattern": ObjV("pattern", truthy=V("patTruthy", "Bool"))}, IntV(V("selfLen")))
        events = []

        def walk(stmts, env, pc, in_loop):
            states = [(env, pc)]
            for st in stmts:
                nxt = []
                for (e, p) in states:
                    nxt += step(st, e, p, in_loop)
                states = nxt
            return states

        def step(st, env, pc, in_loop):
            if is_doc(st) or is_log(st):
                return [(env, pc)]
            if isinstance(st, ast.Return):
                return []
            if isinstance(st, ast.If):
                c = sym.truth(sym.ev(st.test, env))
                a = walk(st.body, copy_env(env), t_and(pc, c), in_loop)
                b = walk(st.orelse, copy_env(env), t_and(pc, t_not(c)), in_loop)
                if len(a) == 1 and len(b) == 1 and not assigns(st):
                    return [(env, pc)]      # both branches fall through and change nothing: one state again
                return a + b
            if isinstance(st, ast.For):
                it = sym.ev(st.iter, env)
                if not isinstance(it, KidsV) or not isinstance(st.target, ast.Name) or in_loop or st.orelse:
                    raise Untr("loop in the bincopy feeder")
                e2 = copy_env(env)
                e2[st.target.id] = ObjV("child")
                walk(st.body, e2, pc, True)
                return [(env, pc)]
            if isinstance(st, ast.Expr) and isinstance(st.value, ast.Call):
                c = st.value
                if isinstance(c.func, ast.Name) and c.func.id == helper.name and len(c.args) == 1:
                    a = sym.ev(c.args[0], env)
                    if isinstance(a, ObjV) and a.role == "child" and in_loop:
                        events.append(("children", pc, None, None))
                        return [(env, pc)]
                    raise Untr("recursion of the bincopy feeder on something else than a child")
                if isinstance(c.func, ast.Attribute) and c.func.attr == "add_binary":
                    args = list(c.args)
                    kw = {k.arg: k.value for k in c.keywords}
                    data = args[0] if args else kw.get("data")
                    addr = args[1] if len(args) > 1 else kw.get("address")
                    ow = args[2] if len(args) > 2 else kw.get("overwrite")
                    if data is None or addr is None:
                        raise Untr("add_binary without data / address")
                    d = sym.ev(data, env)
                    a = sym.int_of(sym.ev(addr, env))
                    o = sym.truth(sym.ev(ow, env)) if ow is not None else FALSE
                    if isinstance(d, BlockV):
                        events.append(("pattern", pc, a, (o, d.size)))
                    elif isinstance(d, BytesV):
                        events.append(("binary", pc, a, (o, None)))
                    else:
                        raise Untr("add_binary of something else than the pattern block / the binary")
                    return [(env, pc)]
            sym.simple(st, env, None)
            return [(env, pc)]

        walk(helper.body, {pn: obj}, TRUE, False)
        sstate["e"] = events
        return events

    def one_event(kind):
        evs = [e for e in save_events() if e[0] == kind]
        if len(evs) != 1:
            raise Untr(f"{len(evs)} places hand the {kind} to bincopy")
        return evs[0]

    def b_save_pat():
        _, pc, addr, (ow, size) = one_event("pattern")
        check_vars(pc, ["patTruthy", "binTruthy", "selfLen", "binLen"])
        return ("/-- HEX / S19: the node's pattern block is handed to bincopy -/\n"
                "def savePatternWritten (patTruthy binTruthy : Bool) (binLen selfLen : Int) : Bool :=\n  " + lean_bool(pc) + "\n"
                "/-- … with this many bytes -/\ndef savePatternSize (selfLen : Int) : Int :=\n  " + lean_int(size))

    part("savePatternWritten", "Bool → Bool → Int → Int → Bool", b_save_pat)
    if meta["functions"]["savePatternWritten"]["mode"] != "translated":
        opaque("savePatternSize", "Int → Int", "see savePatternWritten", out, meta)

    def b_save_bin():
        _, pc, addr, (ow, _) = one_event("binary")
        check_vars(pc, ["patTruthy", "binTruthy", "selfLen", "binLen"])
        return ("/-- HEX / S19: the node's own binary is handed to bincopy -/\n"
                "def saveBinaryWritten (patTruthy binTruthy : Bool) (binLen selfLen : Int) : Bool :=\n  " + lean_bool(pc))

    part("saveBinaryWritten", "Bool → Bool → Int → Int → Bool", b_save_bin)

    def b_save_shape():
        items = []
        for kind, pc, addr, extra in save_events():
            if kind == "children":
                items.append("children" + ("" if pc == TRUE else ":conditionally"))
            else:
                where = "absolute-address" if addr == V("absAddr") else "other-address"
                items.append(f"{kind}@{where}" + ("+overwrite" if extra[0] == TRUE else ""))
        return ("/-- HEX / S19: what a node hands to bincopy, in execution order (later data overwrites earlier data) -/\n"
                "def saveOrder : List String := [" + ", ".join(f'"{x}"' for x in items) + "]")

    part("saveOrder", "List String", b_save_shape)

    # ------------------------------------------------------------------ file formats and the ELF magic (constants by value)
    def b_formats():
        fn = sym.method("save_binary_image")
        supported = None
        for n in ast.walk(fn):
            if isinstance(n, ast.Compare) and len(n.ops) == 1 and isinstance(n.ops[0], (ast.In, ast.NotIn)):
                try:
                    v = menv.eval(n.comparators[0], cls=CLASS)
                except NotConst:
                    continue
                if isinstance(v, (tuple, list, set, frozenset)) and v and all(isinstance(x, str) for x in v):
                    if supported is not None and set(v) != supported:
                        raise Untr("two different format lists")
                    supported = set(v)
        if supported is None:
            raise Untr("no membership test against a constant list of format names")
        # which writer a format is dispatched to: `if file_format == K:` … export() / as_ihex() / as_srec()
        writers = {}

        def calls(stmts):
            return {c.func.attr for s in stmts for c in ast.walk(s) if isinstance(c, ast.Call) and isinstance(c.func, ast.Attribute)}

        top = [s for s in fn.body if not is_doc(s)]
        for i, s in enumerate(top):
            if isinstance(s, ast.If) and isinstance(s.test, ast.Compare) and len(s.test.ops) == 1 and isinstance(s.test.ops[0], ast.Eq):
                try:
                    k = menv.eval(s.test.comparators[0], cls=CLASS)
                except NotConst:
                    try:
                        k = menv.eval(s.test.left, cls=CLASS)
                    except NotConst:
                        continue
                if isinstance(k, str):
                    cs = calls(s.body) & {"export", "as_ihex", "as_srec", "as_binary"}
                    if len(cs) == 1 and any(isinstance(x, ast.Return) for x in s.body):
                        writers[k] = cs.pop()
        rest = supported - set(writers)
        tail = calls(top[-1:]) & {"export", "as_ihex", "as_srec", "as_binary"}
        if len(rest) == 1 and len(tail) == 1:
            writers[rest.pop()] = tail.pop()
        if set(writers) != supported:
            raise Untr("cannot tell which writer every supported format is sent to")
        items = ", ".join(f'("{k}", "{writers[k]}")' for k in sorted(writers))
        return ("/-- `save_binary_image`: the accepted format names (upper-cased first) and the writer each one is sent to, sorted by name -/\n"
                f"def formatWriters : List (String × String) := [{items}]")

    part("formatWriters", "List (String × String)", b_formats)

    def b_elf():
        fn = sym.method("load_binary_image")
        magic = None
        for n in ast.walk(fn):
            if isinstance(n, ast.Compare) and len(n.ops) == 1 and isinstance(n.ops[0], ast.Eq):
                for side in (n.left, n.comparators[0]):
                    try:
                        v = menv.eval(side, cls=CLASS)
                    except NotConst:
                        continue
                    if isinstance(v, (bytes, bytearray)):
                        if magic is not None and bytes(v) != magic:
                            raise Untr("two different magic values")
                        magic = bytes(v)
        if magic is None:
            raise Untr("no comparison against constant bytes")
        sniff = None
        for n in ast.walk(fn):
            if isinstance(n, ast.Call) and isinstance(n.func, ast.Attribute) and n.func.attr == "read" and len(n.args) == 1:
                try:
                    v = menv.eval(n.args[0], cls=CLASS)
                except NotConst:
                    continue
                if isinstance(v, int):
                    sniff = v
        if sniff is None:
            raise Untr("no read() of a constant number of bytes")
        return ("/-- `load_binary_image`: the first bytes that make a file an ELF file, and how many bytes are read to decide -/\n"
                "def elfMagic : List UInt8 := [" + ", ".join(str(b) for b in magic) + "]\n"
                f"def elfSniffLen : Nat := {sniff}")

    def b_elf_wrapped():
        return b_elf()

    if sym is None:
        opaque("elfMagic", "List UInt8", "source file / class unreadable", out, meta)
        opaque("elfSniffLen", "Nat", "source file / class unreadable", out, meta)
    else:
        try:
            out.append(b_elf() + "\n")
            meta["functions"]["elfMagic"] = {"mode": "translated"}
            meta["functions"]["elfSniffLen"] = {"mode": "translated"}
        except (Untr, NotConst, KeyError, IndexError, AttributeError, TypeError, ValueError) as e:
            opaque("elfMagic", "List UInt8", f"{type(e).__name__}: {e}", out, meta)
            opaque("elfSniffLen", "Nat", f"{type(e).__name__}: {e}", out, meta)

    out.append("end SpsdkVerif.Generated.BinImageGeo")
    emit("BinImageGeo", "\n".join(out) + "\n", meta)


GENERATORS = {"BinImageGeo": gen_BinImageGeo}
